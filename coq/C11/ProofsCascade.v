(* C11/ProofsCascade.v — frames of a chopper cascade are exactly the reachable (time, wavelength)
   points (Spec.Reach); corollaries: wavelength band, order independence, two-step propagation. *)
From Coq Require Import Reals List Bool Lra Psatz Permutation Sorted.
From Verif.Sem Require Import RInst.
From Verif.C11 Require Import Clip Inst Spec ProofsClip ProofsConvex.
Import ListNotations.
Open Scope R_scope.

Lemma last_cons {A} (l : list A) : forall x d, last (x :: l) d = last l x.
Proof.
  induction l as [|a l IH]; intros x d; [reflexivity|].
  change (last (a :: l) d = last (a :: l) x). rewrite !IH. reflexivity.
Qed.

Lemma chop1_in_gen (O : COps) (w : T O * T O) (V V2 : poly O) :
  In V2 (chop1 O w V) <-> V2 = clip O false (snd w) (clip O true (fst w) V) /\ V2 <> [].
Proof.
  unfold chop1.
  destruct (clip O true (fst w) V) as [|x l] eqn:E1.
  - change (clip O false (snd w) []) with (@nil (pt O)). simpl. split; [tauto | intros [-> H]; auto].
  - destruct (clip O false (snd w) (x :: l)) as [|y l2] eqn:E2; simpl.
    + split; [tauto | intros [-> H]; auto].
    + split; [intros [<- | []]; split; [auto | discriminate] | intros [-> _]; auto].
Qed.

Section CascR.
Variables mn h sc : R.
Notation O := (ROps mn h sc).
Notation al := (alpha mn h sc).
Implicit Types (a d : R) (V : list P2) (p : P2) (fr : frame O).

Definition spec_of (c : chopper O) : schopper := (cdist c, cwin c).
Definition in_frame fr p : Prop := exists V, In V (fpolys fr) /\ hull V p.
Definition frame_convex (fr : frame O) : Prop := forall V, In V (fpolys fr) -> convex V.

(* Reach with an arbitrary transmission predicate (instantiated with Spec.transmitted below) *)
Definition ReachP (r : rect) (Tr : neutron -> Prop) (d : R) (p : P2) : Prop :=
  exists n : neutron, in_rect r n /\ Tr n /\ fst p = arrival al n d /\ snd p = snd n.
Definition Inv (r : rect) (Tr : neutron -> Prop) (fr : frame O) : Prop :=
  frame_convex fr /\ forall p, in_frame fr p <-> ReachP r Tr (fdist fr) p.

Lemma ReachP_ext r Tr Tr' d p : (forall n, Tr n <-> Tr' n) -> ReachP r Tr d p <-> ReachP r Tr' d p.
Proof. intros E; split; intros (n & Hr & Ht & HE); exists n; (split; [exact Hr | split; [apply E; exact Ht | exact HE]]). Qed.

Lemma ReachP_shift r Tr d d' p :
  ReachP r Tr d' p <-> ReachP r Tr d (shearp (- ((d' - d) * al)) p).
Proof.
  unfold ReachP, arrival, shearp; simpl.
  split; intros (n & Hr & Ht & E1 & E2); exists n; (split; [exact Hr | split; [exact Ht | split; [|exact E2]]]).
  - rewrite E1, E2. ring.
  - rewrite E2 in E1. lra.
Qed.

(* ---- the source frame *)
Lemma inv_source t0 t1 w0 w1 : t0 <= t1 -> w0 <= w1 ->
  Inv (mkrect t0 t1 w0 w1) (fun _ => True) (mkframe (O:=O) 0 [rect_poly t0 t1 w0 w1]).
Proof.
  intros Ht Hw. split.
  - intros V [<- | []]. apply rect_convex; auto.
  - intros p. unfold in_frame; simpl. split.
    + intros (V & [<- | []] & H). apply rect_hull in H; auto.
      exists p. unfold in_rect, arrival; simpl. repeat split; try tauto; ring.
    + intros (n & [H1 H2] & _ & E1 & E2). exists (rect_poly t0 t1 w0 w1). split; auto.
      apply rect_hull; auto. simpl in *. unfold arrival in E1. rewrite E2. split; [|auto]. lra.
Qed.

(* ---- propagation *)
Lemma inv_propagate r Tr fr d : Inv r Tr fr -> Inv r Tr (propagate_to O d fr).
Proof.
  intros [C H]. split.
  - intros V HV. unfold propagate_to in HV; simpl in HV. apply in_map_iff in HV.
    destruct HV as (V0 & <- & HV0). rewrite shear_map. apply shear_convex; auto.
  - intros p. simpl. rewrite (ReachP_shift r Tr (fdist fr) d p), <- H.
    unfold in_frame, propagate_to; simpl. split.
    + intros (V & HV & Hp). apply in_map_iff in HV. destruct HV as (V0 & <- & HV0).
      exists V0. split; auto. rewrite shear_map in Hp. apply shear_hull in Hp.
      replace (- ((d - fdist fr) * al)) with (- ((d + - fdist fr) * al)) by ring. exact Hp.
    + intros (V0 & HV0 & Hp). exists (shear O (d - fdist fr) V0). split; [apply in_map; auto|].
      rewrite shear_map. apply shear_hull. exact Hp.
Qed.

(* ---- one opening applied to one convex subframe *)
Lemma chop1_in (w : R * R) V V2 :
  In V2 (chop1 O w V) <-> V2 = clip O false (snd w) (clip O true (fst w) V) /\ V2 <> [].
Proof. exact (chop1_in_gen O w V V2). Qed.

Lemma chop1_hull (w : R * R) V p : convex V ->
  ((exists V2, In V2 (chop1 O w V) /\ hull V2 p) <-> hull V p /\ fst w <= fst p <= snd w).
Proof.
  intros C. split.
  - intros (V2 & HV2 & Hp). apply chop1_in in HV2. destruct HV2 as [-> _].
    apply clip_sound in Hp. destruct Hp as [Hp S2]. apply clip_sound in Hp. destruct Hp as [Hp S1].
    unfold side in *. tauto.
  - intros (Hp & S1 & S2). exists (clip O false (snd w) (clip O true (fst w) V)).
    assert (Hh : hull (clip O false (snd w) (clip O true (fst w) V)) p).
    { apply clip_complete; [apply clip_convex; auto | | exact S2]. apply clip_complete; auto. }
    split; auto. apply chop1_in. split; auto. intros E. rewrite E in Hh. exact (hull_nil _ Hh).
Qed.

Lemma chop1_convex (w : R * R) V V2 : convex V -> In V2 (chop1 O w V) -> convex V2.
Proof. intros C H. apply chop1_in in H. destruct H as [-> _]. apply clip_convex, clip_convex, C. Qed.

(* ---- one chopper *)
Lemma chop_frame_some (c : chopper O) fr fr' : chop_frame O c fr = Some fr' ->
  fdist fr <= cdist c /\
  fr' = mkframe (cdist c)
          (flat_map (fun V => flat_map (fun w => chop1 O w V) (cwin c)) (fpolys (propagate_to O (cdist c) fr))).
Proof.
  unfold chop_frame. simpl. unfold Rltb. destruct (Rlt_dec (cdist c) (fdist fr)); [discriminate|].
  intros E; inversion E. split; [lra | reflexivity].
Qed.
Lemma chop_frame_ok (c : chopper O) fr : fdist fr <= cdist c -> exists fr', chop_frame O c fr = Some fr'.
Proof.
  intros H. unfold chop_frame. simpl. unfold Rltb. destruct (Rlt_dec (cdist c) (fdist fr)); [lra|]. eauto.
Qed.

Lemma inv_chop r Tr (c : chopper O) fr fr' : Inv r Tr fr -> chop_frame O c fr = Some fr' ->
  Inv r (fun n => Tr n /\ passes al (spec_of c) n) fr'.
Proof.
  intros I E. apply chop_frame_some in E. destruct E as [_ ->].
  destruct (inv_propagate r Tr fr (cdist c) I) as [C H]. split.
  - intros V HV. simpl in HV. apply in_flat_map in HV. destruct HV as (V0 & HV0 & HV).
    apply in_flat_map in HV. destruct HV as (w & Hw & HV). eapply chop1_convex; eauto.
  - intros p. simpl fdist in *. split.
    + intros (V & HV & Hp). simpl in HV. apply in_flat_map in HV. destruct HV as (V0 & HV0 & HV).
      apply in_flat_map in HV. destruct HV as (w & Hw & HV).
      assert (Hc : hull V0 p /\ fst w <= fst p <= snd w) by (apply chop1_hull; eauto).
      destruct Hc as [Hp0 Hwin].
      assert (HR : ReachP r Tr (cdist c) p) by (apply H; exists V0; auto).
      destruct HR as (n & Hr & Ht & E1 & E2). exists n.
      split; [exact Hr|]. split; [split; [exact Ht|] | split; assumption].
      unfold passes, spec_of; simpl. apply Exists_exists. exists w. split; auto. rewrite <- E1. exact Hwin.
    + intros (n & Hr & [Ht Hp] & E1 & E2).
      assert (HR : ReachP r Tr (cdist c) p) by (exists n; auto).
      apply H in HR. destruct HR as (V0 & HV0 & Hp0).
      unfold passes, spec_of in Hp; simpl in Hp. apply Exists_exists in Hp. destruct Hp as (w & Hw & Hwin).
      rewrite <- E1 in Hwin.
      destruct (proj2 (chop1_hull w V0 p (C V0 HV0)) (conj Hp0 Hwin)) as (V2 & HV2 & Hp2).
      exists V2. split; auto. simpl. apply in_flat_map. exists V0. split; auto.
      apply in_flat_map. exists w. auto.
Qed.

(* ---- a list of choppers applied in the given order *)
Lemma cascade_inv r : forall (cs : list (chopper O)) Tr fr fs,
  Inv r Tr fr -> cascade_go O fr cs = Some fs ->
  Inv r (fun n => Tr n /\ transmitted al (map spec_of cs) n) (last fs fr) /\
  (forall f, In f fs -> exists Tr', Inv r Tr' f).
Proof.
  induction cs as [|c cs IH]; simpl; intros Tr fr fs I E.
  - inversion E; subst fs. simpl. split; [|tauto]. destruct I as [C H]. split; auto.
    intros p. rewrite H. apply ReachP_ext. intros n. split; [intros; split; auto; constructor | tauto].
  - destruct (chop_frame O c fr) as [f|] eqn:Ec; [|discriminate].
    destruct (cascade_go O f cs) as [fs'|] eqn:Eg; [|discriminate]. inversion E; subst fs.
    pose proof (inv_chop r Tr c fr f I Ec) as I'.
    destruct (IH _ f fs' I' Eg) as [[C H] Hall]. split.
    + rewrite last_cons.
      split; auto. intros p. rewrite H. apply ReachP_ext. intros n. split.
      * intros [[H1 H2] H3]. split; auto. constructor; auto.
      * intros [H1 H2]. inversion H2; subst. tauto.
    + intros f0 [<- | Hf]; eauto.
Qed.

Lemma cascade_ok : forall (cs : list (chopper O)) fr,
  StronglySorted (fun c c' : chopper O => cdist c <= cdist c') cs ->
  Forall (fun c : chopper O => fdist fr <= cdist c) cs ->
  exists fs, cascade_go O fr cs = Some fs.
Proof.
  induction cs as [|c cs IH]; simpl; intros fr S F; [eauto|].
  inversion S; subst. inversion F; subst.
  destruct (chop_frame_ok c fr H3) as (f & Ef). rewrite Ef.
  destruct (chop_frame_some _ _ _ Ef) as [_ Ef'].
  destruct (IH f) as (fs & Eg); auto.
  - rewrite Ef'. simpl. exact H2.
  - rewrite Eg. eauto.
Qed.

(* ---- sorted(choppers, key=distance) *)
Definition dle (c c' : chopper O) : Prop := cdist c <= cdist c'.
Definition dlt (c c' : chopper O) : Prop := cdist c < cdist c'.

Lemma insert_perm (c : chopper O) l : Permutation (insert O c l) (c :: l).
Proof.
  induction l as [|y r IH]; simpl; auto.
  destruct (Rltb (cdist y) (cdist c)); auto.
  eapply perm_trans; [apply perm_skip, IH | apply perm_swap].
Qed.
Lemma sort_perm (l : list (chopper O)) : Permutation (sort O l) l.
Proof. induction l as [|c r IH]; simpl; auto. eapply perm_trans; [apply insert_perm | apply perm_skip, IH]. Qed.

Lemma insert_sorted (c : chopper O) l : StronglySorted dle l -> StronglySorted dle (insert O c l).
Proof.
  induction l as [|y r IH]; simpl; intros S.
  - constructor; constructor.
  - inversion S; subst. simpl. unfold Rltb. destruct (Rlt_dec (cdist y) (cdist c)).
    + constructor; auto.
      eapply Permutation_Forall; [apply Permutation_sym, insert_perm|].
      constructor; auto. unfold dle; lra.
    + constructor; auto. constructor; [unfold dle; lra|].
      eapply Forall_impl; [|exact H2]. unfold dle. intros; lra.
Qed.
Lemma sort_sorted (l : list (chopper O)) : StronglySorted dle (sort O l).
Proof. induction l; simpl; [constructor | apply insert_sorted; auto]. Qed.

Lemma sorted_strict l : StronglySorted dle l -> NoDup (map (@cdist O) l) -> StronglySorted dlt l.
Proof.
  induction l as [|c r IH]; intros S N; [constructor|].
  inversion S; subst. inversion N; subst. constructor; auto.
  rewrite Forall_forall in *. intros y Hy. specialize (H2 y Hy). unfold dle, dlt in *.
  destruct (Req_dec (cdist c) (cdist y)) as [E | NE]; [|lra].
  exfalso. apply H3. rewrite E. apply in_map; auto.
Qed.

Lemma sorted_unique : forall l l' : list (chopper O),
  StronglySorted dlt l -> StronglySorted dlt l' -> Permutation l l' -> l = l'.
Proof.
  induction l as [|x l IH]; intros l' S S' P.
  - apply Permutation_nil in P. auto.
  - destruct l' as [|y l']; [apply Permutation_sym, Permutation_nil in P; discriminate|].
    inversion S; subst. inversion S'; subst.
    assert (Hxy : x = y).
    { assert (Hx : In x (y :: l')) by (eapply Permutation_in; [exact P | left; auto]).
      assert (Hy : In y (x :: l)) by (eapply Permutation_in; [apply Permutation_sym; exact P | left; auto]).
      destruct Hx as [-> | Hx]; auto. destruct Hy as [-> | Hy]; auto.
      rewrite Forall_forall in H2, H4. specialize (H2 y Hy). specialize (H4 x Hx). unfold dlt in *. lra. }
    subst y. f_equal. apply IH; auto. eapply Permutation_cons_inv; eauto.
Qed.

(* order_irrelevant (1): with pairwise distinct distances the sorted cascade is literally the same *)
Theorem sort_order_irrelevant (cs cs' : list (chopper O)) :
  Permutation cs cs' -> NoDup (map (@cdist O) cs) -> sort O cs = sort O cs'.
Proof.
  intros P N. apply sorted_unique.
  - apply sorted_strict; [apply sort_sorted|].
    eapply Permutation_NoDup; [|exact N]. apply Permutation_map, Permutation_sym, sort_perm.
  - apply sorted_strict; [apply sort_sorted|].
    eapply Permutation_NoDup; [|exact N]. apply Permutation_map.
    eapply perm_trans; [exact P | apply Permutation_sym, sort_perm].
  - eapply perm_trans; [apply sort_perm|]. eapply perm_trans; [exact P | apply Permutation_sym, sort_perm].
Qed.

Lemma transmitted_perm (l l' : list schopper) n : Permutation l l' -> transmitted al l n -> transmitted al l' n.
Proof. intros P H. unfold transmitted in *. eapply Permutation_Forall; eauto. Qed.

(* ---- programs of FrameSequence calls *)
Definition choppers_of (prog : list (cmd O)) : list (chopper O) :=
  flat_map (fun c => match c with CChop cs => cs | CProp _ => [] end) prog.
Definition good_frame (r : rect) fr : Prop := exists Tr, Inv r Tr fr.

Lemma last_app_ne {A} (l fs : list A) (x0 : A) : last (l ++ fs) x0 = last fs (last l x0).
Proof.
  revert l x0. induction fs as [|f fs IH] using rev_ind; intros l x0.
  - rewrite app_nil_r. reflexivity.
  - rewrite app_assoc, !last_last. reflexivity.
Qed.

Lemma run_inv r : forall (prog : list (cmd O)) (s s' : list (frame O)) Tr,
  Inv r Tr (last_frame O s) -> Forall (good_frame r) s -> run O s prog = Some s' ->
  Inv r (fun n => Tr n /\ transmitted al (map spec_of (choppers_of prog)) n) (last_frame O s')
  /\ Forall (good_frame r) s'.
Proof.
  induction prog as [|c prog IH]; simpl; intros s s' Tr I G E.
  - inversion E; subst s'. split; auto. destruct I as [C H]. split; auto.
    intros p. rewrite H. apply ReachP_ext. intros n. split; [intros; split; auto; constructor | tauto].
  - destruct c as [cs | d].
    + unfold seq_chop in E. destruct (cascade_go O (last_frame O s) (sort O cs)) as [fs|] eqn:Eg; [|discriminate].
      destruct (cascade_inv r _ Tr _ fs I Eg) as [I1 G1].
      assert (I2 : Inv r (fun n => Tr n /\ transmitted al (map spec_of (sort O cs)) n) (last_frame O (s ++ fs))).
      { unfold last_frame. rewrite last_app_ne. exact I1. }
      assert (G2 : Forall (good_frame r) (s ++ fs)).
      { apply Forall_app. split; auto. apply Forall_forall. intros f Hf. apply G1; auto. }
      destruct (IH _ _ _ I2 G2 E) as [[C H] G3]. split; auto. split; auto.
      intros p. rewrite H. apply ReachP_ext. intros n.
      rewrite map_app. unfold transmitted. rewrite Forall_app.
      assert (Pm : Permutation (map spec_of (sort O cs)) (map spec_of cs)) by (apply Permutation_map, sort_perm).
      split.
      * intros [[H1 H2] H3]. split; auto. split; auto. eapply Permutation_Forall; eauto.
      * intros [H1 [H2 H3]]. split; auto. split; auto. eapply Permutation_Forall; [apply Permutation_sym|]; eauto.
    + unfold seq_prop in E.
      assert (I2 : Inv r Tr (last_frame O (s ++ [propagate_to O d (last_frame O s)]))).
      { unfold last_frame at 1. rewrite last_last. apply inv_propagate; auto. }
      assert (G2 : Forall (good_frame r) (s ++ [propagate_to O d (last_frame O s)])).
      { apply Forall_app. split; auto. constructor; auto. exists Tr. apply inv_propagate; auto. }
      exact (IH _ _ _ I2 G2 E).
Qed.

Definition src_rect (t0 t1 w0 w1 : R) : rect := mkrect t0 t1 w0 w1.

Lemma source_good t0 t1 w0 w1 : t0 <= t1 -> w0 <= w1 ->
  Inv (src_rect t0 t1 w0 w1) (fun _ => True) (last_frame O (source O t0 t1 w0 w1))
  /\ Forall (good_frame (src_rect t0 t1 w0 w1)) (source O t0 t1 w0 w1).
Proof.
  intros Ht Hw. pose proof (inv_source t0 t1 w0 w1 Ht Hw) as I. split; [exact I|].
  constructor; [|constructor]. eexists; exact I.
Qed.

(* frames_are_reach, general form: after ANY program of chop / propagate_to calls that does not
   raise, the last frame is exactly the set of reachable points for all choppers applied *)
Theorem program_reach t0 t1 w0 w1 (prog : list (cmd O)) s : t0 <= t1 -> w0 <= w1 ->
  run O (source O t0 t1 w0 w1) prog = Some s ->
  forall p, in_frame (last_frame O s) p <->
            Reach al (src_rect t0 t1 w0 w1) (map spec_of (choppers_of prog)) (fdist (last_frame O s)) p.
Proof.
  intros Ht Hw E p. destruct (source_good t0 t1 w0 w1 Ht Hw) as [I G].
  destruct (run_inv _ prog _ s _ I G E) as [[_ H] _]. rewrite H.
  unfold ReachP, Reach. split; intros (n & Hr & Htr & HE); exists n; tauto.
Qed.

(* the standard use: source pulse, one chop with any list of choppers at non-negative distances
   (never raises), then look at any distance d *)
Theorem frames_are_reach t0 t1 w0 w1 (cs : list (chopper O)) d : t0 <= t1 -> w0 <= w1 ->
  (forall c, In c cs -> 0 <= cdist c) ->
  exists s, seq_chop O cs (source O t0 t1 w0 w1) = Some s /\
    forall p, in_frame (propagate_to O d (last_frame O s)) p <->
              Reach al (src_rect t0 t1 w0 w1) (map spec_of cs) d p.
Proof.
  intros Ht Hw Hd.
  destruct (cascade_ok (sort O cs) (last_frame O (source O t0 t1 w0 w1))) as (fs & Eg).
  - apply sort_sorted.
  - eapply Permutation_Forall; [apply Permutation_sym, sort_perm|]. apply Forall_forall. simpl. exact Hd.
  - exists (source O t0 t1 w0 w1 ++ fs). split; [unfold seq_chop; rewrite Eg; reflexivity|].
    intros p.
    assert (E : run O (source O t0 t1 w0 w1) [CChop cs; CProp (O:=O) d]
                = Some ((source O t0 t1 w0 w1 ++ fs) ++ [propagate_to O d (last_frame O (source O t0 t1 w0 w1 ++ fs))])).
    { simpl run. unfold seq_chop. rewrite Eg. reflexivity. }
    pose proof (program_reach t0 t1 w0 w1 _ _ Ht Hw E p) as H.
    unfold last_frame at 1 3 in H. rewrite !last_last in H. simpl choppers_of in H. rewrite app_nil_r in H.
    exact H.
Qed.

(* within_band: in every frame of every program every vertex wavelength is in the source band *)
Theorem within_band t0 t1 w0 w1 (prog : list (cmd O)) s : t0 <= t1 -> w0 <= w1 ->
  run O (source O t0 t1 w0 w1) prog = Some s ->
  forall fr V v, In fr s -> In V (fpolys fr) -> In v V -> w0 <= snd v <= w1.
Proof.
  intros Ht Hw E fr V v Hfr HV Hv. destruct (source_good t0 t1 w0 w1 Ht Hw) as [I G].
  destruct (run_inv _ prog _ s _ I G E) as [_ G'].
  rewrite Forall_forall in G'. destruct (G' fr Hfr) as (Tr & _ & H).
  assert (HR : ReachP (src_rect t0 t1 w0 w1) Tr (fdist fr) v).
  { apply H. exists V. split; auto. apply hull_v; auto. }
  destruct HR as (n & [_ Hb] & _ & _ & E2). simpl in Hb. rewrite E2. exact Hb.
Qed.

(* order_irrelevant (2): any two listings of the same choppers (equal distances allowed) give the
   same set of points at every distance *)
Theorem order_irrelevant t0 t1 w0 w1 (cs cs' : list (chopper O)) s s' d : t0 <= t1 -> w0 <= w1 ->
  Permutation cs cs' ->
  seq_chop O cs (source O t0 t1 w0 w1) = Some s -> seq_chop O cs' (source O t0 t1 w0 w1) = Some s' ->
  forall p, in_frame (propagate_to O d (last_frame O s)) p <-> in_frame (propagate_to O d (last_frame O s')) p.
Proof.
  intros Ht Hw P E E' p.
  assert (R1 : run O (source O t0 t1 w0 w1) [CChop cs; CProp (O:=O) d] = Some (seq_prop O d s))
    by (simpl; rewrite E; reflexivity).
  assert (R2 : run O (source O t0 t1 w0 w1) [CChop cs'; CProp (O:=O) d] = Some (seq_prop O d s'))
    by (simpl; rewrite E'; reflexivity).
  pose proof (program_reach _ _ _ _ _ _ Ht Hw R1 p) as H1.
  pose proof (program_reach _ _ _ _ _ _ Ht Hw R2 p) as H2.
  unfold seq_prop, last_frame in H1, H2. rewrite !last_last in H1, H2.
  unfold last_frame. rewrite H1, H2. simpl fdist. simpl choppers_of. rewrite !app_nil_r.
  unfold Reach. split; intros (n & Hr & Htr & HE); exists n; (split; [exact Hr | split; [|exact HE]]).
  - eapply transmitted_perm; [apply Permutation_map; exact P | exact Htr].
  - eapply transmitted_perm; [apply Permutation_map, Permutation_sym; exact P | exact Htr].
Qed.

(* two_step_propagation *)
Theorem two_step_propagation fr d1 d2 :
  propagate_to O d2 (propagate_to O d1 fr) = propagate_to O d2 fr.
Proof.
  unfold propagate_to; simpl. f_equal. rewrite map_map. apply map_ext. intros V.
  rewrite !shear_map, map_map. apply map_ext. intros p. unfold shearp; simpl. apply pair_eq; ring.
Qed.

(* ---- FrameSequence.__getitem__(distance) after a cascade: exactly the choppers up to that distance *)
Lemma getitem_go r d : forall (L : list (chopper O)) fr fs Tr,
  Inv r Tr fr -> StronglySorted dle L -> cascade_go O fr L = Some fs -> fdist fr <= d ->
  exists f Tr', frame_before O d fs (Some fr) = Some f /\ Inv r Tr' f /\
    (forall n, Tr' n <-> Tr n /\ forall c, In c L -> cdist c <= d -> passes al (spec_of c) n).
Proof.
  induction L as [|c L IH]; simpl; intros fr fs Tr I S E Hd.
  - inversion E; subst fs. exists fr, Tr. simpl. split; auto. split; auto. intros n; split; [intros; split; auto; intros c [] | tauto].
  - destruct (chop_frame O c fr) as [f1|] eqn:Ec; [|discriminate].
    destruct (cascade_go O f1 L) as [fs'|] eqn:Eg; [|discriminate]. inversion E; subst fs.
    inversion S; subst.
    pose proof (inv_chop r Tr c fr f1 I Ec) as I1.
    destruct (chop_frame_some _ _ _ Ec) as [_ Ef1].
    assert (Hf1 : fdist f1 = cdist c) by (rewrite Ef1; reflexivity).
    simpl frame_before. rewrite Hf1. simpl. unfold Rltb. destruct (Rlt_dec d (cdist c)) as [Hlt | Hge].
    + exists fr, Tr. split; auto. split; auto. intros n; split; [|tauto]. intros Ht. split; auto.
      intros c' [<- | Hc'] Hle; [lra|]. rewrite Forall_forall in H2. specialize (H2 c' Hc'). unfold dle in H2. lra.
    + destruct (IH f1 fs' _ I1 H1 Eg) as (f & Tr' & Efb & If & HTr); [lra|].
      exists f, Tr'. split; auto. split; auto. intros n. rewrite HTr. split.
      * intros [[Ht Hp] Hall]. split; auto. intros c' [<- | Hc'] Hle; auto.
      * intros [Ht Hall]. split; [split; auto; apply Hall; [left; reflexivity | lra]|].
        intros c' Hc' Hle. apply Hall; simpl; auto.
Qed.

Theorem getitem_reach t0 t1 w0 w1 (cs : list (chopper O)) s d : t0 <= t1 -> w0 <= w1 ->
  seq_chop O cs (source O t0 t1 w0 w1) = Some s -> 0 <= d ->
  exists fr, getitem O d s = Some fr /\
    forall p, in_frame fr p <->
              Reach al (src_rect t0 t1 w0 w1)
                    (map spec_of (filter (fun c : chopper O => Rleb (cdist c) d) cs)) d p.
Proof.
  intros Ht Hw E Hd. unfold seq_chop in E.
  destruct (cascade_go O (last_frame O (source O t0 t1 w0 w1)) (sort O cs)) as [fs|] eqn:Eg; [|discriminate].
  inversion E; subst s.
  pose proof (inv_source t0 t1 w0 w1 Ht Hw) as I0.
  destruct (getitem_go (src_rect t0 t1 w0 w1) d (sort O cs) _ fs _ I0 (sort_sorted cs) Eg) as (f & Tr' & Efb & If & HTr); [simpl; lra|].
  assert (Eget : getitem O d (source O t0 t1 w0 w1 ++ fs) = Some (propagate_to O d f)).
  { unfold getitem.
    change (source O t0 t1 w0 w1 ++ fs) with (mkframe (O:=O) 0 [rect_poly t0 t1 w0 w1] :: fs).
    change (frame_before O d (mkframe (O:=O) 0 [rect_poly t0 t1 w0 w1] :: fs) None)
      with (if Rltb d 0 then None else frame_before O d fs (Some (mkframe (O:=O) 0 [rect_poly t0 t1 w0 w1]))).
    rewrite (Rltb_false d 0 Hd). change (last_frame O (source O t0 t1 w0 w1)) with (mkframe (O:=O) 0 [rect_poly t0 t1 w0 w1]) in Efb.
    rewrite Efb. reflexivity. }
  exists (propagate_to O d f). split; auto. intros p.
  destruct (inv_propagate _ _ _ d If) as [_ H]. rewrite H. simpl fdist.
  unfold ReachP, Reach. split; intros (n & Hr & Htr & HE); exists n; (split; [exact Hr | split; [|exact HE]]).
  - apply HTr in Htr. destruct Htr as [_ Hall]. unfold transmitted. apply Forall_forall. intros sc0 Hsc.
    apply in_map_iff in Hsc. destruct Hsc as (c & <- & Hc). apply filter_In in Hc. destruct Hc as [Hc Hle].
    apply Hall.
    + eapply Permutation_in; [apply Permutation_sym, sort_perm | exact Hc].
    + unfold Rleb in Hle. destruct (Rle_dec (cdist c) d); [auto | discriminate].
  - apply HTr. split; auto. intros c Hc Hle. unfold transmitted in Htr. rewrite Forall_forall in Htr.
    apply Htr. apply in_map. apply filter_In. split.
    + eapply Permutation_in; [apply sort_perm | exact Hc].
    + apply Rleb_true; auto.
Qed.
End CascR.
