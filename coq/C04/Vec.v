(* C04/Vec.v — 3-vectors over R as used by the gravity construction (own small
   copy: the shared coq/Vec/Vec3.v is being built concurrently by C03/C08).
   The operations mirror, component by component, the element semantics of
   coq/Sem/Val.v (ebin / sc_norm / sc_dot / sc_cross), so that a translated term
   and the corresponding specification term normally evaluate to the SAME real
   expression. *)
From Coq Require Import Reals Lra Psatz.
Open Scope R_scope.

Record V3 := mkV { vx : R; vy : R; vz : R }.

Definition vdot (a b : V3) : R := vx a * vx b + vy a * vy b + vz a * vz b.
Definition vnorm (a : V3) : R := sqrt (vx a * vx a + vy a * vy a + vz a * vz a).
Definition vadd (a b : V3) : V3 := mkV (vx a + vx b) (vy a + vy b) (vz a + vz b).
Definition vsub (a b : V3) : V3 := mkV (vx a - vx b) (vy a - vy b) (vz a - vz b).
Definition vneg (a : V3) : V3 := mkV (- vx a) (- vy a) (- vz a).
Definition vscal (k : R) (a : V3) : V3 := mkV (k * vx a) (k * vy a) (k * vz a).   (* k * a *)
Definition vdivs (a : V3) (k : R) : V3 := mkV (vx a / k) (vy a / k) (vz a / k).   (* a / k *)
Definition vcross (a b : V3) : V3 :=
  mkV (vy a * vz b - vz a * vy b) (vz a * vx b - vx a * vz b) (vx a * vy b - vy a * vx b).
Definition vsq (a : V3) : R := vx a * vx a + vy a * vy a + vz a * vz a.

Lemma V3_eq a b : vx a = vx b -> vy a = vy b -> vz a = vz b -> a = b.
Proof. destruct a, b; simpl; intros; subst; reflexivity. Qed.

Lemma vsq_nonneg a : 0 <= vsq a.
Proof. unfold vsq; nra. Qed.
Lemma vnorm_sq a : vnorm a * vnorm a = vsq a.
Proof. unfold vnorm; apply sqrt_sqrt, vsq_nonneg. Qed.
Lemma vnorm_nonneg a : 0 <= vnorm a.
Proof. apply sqrt_pos. Qed.
Lemma vnorm_pos_iff a : 0 < vnorm a <-> 0 < vsq a.
Proof.
  split; intros H.
  - rewrite <- vnorm_sq. nra.
  - apply sqrt_lt_R0. exact H.
Qed.
Lemma vnorm_scal k a : 0 <= k -> vnorm (vscal k a) = k * vnorm a.
Proof.
  intros Hk. unfold vnorm, vscal; cbn [vx vy vz].
  replace (k * vx a * (k * vx a) + k * vy a * (k * vy a) + k * vz a * (k * vz a))
    with ((k * k) * (vx a * vx a + vy a * vy a + vz a * vz a)) by ring.
  rewrite sqrt_mult by (pose proof (vsq_nonneg a); unfold vsq in *; nra).
  rewrite sqrt_square by exact Hk. reflexivity.
Qed.
Lemma vdot_scal_l k a b : vdot (vscal k a) b = k * vdot a b.
Proof. unfold vdot, vscal; cbn [vx vy vz]; ring. Qed.
Lemma vdot_scal_r k a b : vdot a (vscal k b) = k * vdot a b.
Proof. unfold vdot, vscal; cbn [vx vy vz]; ring. Qed.
Lemma vdot_comm a b : vdot a b = vdot b a.
Proof. unfold vdot; ring. Qed.
Lemma vdot_self a : vdot a a = vsq a.
Proof. reflexivity. Qed.

(* Cauchy-Schwarz *)
Lemma cauchy_schwarz_sq a b : vdot a b * vdot a b <= vsq a * vsq b.
Proof.
  assert (E : vsq a * vsq b - vdot a b * vdot a b
              = (vx a * vy b - vy a * vx b) * (vx a * vy b - vy a * vx b)
                + (vy a * vz b - vz a * vy b) * (vy a * vz b - vz a * vy b)
                + (vz a * vx b - vx a * vz b) * (vz a * vx b - vx a * vz b))
    by (unfold vdot, vsq; ring).
  pose proof (Rle_0_sqr (vx a * vy b - vy a * vx b)).
  pose proof (Rle_0_sqr (vy a * vz b - vz a * vy b)).
  pose proof (Rle_0_sqr (vz a * vx b - vx a * vz b)).
  unfold Rsqr in *. lra.
Qed.
Lemma cauchy_schwarz a b : Rabs (vdot a b) <= vnorm a * vnorm b.
Proof.
  pose proof (cauchy_schwarz_sq a b) as H.
  rewrite <- (vnorm_sq a), <- (vnorm_sq b) in H.
  pose proof (vnorm_nonneg a); pose proof (vnorm_nonneg b).
  assert (Hp : 0 <= vnorm a * vnorm b) by nra.
  destruct (Rle_dec (Rabs (vdot a b)) (vnorm a * vnorm b)) as [|n]; [assumption|].
  exfalso. apply Rnot_le_lt in n.
  assert (Rabs (vdot a b) * Rabs (vdot a b) = vdot a b * vdot a b)
    by (unfold Rabs; destruct (Rcase_abs _); ring).
  pose proof (Rabs_pos (vdot a b)). nra.
Qed.

(* Gram determinant: the squared triple product *)
Lemma triple_sq c u v :
  vdot c (vcross u v) * vdot c (vcross u v)
  = vsq c * vsq u * vsq v + 2 * vdot c u * vdot u v * vdot v c
    - vsq c * (vdot u v * vdot u v) - vsq u * (vdot c v * vdot c v) - vsq v * (vdot c u * vdot c u).
Proof. unfold vdot, vcross, vsq; cbn [vx vy vz]; ring. Qed.

(* completeness of an orthonormal pair and its cross product *)
Lemma orthonormal_complete c u v :
  vsq u = 1 -> vsq v = 1 -> vdot u v = 0 ->
  vdot c u * vdot c u + vdot c v * vdot c v + vdot c (vcross u v) * vdot c (vcross u v) = vsq c.
Proof. intros Hu Hv Huv. rewrite triple_sq, Hu, Hv, Huv. ring. Qed.
