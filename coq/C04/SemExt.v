(* C04/SemExt.v — extension of the semantic layer (coq/Sem/Val.v) for the
   translation of the gravity functions of src/scippneutron/conversion/beamline.py.
   Definitions only (no proofs).

   * [py_attr] SHADOWS Val.py_attr in the generated module (imported after Val):
     it adds `.dims` (abstract in the element model: the empty tuple) and
     otherwise defers to Val.v.
   * `set(a.dims).issubset(b.dims)` is a fact about array SHAPES that the
     element model cannot see: it is answered by a Section variable
     [dims_subset : bool] of the generated module (see "section" in
     props/C04.py), so every theorem about a function that reaches it is
     proved for BOTH answers.
   * `sc.any(c)` of a 0-d/elementwise condition is the condition itself (the
     array-global choice of code path is discussed in props/C04.py ASSUMPTIONS).
   * `out=` arguments: the result is the functional result; scipp additionally
     requires the dtype of `out` to be the result dtype (probed), modelled.
   * sc.atan2 requires IDENTICAL float dtypes of y and x (probed on scipp 25.x:
     float32/float64 mixes raise DTypeError) — stricter than Val.sc_atan2.
   * sc.sqrt / sc.reciprocal also act on units. *)
From Coq Require Import ZArith String List Bool.
From Verif.Sem Require Import Field Val.
Import ListNotations.
Open Scope string_scope.
Open Scope Z_scope.

Section Ext.
Variable O : Fops.
Local Notation val := (val O).

Definition py_attr (v : val) (name : string) : val :=
  match v with
  | VVar _ _ _ _ => if String.eqb name "dims" then VTuple O [] else Val.py_attr O v name
  | _ => Val.py_attr O v name
  end.

Definition py_set (x : val) : val := x.
Definition issubset_with (answer : bool) (a b : val) : val :=
  match a, b with
  | VErr _ e, _ => VErr O e
  | _, VErr _ e => VErr O e
  | VTuple _ _, VTuple _ _ => VBool O answer
  | _, _ => VErr O "TypeError"
  end.

Definition sc_any (c : val) : val :=
  match c with
  | VErr _ e => VErr O e
  | VBool _ b => VBool O b
  | _ => VErr O "TypeError"
  end.

Definition py_abs (x : val) : val := sc_abs O x.

(* the dtype of an `out=` operand must be the dtype of the result *)
Definition with_out (r out : val) : val :=
  match r, out with
  | VErr _ e, _ => VErr O e
  | _, VNone _ => r
  | _, VErr _ e => VErr O e
  | VVar _ _ _ d, VVar _ _ _ dout => if dtype_eqb d dout then r else VErr O "DTypeError"
  | _, _ => VErr O "TypeError"
  end.

Definition sc_atan2_o (y x out : val) : val :=
  match y, x with
  | VErr _ e, _ => VErr O e
  | _, VErr _ e => VErr O e
  | VVar _ (ENum _ a _) ua da, VVar _ (ENum _ b _) ub db =>
      if ueqb O ua ub then
        if is_float da && dtype_eqb da db then
          with_out (VVar O (ENum O (fatan2 O a b) None) (u_rad O) da) out
        else VErr O "DTypeError"
      else VErr O "UnitError"
  | _, _ => VErr O "TypeError"
  end.

Definition sc_sqrt_o (x out : val) : val :=
  match x with
  | VUnit _ u => if deven (ud O u) then VUnit O (usqrt O u) else VErr O "UnitError"
  | _ => with_out (sc_sqrt O x) out
  end.
Definition sc_abs_o (x out : val) : val := with_out (sc_abs O x) out.
Definition sc_reciprocal_u (x : val) : val :=
  match x with
  | VUnit _ u => VUnit O (udiv O (u_one O) u)
  | _ => sc_reciprocal O x
  end.

Definition sc_constants_m_n : val := const_m_n O.
Definition sc_constants_h : val := const_h O.
End Ext.
