(* C04/ProofsSpec.v — the construction of C04/Spec.v expressed on the NUMERIC
   values the code works with (vectors and lengths in arbitrary units), its
   consequences (limit, monotonic sign) and the refutation of the lowered-beam
   variant that the general code path used before the repair (finding F1). *)
From Coq Require Import Reals Lra Psatz.
From Verif.Sem Require Import RInst.
From Verif.C04 Require Import Vec Spec ProofsTrig ProofsGeom.
Open Scope R_scope.

Lemma vdivs_as_scal a n : n <> 0 -> vdivs a n = vscal (1 / n) a.
Proof. intros. v3; field; assumption. Qed.

Lemma b1_nonzero b1 g : 0 < vnorm (zproj b1 g) -> 0 < vnorm b1.
Proof.
  intros H. apply vnorm_pos_iff. pose proof (vsq_nonneg b1) as Hn.
  destruct (Req_dec (vsq b1) 0) as [E|E]; [exfalso|lra].
  unfold vsq in E.
  assert (vx b1 = 0) by nra. assert (vy b1 = 0) by nra. assert (vz b1 = 0) by nra.
  assert (Z : zproj b1 g = mkV 0 0 0).
  { unfold zproj, vdot. v3; rewrite H0, H1, H2; ring. }
  rewrite Z in H. unfold vnorm in H; cbn [vx vy vz] in H.
  replace (0 * 0 + 0 * 0 + 0 * 0) with 0 in H by ring. rewrite sqrt_0 in H. lra.
Qed.

Section S.
Variables h mn : R.
Hypothesis Hh : h > 0.
Hypothesis Hm : mn > 0.

(* the drop in the unit (multiplier s2) in which the scattered beam is stored *)
Definition dnum (b2 g : V3) (s2 sg lam : R) : R := delta h mn (vnorm g * sg) lam (vnorm b2 * s2) / s2.

Lemma delta_nonneg gn lam L : 0 <= gn -> 0 <= delta h mn gn lam L.
Proof using Hh Hm.
  intros Hg. unfold delta. apply Rmult_le_pos; [|left; apply Rinv_0_lt_compat; nra].
  assert (0 <= lam * lam) by nra. assert (0 <= L * L) by nra. assert (0 <= mn * mn) by nra.
  apply Rmult_le_pos; [apply Rmult_le_pos; [apply Rmult_le_pos|]|]; assumption.
Qed.
Lemma delta_pos gn lam L : 0 < gn -> lam <> 0 -> L <> 0 -> 0 < delta h mn gn lam L.
Proof using Hh Hm.
  intros Hg Hl HL. unfold delta. apply Rmult_lt_0_compat; [|apply Rinv_0_lt_compat; nra].
  assert (0 < lam * lam) by nra. assert (0 < L * L) by nra. assert (0 < mn * mn) by nra.
  apply Rmult_lt_0_compat; [apply Rmult_lt_0_compat; [apply Rmult_lt_0_compat|]|]; assumption.
Qed.
Lemma delta_zero_wavelength gn L : delta h mn gn 0 L = 0.
Proof using. unfold delta, Rdiv; ring. Qed.
Lemma delta_zero_gravity lam L : delta h mn 0 lam L = 0.
Proof using. unfold delta, Rdiv; ring. Qed.

Lemma drop_phys b2 g s2 sg lam : 0 < s2 -> 0 < sg ->
  drop h mn (vscal s2 b2) (vscal sg g) lam = s2 * dnum b2 g s2 sg lam.
Proof using Hh.
  intros H2 Hg. unfold drop, dnum. rewrite !vnorm_scal by lra. unfold delta. field; lra.
Qed.
Lemma raised_phys b2 g s2 sg lam : 0 < s2 -> 0 < sg -> 0 < vnorm g ->
  raised (vscal s2 b2) (vscal sg g) (drop h mn (vscal s2 b2) (vscal sg g) lam)
  = vscal s2 (raised b2 g (dnum b2 g s2 sg lam)).
Proof using Hh. intros. rewrite drop_phys by assumption. apply raised_scal; assumption. Qed.

Lemma two_theta_num b1 b2 g s1 s2 sg lam : 0 < s1 -> 0 < s2 -> 0 < sg -> 0 < vnorm g ->
  two_theta_g h mn (vscal s1 b1) (vscal s2 b2) lam (vscal sg g) = angle b1 (raised b2 g (dnum b2 g s2 sg lam)).
Proof using Hh.
  intros. unfold two_theta_g. rewrite raised_phys by assumption. apply angle_scal; assumption.
Qed.
Lemma phi_num b1 b2 g s1 s2 sg lam : 0 < s1 -> 0 < s2 -> 0 < sg -> 0 < vnorm g -> 0 < vnorm (zproj b1 g) ->
  phi_g h mn (vscal s1 b1) (vscal s2 b2) lam (vscal sg g)
  = atan2 (vdot b2 (e_y g) + dnum b2 g s2 sg lam) (vdot b2 (e_x b1 g)).
Proof using Hh.
  intros. unfold phi_g. rewrite raised_phys by assumption.
  rewrite e_y_scal, e_x_scal by assumption. rewrite !vdot_scal_l. rewrite atan2_scale by assumption.
  rewrite raised_dot_ey by assumption. rewrite raised_dot_ex. reflexivity.
Qed.
Lemma gamma_num b1 b2 g s1 s2 sg lam : 0 < s1 -> 0 < s2 -> 0 < sg -> 0 < vnorm g -> 0 < vnorm (zproj b1 g) ->
  gamma_yz h mn (vscal s1 b1) (vscal s2 b2) lam (vscal sg g)
  = atan2 (Rabs (vdot b2 (e_y g) + dnum b2 g s2 sg lam)) (vdot b2 (e_z b1 g)).
Proof using Hh.
  intros. unfold gamma_yz. rewrite drop_phys by assumption.
  rewrite e_y_scal, e_z_scal by assumption. rewrite !vdot_scal_l.
  replace (s2 * vdot b2 (e_y g) + s2 * dnum b2 g s2 sg lam) with (s2 * (vdot b2 (e_y g) + dnum b2 g s2 sg lam)) by ring.
  rewrite Rabs_mult, (Rabs_pos_eq s2) by lra. apply atan2_scale; assumption.
Qed.
End S.

(* ---------- the optimised path: in-plane formula = angle to the incident beam when the beam is horizontal *)
Lemma e_z_horizontal b1 g : 0 < vnorm g -> vdot g b1 = 0 -> e_z b1 g = vdivs b1 (vnorm b1).
Proof. intros Hg H. unfold e_z. rewrite zproj_horizontal by assumption. reflexivity. Qed.

Lemma inplane_horizontal b1 b2 g d : 0 < vnorm g -> 0 < vnorm b1 -> vdot g b1 = 0 -> 0 < vnorm (raised b2 g d) ->
  atan2 (sqrt ((vdot b2 (e_y g) + d) * (vdot b2 (e_y g) + d) + vdot b2 (e_x b1 g) * vdot b2 (e_x b1 g))) (vdot b2 (e_z b1 g))
  = angle b1 (raised b2 g d).
Proof.
  intros Hg Hb H Hc.
  assert (Hz : 0 < vnorm (zproj b1 g)) by (rewrite zproj_horizontal by assumption; exact Hb).
  rewrite <- (raised_dot_ey b2 g d Hg), <- (raised_dot_ex b1 b2 g d), <- (raised_dot_ez b1 b2 g d Hg Hz).
  rewrite inplane_is_angle by assumption.
  rewrite e_z_horizontal by assumption.
  rewrite vdivs_as_scal by lra.
  rewrite <- (angle_scal (1 / vnorm b1) 1 b1 (raised b2 g d)); [|apply Rdiv_lt_0_compat; lra|lra].
  f_equal. v3; ring.
Qed.
(* general tilt: what the optimised formula denotes (angle to the horizontal direction of the beam) *)
Lemma inplane_general b1 b2 g d : 0 < vnorm g -> 0 < vnorm (zproj b1 g) -> 0 < vnorm (raised b2 g d) ->
  atan2 (sqrt ((vdot b2 (e_y g) + d) * (vdot b2 (e_y g) + d) + vdot b2 (e_x b1 g) * vdot b2 (e_x b1 g))) (vdot b2 (e_z b1 g))
  = angle (e_z b1 g) (raised b2 g d).
Proof.
  intros Hg Hz Hc.
  rewrite <- (raised_dot_ey b2 g d Hg), <- (raised_dot_ex b1 b2 g d), <- (raised_dot_ez b1 b2 g d Hg Hz).
  apply inplane_is_angle; assumption.
Qed.

(* ---------- consequences *)
Lemma no_gravity_limit b1 b2 g : angle b1 (raised b2 g 0) = angle b1 b2.
Proof. rewrite raised_zero. reflexivity. Qed.

Lemma horizontal_dot_ey b1 g : 0 < vnorm g -> vdot g b1 = 0 -> vdot b1 (e_y g) = 0.
Proof.
  intros Hg H. unfold e_y, vdot in *; cbn [vdivs vneg vx vy vz].
  replace (vx b1 * (- vx g / vnorm g) + vy b1 * (- vy g / vnorm g) + vz b1 * (- vz g / vnorm g))
    with (- (vx g * vx b1 + vy g * vy b1 + vz g * vz b1) / vnorm g) by (field; lra).
  rewrite H. unfold Rdiv; ring.
Qed.
Lemma raised_sq b2 g d : 0 < vnorm g -> vsq (raised b2 g d) = vsq b2 + 2 * d * vdot b2 (e_y g) + d * d.
Proof.
  intros Hg. pose proof (e_y_unit g Hg) as E.
  transitivity (vsq b2 + 2 * d * vdot b2 (e_y g) + d * d * vsq (e_y g));
    [unfold raised, vsq, vdot; cbn [vadd vscal vx vy vz]; ring | rewrite E; ring].
Qed.
(* a detector at or above the beam axis: the raised beam is never the zero vector *)
Lemma raised_nonzero_above b2 g d : 0 < vnorm g -> 0 < vnorm b2 -> 0 <= vdot b2 (e_y g) -> 0 <= d ->
  0 < vnorm (raised b2 g d).
Proof.
  intros Hg Hb2 Hy Hd. apply vnorm_pos_iff. rewrite raised_sq by assumption.
  apply vnorm_pos_iff in Hb2. nra.
Qed.
(* same component along the beam, longer vector => larger angle *)
Lemma angle_longer b1 b2 c : 0 < vnorm b1 -> 0 < vnorm b2 -> vnorm b2 < vnorm c ->
  vdot b1 c = vdot b1 b2 -> 0 < vdot b1 b2 -> angle b1 b2 < angle b1 c.
Proof.
  intros Hb1 Hb2 Hc E Hp. unfold angle.
  assert (Hc0 : 0 < vnorm c) by lra.
  apply acos_strictly_decreasing.
  - apply cos_bound; assumption.
  - rewrite E.
    assert (0 < vnorm b1 * vnorm b2) by nra. assert (0 < vnorm b1 * vnorm c) by nra.
    apply Rmult_lt_reg_r with (vnorm b1 * vnorm c); [assumption|].
    replace (vdot b1 b2 / (vnorm b1 * vnorm c) * (vnorm b1 * vnorm c)) with (vdot b1 b2) by (field; lra).
    replace (vdot b1 b2 / (vnorm b1 * vnorm b2) * (vnorm b1 * vnorm c)) with (vdot b1 b2 * (vnorm c / vnorm b2)) by (field; lra).
    assert (1 < vnorm c / vnorm b2).
    { apply Rmult_lt_reg_r with (vnorm b2); [assumption|]. replace (vnorm c / vnorm b2 * vnorm b2) with (vnorm c) by (field; lra). lra. }
    nra.
  - apply cos_bound; assumption.
Qed.
Lemma vnorm_lt_of_sq a b : vsq a < vsq b -> vnorm a < vnorm b.
Proof. intros H. unfold vnorm. fold (vsq a) (vsq b). apply sqrt_lt_1; [apply vsq_nonneg | apply vsq_nonneg | exact H]. Qed.

(* horizontal beam, detector above the beam axis and downstream: raising the beam enlarges the angle *)
Lemma raised_beam_larger_spec b1 b2 g d : 0 < vnorm g -> 0 < vnorm b1 -> 0 < vnorm b2 ->
  vdot g b1 = 0 -> 0 < vdot b2 (e_y g) -> 0 < vdot b1 b2 -> 0 < d ->
  angle b1 b2 < angle b1 (raised b2 g d).
Proof.
  intros Hg Hb1 Hb2 Hh Hy Hz Hd.
  apply angle_longer; try assumption.
  - apply vnorm_lt_of_sq. rewrite raised_sq by assumption. nra.
  - pose proof (horizontal_dot_ey b1 g Hg Hh) as E.
    transitivity (vdot b1 b2 + d * vdot b1 (e_y g)); [unfold raised, vdot; cbn [vadd vscal vx vy vz]; ring | rewrite E; ring].
Qed.

(* ---------- F1: the beam LOWERED along gravity (b2 + d g/|g|), as fed to two_theta by the general path
   before the repair, is not the construction: for a detector above a horizontal beam it gives an angle
   BELOW the gravity-free one, the construction one ABOVE it *)
Definition lowered (b2 g : V3) (d : R) : V3 := vadd (vscal d (vdivs g (vnorm g))) b2.
Lemma lowered_is_raised_neg b2 g d : 0 < vnorm g -> lowered b2 g d = raised b2 g (- d).
Proof. intros Hg. unfold lowered, raised, e_y. v3; field; lra. Qed.
Lemma lowered_beam_smaller b1 b2 g d : 0 < vnorm g -> 0 < vnorm b1 ->
  vdot g b1 = 0 -> 0 < vdot b1 b2 -> 0 < d -> d < 2 * vdot b2 (e_y g) -> 0 < vnorm (lowered b2 g d) ->
  angle b1 (lowered b2 g d) < angle b1 b2.
Proof.
  intros Hg Hb1 Hh Hz Hd Hy Hl.
  rewrite lowered_is_raised_neg in * by assumption.
  pose proof (horizontal_dot_ey b1 g Hg Hh) as E.
  assert (Ed : vdot b1 (raised b2 g (- d)) = vdot b1 b2).
  { transitivity (vdot b1 b2 + - d * vdot b1 (e_y g)); [unfold raised, vdot; cbn [vadd vscal vx vy vz]; ring | rewrite E; ring]. }
  apply angle_longer; try assumption.
  - apply vnorm_lt_of_sq. rewrite raised_sq by assumption. nra.
  - symmetry; exact Ed.
  - rewrite Ed; exact Hz.
Qed.

(* the witness of DESIGN.md F1: g = (0,-9.81,0) m/s^2, b2 = (0.3,0.4,2) m, b1 = (0,0,1), any drop 0 < d < 0.8 *)
Definition w_g : V3 := mkV 0 (- (981 / 100)) 0.
Definition w_b1 : V3 := mkV 0 0 1.
Definition w_b2 : V3 := mkV (3 / 10) (4 / 10) 2.
Lemma w_g_norm : vnorm w_g = 981 / 100.
Proof.
  unfold vnorm, w_g; cbn [vx vy vz].
  replace (0 * 0 + - (981 / 100) * - (981 / 100) + 0 * 0) with ((981 / 100) * (981 / 100)) by ring.
  apply sqrt_square; lra.
Qed.
Lemma w_ey : e_y w_g = mkV 0 1 0.
Proof. unfold e_y. rewrite w_g_norm. unfold w_g. v3; field. Qed.
Theorem generic_sign_refuted :
  exists b1 b2 g d, 0 < vnorm g /\ vdot g b1 = 0 /\ 0 < d /\
    angle b1 (lowered b2 g d) < angle b1 b2 < angle b1 (raised b2 g d).
Proof.
  exists w_b1, w_b2, w_g, (1 / 10000).
  assert (Hg : 0 < vnorm w_g) by (rewrite w_g_norm; lra).
  assert (Hb1 : 0 < vnorm w_b1).
  { apply vnorm_pos_iff. unfold vsq, w_b1; cbn [vx vy vz]. lra. }
  assert (Hb2 : 0 < vnorm w_b2).
  { apply vnorm_pos_iff. unfold vsq, w_b2; cbn [vx vy vz]. lra. }
  assert (Hh : vdot w_g w_b1 = 0) by (unfold vdot, w_g, w_b1; cbn [vx vy vz]; ring).
  assert (Hy : vdot w_b2 (e_y w_g) = 4 / 10) by (rewrite w_ey; unfold vdot, w_b2; cbn [vx vy vz]; ring).
  assert (Hz : vdot w_b1 w_b2 = 2) by (unfold vdot, w_b1, w_b2; cbn [vx vy vz]; ring).
  repeat split; try assumption; try lra.
  - apply lowered_beam_smaller; try assumption; try lra.
    rewrite lowered_is_raised_neg by assumption. apply vnorm_pos_iff. rewrite raised_sq by assumption.
    rewrite Hy. unfold vsq, w_b2; cbn [vx vy vz]. lra.
  - apply raised_beam_larger_spec; try assumption; lra.
Qed.
