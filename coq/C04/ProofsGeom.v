(* C04/ProofsGeom.v — geometry of the construction: Kahan's formula is the angle,
   the beam-aligned frame is orthonormal and scale-invariant, the in-plane
   (optimised) formula is the angle to e_z. *)
From Coq Require Import Reals Lra Psatz.
From Verif.Sem Require Import RInst.
From Verif.C04 Require Import Vec Spec ProofsTrig.
Open Scope R_scope.

Ltac v3 := apply V3_eq; cbn [vx vy vz vadd vsub vneg vscal vdivs vcross].

(* ---------- unit vectors *)
Lemma vsq_unit a : 0 < vnorm a -> vsq (vdivs a (vnorm a)) = 1.
Proof.
  intros H. pose proof (vnorm_sq a) as E. unfold vsq in *. cbn [vdivs vx vy vz].
  replace (vx a / vnorm a * (vx a / vnorm a) + vy a / vnorm a * (vy a / vnorm a) + vz a / vnorm a * (vz a / vnorm a))
    with ((vx a * vx a + vy a * vy a + vz a * vz a) / (vnorm a * vnorm a)) by (field; lra).
  rewrite <- E. field; lra.
Qed.
Lemma vdot_unit a b : 0 < vnorm a -> 0 < vnorm b ->
  vdot (vdivs a (vnorm a)) (vdivs b (vnorm b)) = vdot a b / (vnorm a * vnorm b).
Proof. intros; unfold vdot; cbn [vdivs vx vy vz]; field; lra. Qed.
Lemma cos_bound a b : 0 < vnorm a -> 0 < vnorm b -> -1 <= vdot a b / (vnorm a * vnorm b) <= 1.
Proof.
  intros Ha Hb. pose proof (cauchy_schwarz a b) as H.
  assert (Hp : 0 < vnorm a * vnorm b) by nra.
  assert (H' : - (vnorm a * vnorm b) <= vdot a b <= vnorm a * vnorm b)
    by (unfold Rabs in H; destruct (Rcase_abs (vdot a b)); lra).
  split.
  - apply Rmult_le_reg_r with (vnorm a * vnorm b); [exact Hp|].
    replace (vdot a b / (vnorm a * vnorm b) * (vnorm a * vnorm b)) with (vdot a b) by (field; lra). lra.
  - apply Rmult_le_reg_r with (vnorm a * vnorm b); [exact Hp|].
    replace (vdot a b / (vnorm a * vnorm b) * (vnorm a * vnorm b)) with (vdot a b) by (field; lra). lra.
Qed.

(* ---------- Kahan's formula is the angle *)
Lemma kahan_is_angle a b : 0 < vnorm a -> 0 < vnorm b -> kahan a b = angle a b.
Proof.
  intros Ha Hb. unfold kahan, angle.
  set (u := vdivs a (vnorm a)). set (v := vdivs b (vnorm b)).
  set (c := vdot a b / (vnorm a * vnorm b)).
  assert (Hu : vsq u = 1) by (apply vsq_unit; exact Ha).
  assert (Hv : vsq v = 1) by (apply vsq_unit; exact Hb).
  assert (Huv : vdot u v = c) by (apply vdot_unit; assumption).
  pose proof (cos_bound a b Ha Hb) as Hc. fold c in Hc.
  set (Y := vnorm (vsub u v)). set (X := vnorm (vadd v u)).
  assert (HY : Y * Y = 2 - 2 * c).
  { unfold Y. rewrite vnorm_sq. unfold vsq in *; unfold vdot in Huv; cbn [vsub vx vy vz]. nra. }
  assert (HX : X * X = 2 + 2 * c).
  { unfold X. rewrite vnorm_sq. unfold vsq in *; unfold vdot in Huv; cbn [vadd vx vy vz]. nra. }
  assert (HY0 : 0 <= Y) by apply vnorm_nonneg.
  assert (HX0 : 0 <= X) by apply vnorm_nonneg.
  assert (Hne : X <> 0 \/ Y <> 0).
  { destruct (Req_dec X 0) as [E|E]; [right|left; exact E]. intros E'. rewrite E, E' in *. lra. }
  pose proof (atan2_quadrant Y X HY0 HX0) as Hr.
  pose proof (cos_atan2 Y X Hne) as Hcos.
  assert (Hs : sqrt (X * X + Y * Y) = 2).
  { replace (X * X + Y * Y) with (2 * 2) by lra. apply sqrt_square; lra. }
  rewrite Hs in Hcos.
  replace (atan2 Y X * 2) with (2 * atan2 Y X) by ring.
  rewrite <- (acos_cos (2 * atan2 Y X)) by lra.
  f_equal. rewrite cos_2a_cos, Hcos. nra.
Qed.

(* ---------- angle: scale invariance *)
Lemma angle_scal k m a b : 0 < k -> 0 < m -> angle (vscal k a) (vscal m b) = angle a b.
Proof.
  intros Hk Hm. unfold angle. rewrite !vnorm_scal by lra. rewrite vdot_scal_l, vdot_scal_r.
  destruct (Req_dec (vnorm a * vnorm b) 0) as [E|E].
  - replace (k * vnorm a * (m * vnorm b)) with (k * m * (vnorm a * vnorm b)) by ring.
    rewrite E. unfold Rdiv. rewrite Rmult_0_r, Rinv_0, !Rmult_0_r. reflexivity.
  - f_equal. field. repeat split; try lra.
    + intros Hb; apply E; rewrite Hb; ring.
    + intros Hb; apply E; rewrite Hb; ring.
Qed.

Lemma vscal_one a : vscal 1 a = a.
Proof. v3; ring. Qed.
Lemma angle_scal_r m a b : 0 < m -> angle a (vscal m b) = angle a b.
Proof. intros Hm. rewrite <- (angle_scal 1 m a b) by lra. rewrite vscal_one. reflexivity. Qed.
Lemma angle_scal_l k a b : 0 < k -> angle (vscal k a) b = angle a b.
Proof. intros Hk. rewrite <- (angle_scal k 1 a b) by lra. rewrite vscal_one. reflexivity. Qed.

(* ---------- the frame *)
Lemma e_y_unit g : 0 < vnorm g -> vsq (e_y g) = 1.
Proof.
  intros H. unfold e_y.
  assert (E : vnorm g = vnorm (vneg g)) by (unfold vnorm; cbn [vneg vx vy vz]; f_equal; ring).
  rewrite E. apply vsq_unit. rewrite <- E. exact H.
Qed.
Lemma zproj_perp_ey b1 g : 0 < vnorm g -> vdot (zproj b1 g) (e_y g) = 0.
Proof.
  intros H. pose proof (e_y_unit g H) as E. unfold zproj.
  set (ey := e_y g) in *.
  transitivity (vdot b1 ey * (1 - vsq ey)); [unfold vdot, vsq; cbn [vsub vscal vx vy vz]; ring | rewrite E; ring].
Qed.
Lemma e_z_unit b1 g : 0 < vnorm (zproj b1 g) -> vsq (e_z b1 g) = 1.
Proof. intros H. unfold e_z. apply vsq_unit. exact H. Qed.
Lemma e_y_perp_e_z b1 g : 0 < vnorm g -> 0 < vnorm (zproj b1 g) -> vdot (e_y g) (e_z b1 g) = 0.
Proof.
  intros Hg Hz. pose proof (zproj_perp_ey b1 g Hg) as E. unfold e_z.
  unfold vdot in *; cbn [vdivs vx vy vz].
  replace (vx (e_y g) * (vx (zproj b1 g) / vnorm (zproj b1 g)) + vy (e_y g) * (vy (zproj b1 g) / vnorm (zproj b1 g))
           + vz (e_y g) * (vz (zproj b1 g) / vnorm (zproj b1 g)))
    with ((vx (zproj b1 g) * vx (e_y g) + vy (zproj b1 g) * vy (e_y g) + vz (zproj b1 g) * vz (e_y g)) / vnorm (zproj b1 g))
    by (field; lra).
  rewrite E. unfold Rdiv; ring.
Qed.
Lemma e_y_perp_e_x b1 g : vdot (e_y g) (e_x b1 g) = 0.
Proof. unfold e_x, vdot; cbn [vcross vx vy vz]; ring. Qed.
Lemma frame_complete c b1 g : 0 < vnorm g -> 0 < vnorm (zproj b1 g) ->
  vdot c (e_y g) * vdot c (e_y g) + vdot c (e_x b1 g) * vdot c (e_x b1 g) + vdot c (e_z b1 g) * vdot c (e_z b1 g) = vsq c.
Proof.
  intros Hg Hz.
  rewrite <- (orthonormal_complete c (e_y g) (e_z b1 g) (e_y_unit g Hg) (e_z_unit b1 g Hz) (e_y_perp_e_z b1 g Hg Hz)).
  unfold e_x. ring.
Qed.

(* scale invariance of the frame *)
Lemma e_y_scal k g : 0 < k -> 0 < vnorm g -> e_y (vscal k g) = e_y g.
Proof.
  intros Hk Hg. unfold e_y. rewrite vnorm_scal by lra. v3; field; lra.
Qed.
Lemma zproj_scal k m b1 g : 0 < m -> 0 < vnorm g -> zproj (vscal k b1) (vscal m g) = vscal k (zproj b1 g).
Proof.
  intros Hm Hg. unfold zproj. rewrite e_y_scal by assumption. rewrite vdot_scal_l. v3; ring.
Qed.
Lemma vdivs_scal k a : 0 < k -> 0 < vnorm a -> vdivs (vscal k a) (vnorm (vscal k a)) = vdivs a (vnorm a).
Proof. intros Hk Ha. rewrite vnorm_scal by lra. v3; field; lra. Qed.
Lemma e_z_scal k m b1 g : 0 < k -> 0 < m -> 0 < vnorm g -> 0 < vnorm (zproj b1 g) ->
  e_z (vscal k b1) (vscal m g) = e_z b1 g.
Proof.
  intros Hk Hm Hg Hz. unfold e_z. rewrite zproj_scal by assumption. apply vdivs_scal; assumption.
Qed.
Lemma e_x_scal k m b1 g : 0 < k -> 0 < m -> 0 < vnorm g -> 0 < vnorm (zproj b1 g) ->
  e_x (vscal k b1) (vscal m g) = e_x b1 g.
Proof. intros. unfold e_x. rewrite e_y_scal, e_z_scal by assumption. reflexivity. Qed.

(* horizontal incident beam: e_z is the beam direction *)
Lemma zproj_horizontal b1 g : 0 < vnorm g -> vdot g b1 = 0 -> zproj b1 g = b1.
Proof.
  intros Hg H. unfold zproj.
  assert (E : vdot b1 (e_y g) = 0).
  { unfold e_y, vdot in *; cbn [vdivs vneg vx vy vz].
    replace (vx b1 * (- vx g / vnorm g) + vy b1 * (- vy g / vnorm g) + vz b1 * (- vz g / vnorm g))
      with (- (vx g * vx b1 + vy g * vy b1 + vz g * vz b1) / vnorm g) by (field; lra).
    rewrite H. unfold Rdiv; ring. }
  rewrite E. v3; ring.
Qed.

(* ---------- the in-plane formula of the optimised path *)
Lemma inplane_is_angle c b1 g : 0 < vnorm g -> 0 < vnorm (zproj b1 g) -> 0 < vnorm c ->
  atan2 (sqrt (vdot c (e_y g) * vdot c (e_y g) + vdot c (e_x b1 g) * vdot c (e_x b1 g))) (vdot c (e_z b1 g))
  = angle (e_z b1 g) c.
Proof.
  intros Hg Hz Hc.
  set (y := vdot c (e_y g)). set (x := vdot c (e_x b1 g)). set (z := vdot c (e_z b1 g)).
  pose proof (frame_complete c b1 g Hg Hz) as Hfc. fold y x z in Hfc.
  assert (Hp : 0 <= y * y + x * x) by nra.
  assert (Hcq : 0 < vsq c) by (apply vnorm_pos_iff; exact Hc).
  rewrite atan2_acos.
  - rewrite sqrt_sqrt by exact Hp.
    unfold angle. f_equal.
    assert (En : vnorm (e_z b1 g) = 1).
    { unfold vnorm. fold (vsq (e_z b1 g)). rewrite e_z_unit by exact Hz. apply sqrt_1. }
    rewrite En. rewrite (vdot_comm (e_z b1 g) c). fold z.
    replace (z * z + (y * y + x * x)) with (vsq c) by lra.
    unfold vnorm. fold (vsq c). field.
    apply Rgt_not_eq. apply sqrt_lt_R0. lra.
  - apply sqrt_pos.
  - destruct (Req_dec z 0) as [E|E]; [right|left; exact E].
    apply Rgt_not_eq. apply sqrt_lt_R0. rewrite E in Hfc. nra.
Qed.

(* ---------- raising the beam: components in the frame *)
Lemma raised_dot_ey b2 g d : 0 < vnorm g -> vdot (raised b2 g d) (e_y g) = vdot b2 (e_y g) + d.
Proof.
  intros Hg. pose proof (e_y_unit g Hg) as E.
  transitivity (vdot b2 (e_y g) + d * vsq (e_y g)); [unfold raised, vdot, vsq; cbn [vadd vscal vx vy vz]; ring | rewrite E; ring].
Qed.
Lemma raised_dot_ex b1 b2 g d : vdot (raised b2 g d) (e_x b1 g) = vdot b2 (e_x b1 g).
Proof.
  pose proof (e_y_perp_e_x b1 g) as E.
  transitivity (vdot b2 (e_x b1 g) + d * vdot (e_y g) (e_x b1 g)); [unfold raised, vdot; cbn [vadd vscal vx vy vz]; ring | rewrite E; ring].
Qed.
Lemma raised_dot_ez b1 b2 g d : 0 < vnorm g -> 0 < vnorm (zproj b1 g) ->
  vdot (raised b2 g d) (e_z b1 g) = vdot b2 (e_z b1 g).
Proof.
  intros Hg Hz. pose proof (e_y_perp_e_z b1 g Hg Hz) as E.
  transitivity (vdot b2 (e_z b1 g) + d * vdot (e_y g) (e_z b1 g)); [unfold raised, vdot; cbn [vadd vscal vx vy vz]; ring | rewrite E; ring].
Qed.
Lemma raised_scal k m b2 g d : 0 < m -> 0 < vnorm g ->
  raised (vscal k b2) (vscal m g) (k * d) = vscal k (raised b2 g d).
Proof. intros Hm Hg. unfold raised. rewrite e_y_scal by assumption. v3; ring. Qed.
Lemma raised_zero b2 g : raised b2 g 0 = b2.
Proof. unfold raised. v3; ring. Qed.
