(* C04/Spec.v — the documented gravity construction (docstring of
   scattering_angles_with_gravity / beam_aligned_unit_vectors /
   scattering_angle_in_yz_plane), over R, written independently of the code.
   All vectors and lengths are PHYSICAL (SI) quantities here.  Definitions only. *)
From Coq Require Import Reals.
From Verif.Sem Require Import RInst.
From Verif.C04 Require Import Vec.
Open Scope R_scope.

(* drop of a neutron of wavelength lam after a flight path L2 under gravity of strength gn:
   delta = |g| m_n^2 lam^2 L2^2 / (2 h^2) *)
Definition delta (h mn gn lam L2 : R) : R :=
  gn * (mn * mn) * (lam * lam) * (L2 * L2) / (2 * (h * h)).

(* beam-aligned frame:  e_y = -g/|g|,  e_z = horizontal part of b1, normalised,  e_x = e_y x e_z *)
Definition e_y (g : V3) : V3 := vdivs (vneg g) (vnorm g).
Definition zproj (b1 g : V3) : V3 := vsub b1 (vscal (vdot b1 (e_y g)) (e_y g)).
Definition e_z (b1 g : V3) : V3 := vdivs (zproj b1 g) (vnorm (zproj b1 g)).
Definition e_x (b1 g : V3) : V3 := vcross (e_y g) (e_z b1 g).

(* angle between two vectors, in [0, PI] *)
Definition angle (a b : V3) : R := acos (vdot a b / (vnorm a * vnorm b)).

(* the detected beam raised AGAINST gravity by d *)
Definition raised (b2 g : V3) (d : R) : V3 := vadd b2 (vscal d (e_y g)).

Section Construction.
Variables h mn : R.
Definition drop (b2 g : V3) (lam : R) : R := delta h mn (vnorm g) lam (vnorm b2).
Definition two_theta_g (b1 b2 : V3) (lam : R) (g : V3) : R :=
  angle b1 (raised b2 g (drop b2 g lam)).
Definition phi_g (b1 b2 : V3) (lam : R) (g : V3) : R :=
  atan2 (vdot (raised b2 g (drop b2 g lam)) (e_y g)) (vdot (raised b2 g (drop b2 g lam)) (e_x b1 g)).
(* reflectometry: gamma = atan2 |y_d + delta| z_d *)
Definition gamma_yz (b1 b2 : V3) (lam : R) (g : V3) : R :=
  atan2 (Rabs (vdot b2 (e_y g) + drop b2 g lam)) (vdot b2 (e_z b1 g)).
End Construction.

(* what W. Kahan's formula (used by two_theta) computes *)
Definition kahan (a b : V3) : R :=
  atan2 (vnorm (vsub (vdivs a (vnorm a)) (vdivs b (vnorm b))))
        (vnorm (vadd (vdivs b (vnorm b)) (vdivs a (vnorm a)))) * 2.
