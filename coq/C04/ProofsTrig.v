(* C04/ProofsTrig.v — facts about atan2 (Sem/RInst.v) and acos used to relate the
   two code paths to the angle of the construction. *)
From Coq Require Import Reals Lra Psatz.
From Verif.Sem Require Import RInst.
Open Scope R_scope.

Lemma atan2_scale k y x : 0 < k -> atan2 (k * y) (k * x) = atan2 y x.
Proof.
  intros Hk. unfold atan2.
  assert (E : x <> 0 -> k * y / (k * x) = y / x) by (intros; field; lra).
  destruct (Rlt_dec 0 x) as [Hx|Hx].
  - destruct (Rlt_dec 0 (k * x)) as [_|n]; [rewrite E by lra; reflexivity | exfalso; apply n; nra].
  - destruct (Rlt_dec 0 (k * x)) as [p|_]; [exfalso; nra|].
    destruct (Rlt_dec x 0) as [Hx'|Hx'].
    + destruct (Rlt_dec (k * x) 0) as [_|n]; [|exfalso; apply n; nra].
      rewrite E by lra.
      destruct (Rle_dec 0 y), (Rle_dec 0 (k * y)); try reflexivity; exfalso; nra.
    + assert (x = 0) by lra. subst x.
      destruct (Rlt_dec (k * 0) 0) as [p|_]; [exfalso; lra|].
      destruct (Rlt_dec 0 y), (Rlt_dec 0 (k * y)); try reflexivity; try (exfalso; nra).
      destruct (Rlt_dec y 0), (Rlt_dec (k * y) 0); try reflexivity; exfalso; nra.
Qed.

Lemma atan_nonneg t : 0 <= t -> 0 <= atan t.
Proof.
  intros [H|H]; [|subst; rewrite atan_0; lra].
  rewrite <- atan_0. left. apply atan_increasing. exact H.
Qed.
Lemma atan_nonpos t : t <= 0 -> atan t <= 0.
Proof.
  intros [H|H]; [|subst; rewrite atan_0; lra].
  rewrite <- atan_0. left. apply atan_increasing. exact H.
Qed.

(* y >= 0: the value lies in [0, PI] *)
Lemma atan2_upper_range y x : 0 <= y -> 0 <= atan2 y x <= PI.
Proof.
  intros Hy. pose proof PI_RGT_0 as Hpi. unfold atan2.
  destruct (Rlt_dec 0 x) as [Hx|Hx].
  - pose proof (atan_bound (y / x)). assert (0 <= y / x) by (apply Rmult_le_pos; [lra | left; apply Rinv_0_lt_compat; lra]).
    pose proof (atan_nonneg _ H0). lra.
  - destruct (Rlt_dec x 0) as [Hx'|Hx'].
    + destruct (Rle_dec 0 y) as [_|n]; [|contradiction].
      pose proof (atan_bound (y / x)).
      assert (y / x <= 0).
      { replace (y / x) with (- (y * / - x)) by (field; lra).
        assert (0 <= y * / - x) by (apply Rmult_le_pos; [lra | left; apply Rinv_0_lt_compat; lra]). lra. }
      pose proof (atan_nonpos _ H0). lra.
    + destruct (Rlt_dec 0 y); [lra|]. destruct (Rlt_dec y 0); lra.
Qed.
(* first quadrant: [0, PI/2] *)
Lemma atan2_quadrant y x : 0 <= y -> 0 <= x -> 0 <= atan2 y x <= PI / 2.
Proof.
  intros Hy Hx. pose proof PI_RGT_0 as Hpi. unfold atan2.
  destruct (Rlt_dec 0 x) as [Hx'|Hx'].
  - pose proof (atan_bound (y / x)). assert (0 <= y / x) by (apply Rmult_le_pos; [lra | left; apply Rinv_0_lt_compat; lra]).
    pose proof (atan_nonneg _ H0). lra.
  - destruct (Rlt_dec x 0); [lra|].
    destruct (Rlt_dec 0 y); [lra|]. destruct (Rlt_dec y 0); lra.
Qed.

Lemma sqrt_sum_pos x y : x <> 0 \/ y <> 0 -> 0 < sqrt (x * x + y * y).
Proof. intros H. apply sqrt_lt_R0. destruct H; nra. Qed.

Lemma cos_atan_ratio y x : x <> 0 -> cos (atan (y / x)) = Rabs x / sqrt (x * x + y * y).
Proof.
  intros Hx. rewrite cos_atan. unfold Rsqr.
  assert (Hs : 0 < sqrt (x * x + y * y)) by (apply sqrt_sum_pos; tauto).
  replace (1 + y / x * (y / x)) with ((x * x + y * y) / (Rabs x * Rabs x)).
  2:{ replace (Rabs x * Rabs x) with (x * x) by (unfold Rabs; destruct (Rcase_abs x); ring). field; lra. }
  assert (0 < Rabs x) by (apply Rabs_pos_lt; exact Hx).
  rewrite sqrt_div by nra.
  rewrite sqrt_square by lra. field. split; lra.
Qed.

Lemma cos_atan2 y x : x <> 0 \/ y <> 0 -> cos (atan2 y x) = x / sqrt (x * x + y * y).
Proof.
  intros H. unfold atan2.
  destruct (Rlt_dec 0 x) as [Hx|Hx].
  - rewrite cos_atan_ratio by lra. rewrite Rabs_pos_eq by lra. reflexivity.
  - destruct (Rlt_dec x 0) as [Hx'|Hx'].
    + assert (E : cos (atan (y / x)) = - x / sqrt (x * x + y * y)).
      { rewrite cos_atan_ratio by lra. rewrite Rabs_left by lra. reflexivity. }
      assert (Hs : 0 < sqrt (x * x + y * y)) by (apply sqrt_sum_pos; tauto).
      destruct (Rle_dec 0 y).
      * rewrite cos_plus, cos_PI, sin_PI, E. field; lra.
      * rewrite cos_minus, cos_PI, sin_PI, E. field; lra.
    + assert (x = 0) by lra. subst x.
      replace (0 / sqrt (0 * 0 + y * y)) with 0 by (unfold Rdiv; ring).
      destruct (Rlt_dec 0 y); [apply cos_PI2|].
      destruct (Rlt_dec y 0); [|exfalso; destruct H; lra].
      replace (- PI / 2) with (- (PI / 2)) by field. rewrite cos_neg. apply cos_PI2.
Qed.

(* for y >= 0, atan2 y x is the arc cosine of x / |(x,y)| *)
Lemma atan2_acos y x : 0 <= y -> x <> 0 \/ y <> 0 -> atan2 y x = acos (x / sqrt (x * x + y * y)).
Proof.
  intros Hy H. rewrite <- (cos_atan2 y x H). symmetry. apply acos_cos. apply atan2_upper_range; exact Hy.
Qed.

Lemma acos_strictly_decreasing u v : -1 <= u -> u < v -> v <= 1 -> acos v < acos u.
Proof.
  intros Hu Huv Hv.
  destruct (Rlt_dec (acos v) (acos u)) as [|n]; [assumption|exfalso].
  apply Rnot_lt_le in n.
  pose proof (acos_bound u) as [? ?]; pose proof (acos_bound v) as [? ?].
  pose proof (cos_decr_1 (acos u) (acos v) ltac:(lra) ltac:(lra) ltac:(lra) ltac:(lra) n) as Hc.
  rewrite !cos_acos in Hc by lra. lra.
Qed.
