(* C20/SemExt.v — semantic-domain extension for C20 (no proofs).

   `Material.attenuation_coefficient` reads attributes of dataclass instances
   (`self.effective_sample_number_density`, `self.scattering_params.total_...`).
   The translator emits every attribute access as `py_attr O e "name"`.
   Here an OBJECT is modelled as the record of its attributes, `VDict O
   [(name, value); ...]`, and `py_attr` is extended accordingly: on a VDict it
   selects the attribute (AttributeError if absent), on anything else it is
   Verif.Sem.Val.py_attr unchanged.  The generated module imports this file
   AFTER Verif.Sem.Val (the "requires" entry of the translation spec), so the
   unqualified name `py_attr` in the generated text denotes this definition. *)
From Coq Require Import ZArith String List.
From Verif.Sem Require Import Field Val.
Import ListNotations.
Open Scope string_scope.

Definition py_attr (O : Fops) (v : val O) (name : string) : val O :=
  match v with
  | VDict _ l => match assoc name l with
                 | Some x => x
                 | None => VErr O "AttributeError"
                 end
  | _ => Val.py_attr O v name
  end.

(* a Material: (effective_sample_number_density, total_scattering_cross_section,
   absorption_cross_section of its scattering_params) *)
Definition mk_material (O : Fops) (n sigma_s sigma_a : val O) : val O :=
  VDict O [("scattering_params",
            VDict O [("total_scattering_cross_section", sigma_s);
                     ("absorption_cross_section", sigma_a)]);
           ("effective_sample_number_density", n)].
