(* C20/Spec.v — what the property demands, stated on the TABLE (rows of
   fields, as split by Python in tools/csv2coq.py), independently of how the
   code scans lines.

   A row is the list of its comma-separated fields; its first field is the
   name of the element / isotope.  [qty v s u] is the quantity a (value,
   uncertainty) pair of fields denotes: nothing when the value field is blank,
   else the decimal strings verbatim with the unit of that column.
   The answers:
     scat_answer r    what ScatteringParams.for_isotope must return for row r
     weight_answer r  (z, standard atomic weight or nothing) of an element row
     mass_answer r    atomic mass of an isotope row
   Well-formedness of names (element = letters; isotope = mass number + letters)
   and the element symbol of an isotope name are defined here as well. *)
From Coq Require Import String Ascii List Bool NArith.
From Verif.C20 Require Import Dec Model.
Import ListNotations.
Open Scope string_scope.

Definition row := list string.
Definition name_of (r : row) : string := hd "" r.
Definition names (t : list row) : list string := map name_of t.

Definition blank_none (s : string) : option string := if String.eqb s "" then None else Some s.
Definition qty (v s u : string) : option scalar :=
  if String.eqb v "" then None else Some (mkS v (blank_none s) u).

(* name, then (value, uncertainty) for: b_coh re, b_coh im, b_inc re, b_inc im  [fm],
   sigma_coh, sigma_inc, sigma_tot, sigma_abs [barn] *)
Definition scat_answer (r : row) : option scat :=
  match r with
  | [n; a0; a1; b0; b1; c0; c1; d0; d1; e0; e1; f0; f1; g0; g1; h0; h1] =>
      Some (mkScat n [qty a0 a1 "fm"; qty b0 b1 "fm"; qty c0 c1 "fm"; qty d0 d1 "fm";
                      qty e0 e1 "barn"; qty f0 f1 "barn"; qty g0 g1 "barn"; qty h0 h1 "barn"])
  | _ => None
  end.

(* Element, Z, Atomic Weight [Da], Uncertainty [Da] *)
Definition weight_answer (r : row) : option (N * option scalar) :=
  match r with
  | [n; z; w; e] => match parse_nat_dec z with
                    | Some zn => Some (zn, qty w e "Da")
                    | None => None
                    end
  | _ => None
  end.
Definition has_standard_weight (r : row) : bool := negb (String.eqb (nth 2 r "") "").

(* Isotope, Atomic Mass [Da], Uncertainty [Da] *)
Definition mass_answer (r : row) : option (option scalar) :=
  match r with
  | [n; w; e] => Some (qty w e "Da")
  | _ => None
  end.

(* ---- names *)
Fixpoint all_chars (p : ascii -> bool) (s : string) : bool :=
  match s with EmptyString => true | String c r => p c && all_chars p r end.
Definition is_element_name (s : string) : bool := negb (String.eqb s "") && all_chars is_alpha s.
(* the element symbol of an isotope name: the name without its mass number *)
Definition element_symbol (s : string) : string := drop_digits s.
Definition is_nuclide_name (s : string) : bool :=            (* optional mass number + symbol *)
  is_element_name (element_symbol s).
Definition is_isotope_name (s : string) : bool :=            (* mass number + symbol *)
  is_nuclide_name s && negb (String.eqb (element_symbol s) s).

Definition opt_eqb_str (a b : option string) : bool :=
  match a, b with
  | Some x, Some y => String.eqb x y
  | None, None => true
  | _, _ => false
  end.

(* ---- independent knowledge: the periodic table.  The atomic number of an element is its
   position (from 1) in this list. *)
Definition periodic_table : list string :=
  ["H"; "He"; "Li"; "Be"; "B"; "C"; "N"; "O"; "F"; "Ne"; "Na"; "Mg"; "Al"; "Si"; "P"; "S"; "Cl"; "Ar";
   "K"; "Ca"; "Sc"; "Ti"; "V"; "Cr"; "Mn"; "Fe"; "Co"; "Ni"; "Cu"; "Zn"; "Ga"; "Ge"; "As"; "Se"; "Br"; "Kr";
   "Rb"; "Sr"; "Y"; "Zr"; "Nb"; "Mo"; "Tc"; "Ru"; "Rh"; "Pd"; "Ag"; "Cd"; "In"; "Sn"; "Sb"; "Te"; "I"; "Xe";
   "Cs"; "Ba"; "La"; "Ce"; "Pr"; "Nd"; "Pm"; "Sm"; "Eu"; "Gd"; "Tb"; "Dy"; "Ho"; "Er"; "Tm"; "Yb"; "Lu";
   "Hf"; "Ta"; "W"; "Re"; "Os"; "Ir"; "Pt"; "Au"; "Hg"; "Tl"; "Pb"; "Bi"; "Po"; "At"; "Rn";
   "Fr"; "Ra"; "Ac"; "Th"; "Pa"; "U"; "Np"; "Pu"; "Am"; "Cm"; "Bk"; "Cf"; "Es"; "Fm"; "Md"; "No"; "Lr";
   "Rf"; "Db"; "Sg"; "Bh"; "Hs"; "Mt"; "Ds"; "Rg"; "Cn"; "Nh"; "Fl"; "Mc"; "Lv"; "Ts"; "Og"].
Definition is_atomic_number_of (z : N) (symbol : string) : bool :=
  negb (N.eqb z 0) && opt_eqb_str (nth_error periodic_table (pred (N.to_nat z))) (Some symbol).

Definition find_row (n : string) (t : list row) : option row :=
  find (fun r => String.eqb (name_of r) n) t.

(* what Atom.for_isotope must return for a name: the element row's z and weight, the isotope
   row's mass (none for a bare element) *)
Definition atom_answer_element (er : row) : option atom :=
  match weight_answer er with
  | Some (z, w) => Some (mkAtom (name_of er) z w None)
  | None => None
  end.
Definition atom_answer_isotope (weights : list row) (mr : row) : option atom :=
  match find_row (element_symbol (name_of mr)) weights with
  | Some er =>
      match weight_answer er, mass_answer mr with
      | Some (z, w), Some m => Some (mkAtom (name_of mr) z w m)
      | _, _ => None
      end
  | None => None
  end.

Definition of_option {A} (o : option A) : res A :=
  match o with Some a => Ok a | None => Err ValueError end.
