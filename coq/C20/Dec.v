(* C20/Dec.v — what a decimal field of the bundled tables DENOTES, and the
   binary64 number Python's float() (correctly rounded strtod) turns it into.

   The lookup model keeps every numeric field as the decimal STRING of the
   table.  To compare the implementation's float observations with those
   strings inside Coq, the correspondence run needs
     parse_dec : string -> option Q     exact rational denoted by a decimal literal
     round64   : Q -> option Q          round-to-nearest-even into binary64 (normal range)
   The grammar accepted is  [+-] digits [. digits] [(e|E) [+-] digits]  with at
   least one mantissa digit (a subset of what float() accepts: no blanks,
   underscores, inf/nan — none of which occurs in the tables; a field outside
   the subset makes the model answer ValueError and the correspondence will
   show whether the implementation agrees).  Definitions only. *)
From Coq Require Import String Ascii List Bool ZArith NArith QArith.
Import ListNotations.
Open Scope string_scope.

Definition is_digit (c : ascii) : bool :=
  let n := N_of_ascii c in (48 <=? n)%N && (n <=? 57)%N.
Definition digit_val (c : ascii) : Z := Z.of_N (N_of_ascii c) - 48.

(* leading digits of s: (their value, how many, the remainder) *)
Fixpoint take_digits (s : string) (acc : Z) (cnt : Z) : Z * Z * string :=
  match s with
  | String c r => if is_digit c then take_digits r (acc * 10 + digit_val c) (cnt + 1) else (acc, cnt, s)
  | EmptyString => (acc, cnt, s)
  end.

Definition take_sign (s : string) : bool * string :=      (* true = negative *)
  match s with
  | String c r => if Ascii.eqb c "-"%char then (true, r)
                  else if Ascii.eqb c "+"%char then (false, r) else (false, s)
  | EmptyString => (false, s)
  end.

Definition pow10 (e : Z) : Q :=
  if (0 <=? e)%Z then inject_Z (10 ^ e) else Qmake 1 (Z.to_pos (10 ^ (- e))).

Definition parse_dec (s : string) : option Q :=
  let '(neg, s1) := take_sign s in
  let '(ip, ni, s2) := take_digits s1 0 0 in
  let '(m, nf, nd, s3) :=
      match s2 with
      | String c r =>
          if Ascii.eqb c "."%char then
            let '(m, nf, r') := take_digits r ip 0 in (m, nf, (ni + nf)%Z, r')
          else (ip, 0%Z, ni, s2)
      | EmptyString => (ip, 0%Z, ni, s2)
      end in
  if (nd =? 0)%Z then None else
  let fin (ex : Z) :=
      let q := Qred (inject_Z m * pow10 (ex - nf)) in
      Some (if neg then Qred (- q) else q) in
  match s3 with
  | EmptyString => fin 0%Z
  | String c r =>
      if Ascii.eqb c "e"%char || Ascii.eqb c "E"%char then
        let '(eneg, r1) := take_sign r in
        let '(ev, ne, r2) := take_digits r1 0 0 in
        if (ne =? 0)%Z then None
        else match r2 with
             | EmptyString => fin (if eneg then (- ev)%Z else ev)
             | _ => None
             end
      else None
  end.

Definition float_ok (s : string) : bool :=
  match parse_dec s with Some _ => true | None => false end.

(* int(): non-empty run of ASCII digits (subset of what int() accepts) *)
Definition parse_nat_dec (s : string) : option N :=
  match s with
  | EmptyString => None
  | _ => let '(v, _, r) := take_digits s 0 0 in
         match r with EmptyString => Some (Z.to_N v) | _ => None end
  end.

(* ---- binary64, round to nearest, ties to even; None outside the normal range *)
Definition round64 (q : Q) : option Q :=
  let n := Qnum q in
  let d := Zpos (Qden q) in
  if (n =? 0)%Z then Some 0%Q else
  let a := Z.abs n in
  let e0 := (Z.log2 a - Z.log2 d)%Z in
  (* 2^e <= a/d < 2^(e+1) *)
  let e := if (0 <=? e0)%Z then (if (a <? d * 2 ^ e0)%Z then e0 - 1 else e0)%Z
           else (if (a * 2 ^ (- e0) <? d)%Z then e0 - 1 else e0)%Z in
  if (e <? -1022)%Z || (1023 <? e)%Z then None else
  let sh := (52 - e)%Z in
  let num := if (0 <=? sh)%Z then (a * 2 ^ sh)%Z else a in
  let den := if (0 <=? sh)%Z then d else (d * 2 ^ (- sh))%Z in
  let qf := (num / den)%Z in
  let r := (num mod den)%Z in
  let m := if (2 * r <? den)%Z then qf
           else if (den <? 2 * r)%Z then (qf + 1)%Z
           else if Z.even qf then qf else (qf + 1)%Z in
  let m := if (n <? 0)%Z then (- m)%Z else m in
  Some (Qred (if (0 <=? sh)%Z then Qmake m (Z.to_pos (2 ^ sh)) else inject_Z (m * 2 ^ (- sh)))).

Definition float_of_string (s : string) : option Q :=
  match parse_dec s with Some q => round64 q | None => None end.
