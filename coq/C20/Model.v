(* C20/Model.v — executable Gallina model of the nuclear-data lookups of
   src/scippneutron/atoms/__init__.py (hand model; tied to the code by the
   exhaustive correspondence run, to the DATA by Run.GenTables which is
   regenerated from /repo's CSV files on every run).

   Modelled functions (same names, Python text quoted next to each):
     _find_line_with_isotope, _assemble_scalar, ScatteringParams._parse_line,
     ScatteringParams.for_isotope, _load_atomic_weight, _load_atomic_mass,
     _parse_isotope_name, Atom.for_isotope.
   A file is the list of its lines as readline() yields them (each ending in
   "\n" except possibly the last).  Strings are ASCII (csv2coq refuses other
   files; the harness marks non-ASCII query names).  Numeric fields stay
   decimal strings; float()/int() only decide ValueError here (Dec.float_ok).
   lru_cache is not modelled (pure functions).  Definitions only, no proofs. *)
From Coq Require Import String Ascii List Bool NArith.
From Verif.C20 Require Import Dec.
Import ListNotations.
Open Scope string_scope.

Definition comma : ascii := ","%char.
Definition nl_char : ascii := ascii_of_N 10.
Definition nl : string := String nl_char EmptyString.

(* ---------- Python string primitives (ASCII) *)
(* s.split(',', 1) when it yields exactly two parts; None when s has no comma *)
Fixpoint split1 (s : string) : option (string * string) :=
  match s with
  | EmptyString => None
  | String c r =>
      if Ascii.eqb c comma then Some (EmptyString, r)
      else match split1 r with
           | Some (a, b) => Some (String c a, b)
           | None => None
           end
  end.

(* s.split(',')  (never empty) *)
Fixpoint split_all (s : string) : list string :=
  match s with
  | EmptyString => [EmptyString]
  | String c r =>
      if Ascii.eqb c comma then EmptyString :: split_all r
      else match split_all r with
           | h :: t => String c h :: t
           | [] => [String c EmptyString]
           end
  end.

(* str.isspace on ASCII: \t \n \v \f \r, \x1c..\x1f, blank *)
Definition is_ws (c : ascii) : bool :=
  let n := N_of_ascii c in ((9 <=? n) && (n <=? 13))%N || ((28 <=? n) && (n <=? 32))%N.
(* s.rstrip() *)
Fixpoint rstrip (s : string) : string :=
  match s with
  | EmptyString => EmptyString
  | String c r =>
      match rstrip r with
      | EmptyString => if is_ws c then EmptyString else String c EmptyString
      | r' => String c r'
      end
  end.

(* the lines readline() yields for a file given as (lines without "\n", final newline?) *)
Fixpoint file_lines (lines : list string) (final_nl : bool) : list string :=
  match lines with
  | [] => []
  | [l] => [if final_nl then l ++ nl else l]
  | l :: tl => (l ++ nl) :: file_lines tl final_nl
  end.

(* ---------- results *)
Inductive err := ValueError | TypeError | IndexError.
Inductive res (A : Type) := Ok (a : A) | Err (e : err).
Arguments Ok {A}. Arguments Err {A}.
Definition bind {A B} (r : res A) (k : A -> res B) : res B :=
  match r with Ok a => k a | Err e => Err e end.

(* ---------- _find_line_with_isotope
     while line := io.readline():
         name, rest = line.split(',', 1)      # ValueError when the line has no comma
         if name == isotope: return rest
     return None                                                             *)
Inductive found := Hit (rest : string) | Miss | Malformed.
Fixpoint find_line (isotope : string) (lines : list string) : found :=
  match lines with
  | [] => Miss
  | l :: tl =>
      match split1 l with
      | None => Malformed
      | Some (name, rest) => if String.eqb name isotope then Hit rest else find_line isotope tl
      end
  end.

(* ---------- _assemble_scalar(value, std, unit)
     if not value: return None
     value = float(value); variance = float(std) ** 2 if std else None
     return sc.scalar(value, variance=variance, unit=unit)
   The model keeps the decimal strings: s_value, s_std (None = no variance). *)
Record scalar := mkS { s_value : string; s_std : option string; s_unit : string }.
Definition assemble_scalar (value std unit : string) : res (option scalar) :=
  if String.eqb value "" then Ok None
  else if negb (float_ok value) then Err ValueError
  else if String.eqb std "" then Ok (Some (mkS value None unit))
  else if negb (float_ok std) then Err ValueError
  else Ok (Some (mkS value (Some std) unit)).

(* `if line_remainder := _find_line_with_isotope(..)` : a hit with an empty remainder is falsy *)
Definition lookup {A} (parse : string -> res A) (isotope : string) (lines : list string) : res A :=
  match find_line isotope lines with
  | Hit rest => if String.eqb rest "" then Err ValueError else parse rest
  | Miss => Err ValueError              (* raise ValueError("No entry for ...") *)
  | Malformed => Err ValueError         (* not enough values to unpack *)
  end.

(* ---------- ScatteringParams._parse_line / for_isotope
     line = line.rstrip().split(',')
     ScatteringParams(isotope, _assemble_scalar(line[0], line[1], 'fm'), ... line[14], line[15], 'barn') *)
Record scat := mkScat { sc_isotope : string; sc_fields : list (option scalar) }.
(* order of sc_fields: b_coh re, b_coh im, b_inc re, b_inc im, s_coh, s_inc, s_tot, s_abs *)
Definition field_units : list (nat * string) :=
  [(0, "fm"); (2, "fm"); (4, "fm"); (6, "fm"); (8, "barn"); (10, "barn"); (12, "barn"); (14, "barn")]%nat.
Definition get (l : list string) (i : nat) : res string :=
  match nth_error l i with Some x => Ok x | None => Err IndexError end.
Fixpoint fields (l : list string) (spec : list (nat * string)) : res (list (option scalar)) :=
  match spec with
  | [] => Ok []
  | (i, u) :: spec' =>
      bind (get l i) (fun v =>
      bind (get l (S i)) (fun s =>
      bind (assemble_scalar v s u) (fun x =>
      bind (fields l spec') (fun xs => Ok (x :: xs)))))
  end.
Definition parse_line (isotope line : string) : res scat :=
  bind (fields (split_all (rstrip line)) field_units) (fun fs => Ok (mkScat isotope fs)).
(* the scattering table is scanned from its first line (no heading lines) *)
Definition scat_for_isotope (lines : list string) (isotope : string) : res scat :=
  lookup (parse_line isotope) isotope lines.

(* ---------- _load_atomic_weight(element)  (two heading lines skipped)
     z, weight, error = line_remainder.rstrip().split(',')
     return int(z), _assemble_scalar(weight, error, 'Da')                    *)
Definition parse_weight (rest : string) : res (N * option scalar) :=
  match split_all (rstrip rest) with
  | [z; w; e] =>
      match parse_nat_dec z with
      | None => Err ValueError
      | Some zn => bind (assemble_scalar w e "Da") (fun s => Ok (zn, s))
      end
  | _ => Err ValueError                (* too many / not enough values to unpack *)
  end.
Definition load_atomic_weight (lines : list string) (element : string) : res (N * option scalar) :=
  lookup parse_weight element (skipn 2 lines).

(* ---------- _load_atomic_mass(isotope) *)
Definition parse_mass (rest : string) : res (option scalar) :=
  match split_all (rstrip rest) with
  | [w; e] => assemble_scalar w e "Da"
  | _ => Err ValueError
  end.
Definition load_atomic_mass (lines : list string) (isotope : string) : res (option scalar) :=
  lookup parse_mass isotope (skipn 2 lines).

(* ---------- _parse_isotope_name:  re.match(r'(?:\d+)?([a-zA-Z]+)', name)[1]
   greedy digits, then a non-empty greedy run of letters; no match -> None[1] -> TypeError *)
Definition is_alpha (c : ascii) : bool :=
  let n := N_of_ascii c in ((65 <=? n) && (n <=? 90))%N || ((97 <=? n) && (n <=? 122))%N.
Fixpoint drop_digits (s : string) : string :=
  match s with
  | String c r => if is_digit c then drop_digits r else s
  | EmptyString => s
  end.
Fixpoint take_alpha (s : string) : string :=
  match s with
  | String c r => if is_alpha c then String c (take_alpha r) else EmptyString
  | EmptyString => EmptyString
  end.
Definition parse_isotope_name (name : string) : option string :=
  match take_alpha (drop_digits name) with
  | EmptyString => None
  | e => Some e
  end.

(* ---------- Atom.for_isotope
     element = _parse_isotope_name(isotope)
     z, weight = _load_atomic_weight(element)
     mass = None if element == isotope else _load_atomic_mass(isotope)         *)
Record atom := mkAtom { a_isotope : string; a_z : N; a_weight : option scalar; a_mass : option scalar }.
Definition atom_for_isotope (wlines mlines : list string) (isotope : string) : res atom :=
  match parse_isotope_name isotope with
  | None => Err TypeError
  | Some element =>
      bind (load_atomic_weight wlines element) (fun zw =>
      bind (if String.eqb element isotope then Ok None else load_atomic_mass mlines isotope) (fun m =>
      Ok (mkAtom isotope (fst zw) (snd zw) m)))
  end.
