(* C20/Proofs.v — lemmas about the lookup model that hold for EVERY table
   content (unbounded: all query strings, all files), by induction over the
   lines.  The run files (coq-run/C20) instantiate them with the tables
   regenerated from /repo and discharge the finite side conditions
   (lines_ok, nodupb, name well-formedness) by vm_compute. *)
From Coq Require Import String Ascii List Bool NArith Lia.
From Verif.C20 Require Import Dec Model Spec.
Import ListNotations.
Open Scope string_scope.

(* ---------- boolean equalities used to let Coq compare results, with soundness *)
Definition opt_eqb {A} (e : A -> A -> bool) (a b : option A) : bool :=
  match a, b with
  | Some x, Some y => e x y
  | None, None => true
  | _, _ => false
  end.
Fixpoint list_eqb {A} (e : A -> A -> bool) (a b : list A) : bool :=
  match a, b with
  | [], [] => true
  | x :: a', y :: b' => e x y && list_eqb e a' b'
  | _, _ => false
  end.
Definition scalar_eqb (a b : scalar) : bool :=
  String.eqb (s_value a) (s_value b) && opt_eqb String.eqb (s_std a) (s_std b)
  && String.eqb (s_unit a) (s_unit b).
Definition scat_eqb (a b : scat) : bool :=
  String.eqb (sc_isotope a) (sc_isotope b) && list_eqb (opt_eqb scalar_eqb) (sc_fields a) (sc_fields b).
Definition atom_eqb (a b : atom) : bool :=
  String.eqb (a_isotope a) (a_isotope b) && N.eqb (a_z a) (a_z b)
  && opt_eqb scalar_eqb (a_weight a) (a_weight b) && opt_eqb scalar_eqb (a_mass a) (a_mass b).
Definition zw_eqb (a b : N * option scalar) : bool :=
  N.eqb (fst a) (fst b) && opt_eqb scalar_eqb (snd a) (snd b).
Definition err_eqb (a b : err) : bool :=
  match a, b with
  | ValueError, ValueError | TypeError, TypeError | IndexError, IndexError => true
  | _, _ => false
  end.
Definition res_eqb {A} (e : A -> A -> bool) (a b : res A) : bool :=
  match a, b with
  | Ok x, Ok y => e x y
  | Err x, Err y => err_eqb x y
  | _, _ => false
  end.

Lemma opt_eqb_eq A (e : A -> A -> bool) :
  (forall x y, e x y = true -> x = y) -> forall a b, opt_eqb e a b = true -> a = b.
Proof. intros H [x|] [y|]; simpl; intros E; try discriminate; [f_equal; auto | reflexivity]. Qed.
Lemma list_eqb_eq A (e : A -> A -> bool) :
  (forall x y, e x y = true -> x = y) -> forall a b, list_eqb e a b = true -> a = b.
Proof.
  intros H a; induction a as [|x a IH]; intros [|y b]; simpl; intros E; try discriminate; [reflexivity|].
  apply andb_true_iff in E as [E1 E2]. f_equal; auto.
Qed.
Lemma scalar_eqb_eq a b : scalar_eqb a b = true -> a = b.
Proof.
  destruct a, b; unfold scalar_eqb; simpl; intros E.
  apply andb_true_iff in E as [E E3]. apply andb_true_iff in E as [E1 E2].
  apply String.eqb_eq in E1, E3.
  apply (opt_eqb_eq _ _ (fun x y => proj1 (String.eqb_eq x y))) in E2. subst; reflexivity.
Qed.
Lemma scat_eqb_eq a b : scat_eqb a b = true -> a = b.
Proof.
  destruct a, b; unfold scat_eqb; simpl; intros E. apply andb_true_iff in E as [E1 E2].
  apply String.eqb_eq in E1.
  apply (list_eqb_eq _ _ (opt_eqb_eq _ _ scalar_eqb_eq)) in E2. subst; reflexivity.
Qed.
Lemma atom_eqb_eq a b : atom_eqb a b = true -> a = b.
Proof.
  destruct a, b; unfold atom_eqb; simpl; intros E.
  apply andb_true_iff in E as [E E4]. apply andb_true_iff in E as [E E3].
  apply andb_true_iff in E as [E1 E2].
  apply String.eqb_eq in E1. apply N.eqb_eq in E2.
  apply (opt_eqb_eq _ _ scalar_eqb_eq) in E3, E4. subst; reflexivity.
Qed.
Lemma zw_eqb_eq a b : zw_eqb a b = true -> a = b.
Proof.
  destruct a, b; unfold zw_eqb; simpl; intros E. apply andb_true_iff in E as [E1 E2].
  apply N.eqb_eq in E1. apply (opt_eqb_eq _ _ scalar_eqb_eq) in E2. subst; reflexivity.
Qed.
Lemma optscalar_eqb_eq a b : opt_eqb scalar_eqb a b = true -> a = b.
Proof. apply opt_eqb_eq, scalar_eqb_eq. Qed.
Lemma err_eqb_eq a b : err_eqb a b = true -> a = b.
Proof. destruct a, b; simpl; intros; try discriminate; reflexivity. Qed.
Lemma res_eqb_eq A (e : A -> A -> bool) :
  (forall x y, e x y = true -> x = y) -> forall a b, res_eqb e a b = true -> a = b.
Proof.
  intros H [x|x] [y|y]; simpl; intros E; try discriminate; f_equal; auto using err_eqb_eq.
Qed.

(* duplicate-freeness, decided *)
Fixpoint nodupb (l : list string) : bool :=
  match l with
  | [] => true
  | x :: t => negb (existsb (String.eqb x) t) && nodupb t
  end.
Lemma nodupb_NoDup l : nodupb l = true -> NoDup l.
Proof.
  induction l as [|x t IH]; simpl; intros E; [constructor|].
  apply andb_true_iff in E as [E1 E2]. constructor; [|auto].
  intros Hin. apply negb_true_iff in E1.
  assert (existsb (String.eqb x) t = true) as C
      by (apply existsb_exists; exists x; split; [assumption | apply String.eqb_refl]).
  congruence.
Qed.

(* ---------- _find_line_with_isotope: exact match only, for every query string *)
Lemma find_line_sound isotope lines rest :
  find_line isotope lines = Hit rest ->
  exists l, In l lines /\ split1 l = Some (isotope, rest).
Proof.
  induction lines as [|l tl IH]; simpl; [discriminate|].
  destruct (split1 l) as [[name r]|] eqn:S; [|discriminate].
  destruct (String.eqb name isotope) eqn:E.
  - intros [= <-]. apply String.eqb_eq in E; subst. exists l; auto.
  - intros H. destruct (IH H) as (l' & Hin & Hs). exists l'; auto.
Qed.
Lemma find_line_miss isotope lines :
  find_line isotope lines = Miss ->
  forall l, In l lines -> exists name rest, split1 l = Some (name, rest) /\ name <> isotope.
Proof.
  induction lines as [|l tl IH]; simpl; [intros _ ? []|].
  destruct (split1 l) as [[name r]|] eqn:S; [|discriminate].
  destruct (String.eqb name isotope) eqn:E; [discriminate|].
  intros H l' [<-|Hin]; [|auto].
  exists name, r; split; [assumption|]. apply String.eqb_neq; assumption.
Qed.

(* ---------- a file scanned by the code against the table the specification talks about *)
Section Table.
Context {A : Type}.
Variable parse : string -> string -> res A.        (* parse isotope line_remainder *)
Variable ans : row -> option A.                    (* what the table says *)
Variable eqbA : A -> A -> bool.
Hypothesis eqbA_eq : forall x y, eqbA x y = true -> x = y.

Definition lk (lines : list string) (isotope : string) : res A :=
  lookup (parse isotope) isotope lines.

(* line l is the faithful text of row r: its name field is the row's name, and
   parsing its remainder yields exactly the answer the row prescribes *)
Definition line_ok (l : string) (r : row) : bool :=
  match split1 l, ans r with
  | Some (n, rest), Some a =>
      String.eqb n (name_of r) && negb (String.eqb rest "") && res_eqb eqbA (parse n rest) (Ok a)
  | _, _ => false
  end.
Fixpoint lines_ok (ls : list string) (rs : list row) : bool :=
  match ls, rs with
  | [], [] => true
  | l :: ls', r :: rs' => line_ok l r && lines_ok ls' rs'
  | _, _ => false
  end.

Lemma line_ok_inv l r :
  line_ok l r = true ->
  exists rest a, split1 l = Some (name_of r, rest) /\ rest <> "" /\ ans r = Some a
                 /\ parse (name_of r) rest = Ok a.
Proof using eqbA_eq.
  unfold line_ok. destruct (split1 l) as [[n rest]|]; [|discriminate].
  destruct (ans r) as [a|]; [|discriminate]. intros E.
  apply andb_true_iff in E as [E E3]. apply andb_true_iff in E as [E1 E2].
  apply String.eqb_eq in E1; subst n. apply negb_true_iff, String.eqb_neq in E2.
  apply (res_eqb_eq _ _ eqbA_eq) in E3. exists rest, a; auto.
Qed.

Lemma lines_ok_in_line ls : forall rs, lines_ok ls rs = true ->
  forall l, In l ls -> exists r, In r rs /\ line_ok l r = true.
Proof using.
  induction ls as [|l0 ls IH]; intros [|r0 rs]; simpl; try discriminate; [intros _ ? []|].
  intros E l [<-|Hin]; apply andb_true_iff in E as [E1 E2].
  - exists r0; auto.
  - destruct (IH _ E2 _ Hin) as (r & ? & ?). exists r; auto.
Qed.

(* SOUNDNESS, for every string: a successful lookup answers with the row whose
   first field is literally the query *)
Theorem lookup_exact ls rs s a :
  lines_ok ls rs = true -> lk ls s = Ok a ->
  exists r, In r rs /\ name_of r = s /\ ans r = Some a.
Proof using eqbA_eq.
  intros Hok. unfold lk, lookup. destruct (find_line s ls) as [rest| |] eqn:F; try discriminate.
  destruct (find_line_sound _ _ _ F) as (l & Hin & Hs).
  destruct (lines_ok_in_line _ _ Hok _ Hin) as (r & Hr & Hl).
  destruct (line_ok_inv _ _ Hl) as (rest' & a' & Hs' & Hne & Ha & Hp).
  rewrite Hs in Hs'. injection Hs' as Hn' Hr'. subst rest'.
  destruct (String.eqb rest "") eqn:E; [discriminate|].
  intros Hpa. exists r. split; [assumption|]. split; [symmetry; assumption|].
  rewrite Ha. f_equal. rewrite <- Hn' in Hp. congruence.
Qed.

(* REJECTION, for every string that is not a first field *)
Theorem lookup_reject ls rs s :
  lines_ok ls rs = true -> ~ In s (names rs) -> lk ls s = Err ValueError.
Proof using eqbA_eq.
  intros Hok Hn. destruct (lk ls s) as [a|e] eqn:L.
  - destruct (lookup_exact _ _ _ _ Hok L) as (r & Hr & <- & _).
    exfalso; apply Hn. unfold names; apply in_map; assumption.
  - unfold lk, lookup in L. destruct (find_line s ls) as [rest| |] eqn:F; try congruence.
    destruct (find_line_sound _ _ _ F) as (l & Hin & Hs).
    destruct (lines_ok_in_line _ _ Hok _ Hin) as (r & Hr & Hl).
    destruct (line_ok_inv _ _ Hl) as (rest' & a' & Hs' & Hne & Ha & Hp).
    rewrite Hs in Hs'. injection Hs' as Hn' _.
    exfalso; apply Hn. rewrite Hn'. unfold names; apply in_map; assumption.
Qed.

(* COMPLETENESS from uniqueness of the first column: every row is returned *)
Theorem lookup_returns_row ls : forall rs,
  lines_ok ls rs = true -> NoDup (names rs) ->
  forall r, In r rs -> exists a, ans r = Some a /\ lk ls (name_of r) = Ok a.
Proof using eqbA_eq.
  induction ls as [|l0 ls IH]; intros [|r0 rs]; simpl; try discriminate; [intros _ _ ? []|].
  intros E ND r Hin. apply andb_true_iff in E as [E1 E2].
  destruct (line_ok_inv _ _ E1) as (rest & a0 & Hs & Hne & Ha & Hp).
  inversion ND as [|? ? Hnotin ND']; subst.
  destruct Hin as [<-|Hin].
  - exists a0; split; [assumption|]. unfold lk, lookup; simpl. rewrite Hs, String.eqb_refl.
    apply String.eqb_neq in Hne; rewrite Hne. assumption.
  - destruct (IH _ E2 ND' _ Hin) as (a & Hra & Hl). exists a; split; [assumption|].
    unfold lk, lookup in *; simpl. rewrite Hs.
    assert (name_of r0 <> name_of r) as Hd
        by (intros Heq; apply Hnotin; rewrite Heq; unfold names; apply in_map; assumption).
    apply String.eqb_neq in Hd; rewrite Hd. assumption.
Qed.
End Table.

(* ---------- _parse_isotope_name against the regular expression (?:\d+)?([a-zA-Z]+) *)
Definition starts_with (p : ascii -> bool) (s : string) : bool :=
  match s with String c _ => p c | EmptyString => false end.

Lemma drop_digits_split s :
  exists d, s = d ++ drop_digits s /\ all_chars is_digit d = true
            /\ starts_with is_digit (drop_digits s) = false.
Proof.
  induction s as [|c r IH]; simpl.
  - exists ""; auto.
  - destruct (is_digit c) eqn:D.
    + destruct IH as (d & E & Hd & Hs). exists (String c d); simpl. rewrite D, <- E; auto.
    + exists ""; simpl; auto.
Qed.
Lemma take_alpha_split s :
  exists rest, s = take_alpha s ++ rest /\ all_chars is_alpha (take_alpha s) = true
               /\ starts_with is_alpha rest = false.
Proof.
  induction s as [|c r IH]; simpl.
  - exists ""; auto.
  - destruct (is_alpha c) eqn:D.
    + destruct IH as (rest & E & Ha & Hs). exists rest; simpl. rewrite D, <- E; auto.
    + exists (String c r); simpl; auto.
Qed.
(* the match of the regular expression: all leading digits, then all following
   letters (at least one) — the group is that run of letters *)
Theorem parse_isotope_name_spec name e :
  parse_isotope_name name = Some e ->
  exists d rest, name = d ++ e ++ rest /\ all_chars is_digit d = true
                 /\ all_chars is_alpha e = true /\ e <> ""
                 /\ starts_with is_alpha rest = false.
Proof.
  unfold parse_isotope_name. intros H.
  destruct (drop_digits_split name) as (d & E1 & Hd & _).
  destruct (take_alpha_split (drop_digits name)) as (rest & E2 & Ha & Hs).
  destruct (take_alpha (drop_digits name)) as [|c t] eqn:T; [discriminate|].
  injection H as <-. exists d, rest. repeat split; auto; [|discriminate].
  rewrite E1 at 1. rewrite E2 at 1. reflexivity.
Qed.
Theorem parse_isotope_name_none name :
  parse_isotope_name name = None -> starts_with is_alpha (drop_digits name) = false.
Proof.
  unfold parse_isotope_name. destruct (drop_digits name) as [|c r]; simpl; [reflexivity|].
  destruct (is_alpha c); [discriminate | reflexivity].
Qed.

Lemma take_alpha_all s : all_chars is_alpha s = true -> take_alpha s = s.
Proof.
  induction s as [|c r IH]; simpl; [reflexivity|]. intros E.
  apply andb_true_iff in E as [E1 E2]. rewrite E1, IH; auto.
Qed.
(* a well-formed nuclide name (optional mass number + letters) parses to its symbol *)
Lemma parse_nuclide_name s :
  is_nuclide_name s = true -> parse_isotope_name s = Some (element_symbol s).
Proof.
  unfold is_nuclide_name, is_element_name, element_symbol, parse_isotope_name. intros E.
  apply andb_true_iff in E as [E1 E2]. rewrite (take_alpha_all _ E2).
  destruct (drop_digits s); [discriminate | reflexivity].
Qed.
Lemma drop_digits_alpha s : all_chars is_alpha s = true -> drop_digits s = s.
Proof.
  destruct s as [|c r]; simpl; [reflexivity|]. intros E. apply andb_true_iff in E as [E _].
  unfold is_alpha, is_digit in *. destruct (N_of_ascii c) as [|p]; [discriminate|].
  destruct ((48 <=? N.pos p)%N && (N.pos p <=? 57)%N) eqn:D; [|reflexivity].
  exfalso. apply andb_true_iff in D as [D1 D2]. apply N.leb_le in D1, D2.
  apply orb_true_iff in E as [E|E]; apply andb_true_iff in E as [E1 E2];
    apply N.leb_le in E1, E2; lia.
Qed.
Lemma parse_element_name s :
  is_element_name s = true -> parse_isotope_name s = Some s.
Proof.
  intros E. assert (element_symbol s = s) as Hs.
  { unfold is_element_name in E. apply andb_true_iff in E as [_ E]. apply drop_digits_alpha; assumption. }
  rewrite <- Hs at 2. apply parse_nuclide_name. unfold is_nuclide_name. rewrite Hs. assumption.
Qed.

Lemma find_row_some n t r : find_row n t = Some r -> In r t /\ name_of r = n.
Proof.
  unfold find_row. intros H. apply find_some in H as [H1 H2]. apply String.eqb_eq in H2. auto.
Qed.

(* ---------- Atom.for_isotope over arbitrary weight / mass tables *)
Section Atom.
Variables wfile mfile : list string.          (* the two files as read (heading lines included) *)
Variables wrows mrows : list row.             (* the two tables (data rows) *)
Hypothesis HW : lines_ok (fun _ => parse_weight) weight_answer zw_eqb (skipn 2 wfile) wrows = true.
Hypothesis HM : lines_ok (fun _ => parse_mass) mass_answer (opt_eqb scalar_eqb) (skipn 2 mfile) mrows = true.

Notation atom_lookup := (atom_for_isotope wfile mfile).

(* SOUNDNESS for every string s: whatever is answered is the query's own name,
   z and weight of the row of ITS element symbol, and a mass only from the row
   whose first field is literally s (never for a bare element name) *)
Theorem atom_exact s a :
  atom_lookup s = Ok a ->
  a_isotope a = s /\
  exists el er, parse_isotope_name s = Some el /\ In er wrows /\ name_of er = el
    /\ weight_answer er = Some (a_z a, a_weight a)
    /\ ((el = s /\ a_mass a = None)
        \/ (el <> s /\ exists mr, In mr mrows /\ name_of mr = s /\ mass_answer mr = Some (a_mass a))).
Proof using HW HM.
  unfold atom_for_isotope. destruct (parse_isotope_name s) as [el|] eqn:P; [|discriminate].
  unfold load_atomic_weight, load_atomic_mass.
  remember (skipn 2 wfile) as W2 eqn:EW in *. remember (skipn 2 mfile) as M2 eqn:EM in *.
  destruct (lookup parse_weight el W2) as [[z w]|] eqn:LW; simpl; [|discriminate].
  destruct (lookup_exact (fun _ => parse_weight) weight_answer zw_eqb zw_eqb_eq _ _ _ _ HW LW)
    as (er & Her & Hn & Hans).
  destruct (String.eqb el s) eqn:E; simpl.
  - intros [= <-]; simpl. split; [reflexivity|]. exists el, er.
    apply String.eqb_eq in E. repeat split; auto.
  - destruct (lookup parse_mass s M2) as [m|] eqn:LM; simpl; [|discriminate].
    destruct (lookup_exact (fun _ => parse_mass) mass_answer _ optscalar_eqb_eq _ _ _ _ HM LM)
      as (mr & Hmr & Hmn & Hmans).
    intros [= <-]; simpl. split; [reflexivity|]. exists el, er.
    apply String.eqb_neq in E. repeat split; auto. right; split; [assumption|]. exists mr; auto.
Qed.

(* unknown names are rejected: TypeError when the name has no element symbol,
   ValueError when the symbol or the isotope is not in the tables *)
Theorem atom_reject s :
  ~ In s (names wrows) -> ~ In s (names mrows) -> exists e, atom_lookup s = Err e.
Proof using HW HM.
  intros H1 H2. destruct (atom_lookup s) as [a|e] eqn:L; [|eauto].
  exfalso. destruct (atom_exact _ _ L) as (_ & el & er & P & Her & Hn & _ & [[-> _]|[_ (mr & Hmr & Hmn & _)]]).
  - apply H1. rewrite <- Hn. unfold names; apply in_map; assumption.
  - apply H2. rewrite <- Hmn. unfold names; apply in_map; assumption.
Qed.
Theorem atom_type_error s :
  parse_isotope_name s = None -> atom_lookup s = Err TypeError.
Proof using. unfold atom_for_isotope. intros ->. reflexivity. Qed.

Hypothesis NDW : NoDup (names wrows).
Hypothesis NDM : NoDup (names mrows).

(* COMPLETENESS: every element row ... *)
Theorem atom_returns_element er :
  In er wrows -> is_element_name (name_of er) = true ->
  exists a, atom_answer_element er = Some a /\ atom_lookup (name_of er) = Ok a.
Proof using HW NDW.
  intros Hin Hwf.
  destruct (lookup_returns_row (fun _ => parse_weight) weight_answer zw_eqb zw_eqb_eq _ _ HW NDW _ Hin)
    as ([z w] & Hans & Hl).
  unfold atom_answer_element. rewrite Hans. eexists; split; [reflexivity|].
  unfold atom_for_isotope. rewrite (parse_element_name _ Hwf).
  unfold load_atomic_weight. unfold lk in Hl. rewrite Hl. simpl. rewrite String.eqb_refl. reflexivity.
Qed.
(* ... and every isotope row *)
Theorem atom_returns_isotope mr a :
  In mr mrows -> is_isotope_name (name_of mr) = true ->
  atom_answer_isotope wrows mr = Some a ->
  atom_lookup (name_of mr) = Ok a.
Proof using HW HM NDW NDM.
  intros Hin Hwf. unfold atom_answer_isotope.
  destruct (find_row (element_symbol (name_of mr)) wrows) as [er|] eqn:F; [|discriminate].
  apply find_row_some in F as [Her Hn].
  destruct (lookup_returns_row (fun _ => parse_weight) weight_answer zw_eqb zw_eqb_eq _ _ HW NDW _ Her)
    as ([z w] & Hans & Hl).
  destruct (lookup_returns_row (fun _ => parse_mass) mass_answer _ optscalar_eqb_eq _ _ HM NDM _ Hin)
    as (m & Hmans & Hml).
  rewrite Hans, Hmans. intros [= <-].
  unfold is_isotope_name in Hwf. apply andb_true_iff in Hwf as [Hnuc Hne].
  apply negb_true_iff in Hne.
  unfold atom_for_isotope. rewrite (parse_nuclide_name _ Hnuc).
  unfold load_atomic_weight, load_atomic_mass. unfold lk in Hl, Hml.
  rewrite <- Hn, Hl. cbn [bind fst snd]. rewrite Hn, Hne, Hml. reflexivity.
Qed.
End Atom.
