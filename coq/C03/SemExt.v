(* C03/SemExt.v — scipp primitives used by conversion/beamline.py beyond Sem/Val.v.
   Definitions only (the model of the library; exercised by the C03 correspondence). *)
From Coq Require Import ZArith String List Bool.
From Verif.Sem Require Import Field Val.
Import ListNotations.
Open Scope string_scope.

Section WithOps.
Variable O : Fops.

(* sc.atan2(y=..., x=..., out=v): the value is that of sc.atan2(y, x); `out` only names the
   buffer the result is written to (an existing float variable; its unit is overwritten with
   rad — probed on scipp 25.4).  Aliasing is the subject of C09, not of this value model. *)
Definition sc_atan2_out (y x out : val O) : val O :=
  match out with
  | VErr _ e => VErr O e
  | VNone _ => sc_atan2 O y x
  | VVar _ _ _ d => if is_float d then sc_atan2 O y x else VErr O "DTypeError"
  | _ => VErr O "TypeError"
  end.
End WithOps.
