(* C03/GraphNeeds.v — data that carries only PART of the beamline coordinates (a monitor: source and
   detector position but no sample; a secondary flight path: sample and detector; a primary one: source
   and sample; precomputed beams or lengths instead of positions).

   [missing fuel g have name]: the input coordinates that sc.transform_coords finds neither in the data
   (names [have]) nor as a rule of the graph g when asked for [name] — it refuses with a KeyError
   BEFORE evaluating any rule when this list is not empty (probed: a missing input takes precedence over
   a unit mismatch between the inputs that are present).

   [needs scatter have q]: the INDEPENDENT statement of what each quantity of a straight beamline is
   defined from (the property's Euclidean definitions):  incident_beam = sample - source,
   scattered_beam = position - sample, L1 = |incident_beam|, L2 = |scattered_beam|,
   two_theta = angle(incident_beam, scattered_beam), Ltotal = L1 + L2 with scattering and
   |position - source| without; a quantity the data carries is taken from the data.
   Definitions only (no proofs here). *)
From Coq Require Import String List Bool.
From Verif.Sem Require Import Field Val.
From Verif.C03 Require Import Graph.
Import ListNotations.
Open Scope string_scope.

Definition has (l : list string) (n : string) : bool := existsb (String.eqb n) l.

Section N.
Variable O : Fops.

Fixpoint missing (fuel : nat) (g : graph O) (have : list string) (name : string) : list string :=
  if has have name then []
  else match fuel with
       | 0%nat => [name]
       | S f =>
           match lookup g name with
           | None => [name]
           | Some (K1 _ _ a) => missing f g have a
           | Some (K2 _ _ a b) => missing f g have a ++ missing f g have b
           | Some (KUnknown _ _) => []
           end
       end.

(* partial beamlines *)
Definition env_monitor (src pos : val O) : env O := [("source_position", src); ("position", pos)].
Definition env_secondary (smp pos : val O) : env O := [("sample_position", smp); ("position", pos)].
Definition env_primary (src smp : val O) : env O := [("source_position", src); ("sample_position", smp)].
Definition env_lengths (l1 l2 : val O) : env O := [("L1", l1); ("L2", l2)].
(* a primary flight path known only by its length (curved guide) + straight secondary path *)
Definition env_L1_secondary (l1 smp pos : val O) : env O := [("L1", l1); ("sample_position", smp); ("position", pos)].
(* the incident beam given as a vector + sample and detector positions *)
Definition env_beam_secondary (b1 smp pos : val O) : env O :=
  [("incident_beam", b1); ("sample_position", smp); ("position", pos)].
Definition env_primary_beam (src smp b2 : val O) : env O :=
  [("source_position", src); ("sample_position", smp); ("scattered_beam", b2)].
End N.

(* ---- what each quantity is defined from *)
Fixpoint needs (fuel : nat) (scatter : bool) (have : list string) (q : string) : list string :=
  if has have q then []
  else match fuel with
       | 0%nat => [q]
       | S f =>
           let nd := needs f scatter have in
           if String.eqb q "incident_beam" then nd "sample_position" ++ nd "source_position"
           else if String.eqb q "scattered_beam" then nd "position" ++ nd "sample_position"
           else if String.eqb q "L1" then nd "incident_beam"
           else if String.eqb q "L2" then nd "scattered_beam"
           else if String.eqb q "two_theta" then nd "incident_beam" ++ nd "scattered_beam"
           else if String.eqb q "Ltotal" then
             (if scatter then nd "L1" ++ nd "L2" else nd "position" ++ nd "source_position")
           else [q]           (* position, source_position, sample_position: only from the data *)
       end.

Definition subset (a b : list string) : bool := forallb (has b) a.
Definition same_set (a b : list string) : bool := subset a b && subset b a.

(* every combination of carried coordinates *)
Definition COORDS : list string :=
  ["source_position"; "sample_position"; "position"; "incident_beam"; "scattered_beam"; "L1"; "L2"; "Ltotal"; "two_theta"].
Fixpoint subsets (l : list string) : list (list string) :=
  match l with
  | [] => [[]]
  | x :: r => let s := subsets r in s ++ map (cons x) s
  end.
