(* C03/Graph.v — model of a coordinate-transformation graph as conversion/graph/beamline.py builds
   them and as sc.transform_coords resolves them: a graph is a finite map  node name -> kernel,
   a kernel takes its operands BY PARAMETER NAME; to obtain a coordinate, a name that the data
   already carries is taken from the data (existing coordinates win over rules — probed on scipp
   25.x with data arrays that carry incident_beam / scattered_beam), otherwise the rule of the graph
   is applied to the (recursively obtained) operands; a name with neither is a KeyError.
   The graphs themselves (Run.GenGraph) are regenerated on every run from the dictionaries the
   CURRENT graph module returns; the kernels are the terms regenerated from conversion/beamline.py.
   Definitions only (no proofs here). *)
From Coq Require Import String List.
From Verif.Sem Require Import Field Val.
Import ListNotations.
Open Scope string_scope.

Section G.
Variable O : Fops.

Inductive kern :=
| K1 (f : val O -> val O) (a : string)
| K2 (f : val O -> val O -> val O) (a b : string)
| KUnknown (what : string).      (* a callable that is not one of the translated kernels: fail closed *)

Definition graph := list (string * kern).
Definition env := list (string * val O).

Fixpoint lookup {A : Type} (l : list (string * A)) (k : string) : option A :=
  match l with
  | [] => None
  | (k', v) :: r => if String.eqb k k' then Some v else lookup r k
  end.

Fixpoint resolve (fuel : nat) (g : graph) (e : env) (name : string) : val O :=
  match lookup e name with
  | Some v => v
  | None =>
      match fuel with
      | 0%nat => VErr O "graph-depth"
      | S f =>
          match lookup g name with
          | None => VErr O "KeyError"
          | Some (K1 fn a) => fn (resolve f g e a)
          | Some (K2 fn a b) => fn (resolve f g e a) (resolve f g e b)
          | Some (KUnknown w) => VErr O ("unknown-kernel:" ++ w)
          end
      end
  end.

(* the coordinates of a straight beamline given by its three positions *)
Definition env3 (src smp pos : val O) : env :=
  [("source_position", src); ("sample_position", smp); ("position", pos)].
(* ... or by its two beams *)
Definition env_beams (b1 b2 : val O) : env := [("incident_beam", b1); ("scattered_beam", b2)].

Definition nodes (g : graph) : list string := map fst g.
End G.
