(* C03/AbsAccuracy.v — ABSOLUTE-error analysis of Kahan's two_theta kernel
   (beamline.py:two_theta:  b1 = a/|a|, b2 = b/|b|, y = |b1-b2|, x = |b1+b2|, 2*atan2(y,x)).

   The relative conditioning lemma of Vec3.v (kahan_conditioning_3eps) does not apply to
   nearly parallel (antiparallel) beams: there y (x) is the norm of a difference of nearly
   equal vectors and its rounding error is ABSOLUTE (a few u), not relative.  This file
   closes that gap:

   1. kahan_abs_conditioning: for x, y >= 0 on the circle x^2 + y^2 = 4 (exact for unit
      vectors) ABSOLUTE perturbations of x and y by at most d move the angle 2*atan2(y,x) by at
      most (8/5) d (d <= 1/8), resp. (71/50) d (d <= 1/1000; sqrt 2 = 1.4142.. is optimal).
   2. Under the standard model of floating-point arithmetic (Section StdModel: every
      + - * / sqrt returns exact*(1+delta), |delta| <= u, i.e. no overflow/underflow):
      fl_norm has relative error <= 2.52 u; the computed unit vector is within 3.53 u
      (Euclidean norm, and componentwise RELATIVE) of the exact one; the computed x~, y~ are
      within 14.11 u (ABSOLUTE) of x = |e1+e2|, y = |e1-e2|, whatever the angle.
   3. two_theta_abs_accuracy: with atan2 returning its value with relative error <= ua (oracle),
      |computed - angle a b| <= 20.04 u + 3.15 ua  for ALL non-zero a, b; with ua = u: 23.2 u
      (binary64: 23.2 * 2^-53 = 2.58e-15 rad).  Instance: Flocq's round-to-nearest-even binary64
      with unbounded exponent range (Sem/FlInst.rnd) satisfies the Section hypotheses. *)
From Coq Require Import Reals Lra Psatz.
From Verif.Sem Require Import RInst.
From Verif.Vec Require Import Vec3.
Open Scope R_scope.

(* ------------------------------------------------------------------ small real lemmas *)
Lemma Rabs_bounds t e : Rabs t <= e -> - e <= t <= e.
Proof. intros H; unfold Rabs in H; destruct (Rcase_abs t); lra. Qed.

Lemma prod_bounds a lo hi f fl fh :
  0 <= lo -> lo <= a <= hi -> 0 <= fl -> fl <= f <= fh -> lo * fl <= a * f <= hi * fh.
Proof. intros H0 [H1 H2] H3 [H4 H5]. split; apply Rmult_le_compat; lra. Qed.

Lemma PI_lt_3143 : PI < 3143 / 1000.
Proof.
  pose proof (PI_2_3_7_ineq 1) as [_ H].
  unfold sum_f_R0, tg_alt, PI_2_3_7_tg, Ratan_seq in H. simpl in H. lra.
Qed.

Lemma atan_le_pos z : 0 <= z -> 0 <= atan z <= z.
Proof.
  intros [Hz|Hz]; [|subst; rewrite atan_0; lra].
  destruct (atan_mvt 0 z Hz) as (c & Hc & E). rewrite atan_0, !Rminus_0_r in E.
  rewrite E. assert (0 < 1 + c * c) by nra. split.
  - apply Rlt_le, Rdiv_lt_0_compat; lra.
  - apply Rmult_le_reg_r with (1 + c * c); [lra|].
    unfold Rdiv; rewrite Rmult_assoc, Rinv_l by lra. nra.
Qed.
Lemma atan_abs_le z : Rabs (atan z) <= Rabs z.
Proof.
  destruct (Rle_dec 0 z) as [Hz|Hz].
  - pose proof (atan_le_pos z Hz). rewrite !Rabs_pos_eq by lra. lra.
  - assert (Hz' : 0 <= - z) by lra. pose proof (atan_le_pos _ Hz') as H. rewrite atan_opp in H.
    rewrite (Rabs_left1 z) by lra. rewrite Rabs_left1 by lra. lra.
Qed.

(* ------------------------------------------------------------------ 1. absolute conditioning *)
(* the difference of two atan2 values as ONE arctangent (cross product over dot product), for
   (x,y) in the closed first quadrant and (x',y') in the open half plane around it *)
Lemma atan2_diff_atan y x y' x' :
  (x <> 0 \/ y <> 0) -> (x' <> 0 \/ y' <> 0) -> 0 <= x -> 0 <= y -> 0 < x' * x + y' * y ->
  atan2 y' x' - atan2 y x = atan ((y' * x - x' * y) / (x' * x + y' * y)).
Proof.
  intros NZ NZ' Hx Hy HB. pose proof PI_RGT_0 as HPI.
  pose proof (hyp_pos x y NZ) as Hr. pose proof (hyp_pos x' y' NZ') as Hr'.
  pose proof (atan2_cos _ _ NZ) as C. pose proof (atan2_sin _ _ NZ) as S.
  pose proof (atan2_cos _ _ NZ') as C'. pose proof (atan2_sin _ _ NZ') as S'.
  pose proof (atan2_quadrant1 _ _ Hx Hy) as Q. pose proof (atan2_range y' x') as Rg.
  set (r := sqrt (x * x + y * y)) in *. set (r' := sqrt (x' * x' + y' * y')) in *.
  set (t := atan2 y x) in *. set (t' := atan2 y' x') in *.
  assert (Ec : (r * r') * cos (t' - t) = x' * x + y' * y).
  { rewrite cos_minus.
    replace (x' * x + y' * y) with ((r' * cos t') * (r * cos t) + (r' * sin t') * (r * sin t))
      by (rewrite C, S, C', S'; ring). ring. }
  assert (Es : (r * r') * sin (t' - t) = y' * x - x' * y).
  { rewrite sin_minus.
    replace (y' * x - x' * y) with ((r' * sin t') * (r * cos t) - (r' * cos t') * (r * sin t))
      by (rewrite C, S, C', S'; ring). ring. }
  assert (HP : 0 < r * r') by (apply Rmult_lt_0_compat; assumption).
  set (P := r * r') in *.
  assert (Hc : 0 < cos (t' - t)) by nra.
  assert (Hs : - (PI / 2) < t' - t < PI / 2).
  { split.
    - destruct (Rlt_dec (- (PI / 2)) (t' - t)) as [L|L]; [exact L|exfalso].
      assert (cos (t' - t) <= 0) by (rewrite <- cos_neg; apply cos_le_0; lra). lra.
    - destruct (Rlt_dec (t' - t) (PI / 2)) as [L|L]; [exact L|exfalso].
      assert (cos (t' - t) <= 0) by (apply cos_le_0; lra). lra. }
  rewrite <- (atan_tan _ Hs). f_equal. unfold tan. rewrite <- Ec, <- Es. field. lra.
Qed.

(* general form: the change of the angle is at most 2 d (x+y) / (4 - d (x+y)) *)
Lemma kahan_abs_conditioning_gen x y x' y' d :
  0 <= x -> 0 <= y -> x * x + y * y = 4 -> 0 <= d <= 1 -> Rabs (x' - x) <= d -> Rabs (y' - y) <= d ->
  Rabs (2 * atan2 y' x' - 2 * atan2 y x) <= 2 * (d * (x + y)) / (4 - d * (x + y)).
Proof.
  intros Hx Hy H4 Hd Dx Dy. apply Rabs_bounds in Dx. apply Rabs_bounds in Dy.
  assert (Hs8 : (x + y) * (x + y) <= 8) by (pose proof (Rle_0_sqr (x - y)) as SQ; unfold Rsqr in SQ; lra).
  assert (Hs : x + y <= 3) by nra.
  assert (Hds : 0 <= d * (x + y) <= 3) by (split; [apply Rmult_le_pos; lra | nra]).
  set (s := x + y) in *.
  assert (HB : 4 - d * s <= x' * x + y' * y).
  { replace (x' * x + y' * y) with (x * x + y * y + ((x' - x) * x + (y' - y) * y)) by ring.
    unfold s. nra. }
  assert (HA : Rabs (y' * x - x' * y) <= d * s).
  { replace (y' * x - x' * y) with ((y' - y) * x - (x' - x) * y) by ring.
    apply Rabs_le. unfold s. split; nra. }
  assert (NZ : x <> 0 \/ y <> 0).
  { destruct (Req_dec x 0) as [E|E]; [right; intros E'; subst; lra | left; exact E]. }
  assert (NZ' : x' <> 0 \/ y' <> 0).
  { destruct (Req_dec x' 0) as [E|E]; [right; intros E'; subst; lra | left; exact E]. }
  assert (HB0 : 0 < x' * x + y' * y) by lra.
  replace (2 * atan2 y' x' - 2 * atan2 y x) with (2 * (atan2 y' x' - atan2 y x)) by ring.
  rewrite (atan2_diff_atan y x y' x' NZ NZ' Hx Hy HB0).
  rewrite Rabs_mult, (Rabs_pos_eq 2) by lra.
  replace (2 * (d * s) / (4 - d * s)) with (2 * ((d * s) / (4 - d * s))) by (field; lra).
  apply Rmult_le_compat_l; [lra|].
  eapply Rle_trans; [apply atan_abs_le|].
  unfold Rdiv. rewrite Rabs_mult, Rabs_inv, (Rabs_pos_eq (x' * x + y' * y)) by lra.
  apply Rmult_le_compat; [apply Rabs_pos | apply Rlt_le, Rinv_0_lt_compat; lra | exact HA |].
  apply Rinv_le_contravar; lra.
Qed.

Lemma xy_sum_bound x y : 0 <= x -> 0 <= y -> x * x + y * y = 4 -> x + y <= 28285 / 10000.
Proof.
  intros Hx Hy H4.
  assert (Hs8 : (x + y) * (x + y) <= 8) by (pose proof (Rle_0_sqr (x - y)) as SQ; unfold Rsqr in SQ; lra).
  nra.
Qed.

Lemma kahan_abs_conditioning x y x' y' d :
  0 <= x -> 0 <= y -> x * x + y * y = 4 -> 0 <= d <= 1 / 8 -> Rabs (x' - x) <= d -> Rabs (y' - y) <= d ->
  Rabs (2 * atan2 y' x' - 2 * atan2 y x) <= 8 / 5 * d.
Proof.
  intros Hx Hy H4 Hd Dx Dy.
  eapply Rle_trans; [apply kahan_abs_conditioning_gen; try eassumption; lra|].
  pose proof (xy_sum_bound x y Hx Hy H4) as Hs. set (s := x + y) in *. assert (0 <= s) by (unfold s; lra).
  assert (0 <= d * s <= 1 / 8 * (28285 / 10000)) by nra.
  apply Rmult_le_reg_r with (4 - d * s); [lra|].
  unfold Rdiv; rewrite Rmult_assoc, Rinv_l, Rmult_1_r by lra.
  assert (d * (d * s) <= d * (1 / 8 * (28285 / 10000))) by (apply Rmult_le_compat_l; lra).
  assert (d * s <= d * (28285 / 10000)) by (apply Rmult_le_compat_l; lra).
  nra.
Qed.

Lemma kahan_abs_conditioning_small x y x' y' d :
  0 <= x -> 0 <= y -> x * x + y * y = 4 -> 0 <= d <= 1 / 1000 -> Rabs (x' - x) <= d -> Rabs (y' - y) <= d ->
  Rabs (2 * atan2 y' x' - 2 * atan2 y x) <= 71 / 50 * d.
Proof.
  intros Hx Hy H4 Hd Dx Dy.
  eapply Rle_trans; [apply kahan_abs_conditioning_gen; try eassumption; lra|].
  pose proof (xy_sum_bound x y Hx Hy H4) as Hs. set (s := x + y) in *. assert (0 <= s) by (unfold s; lra).
  assert (0 <= d * s <= 1 / 1000 * (28285 / 10000)) by nra.
  apply Rmult_le_reg_r with (4 - d * s); [lra|].
  unfold Rdiv; rewrite Rmult_assoc, Rinv_l, Rmult_1_r by lra.
  assert (d * (d * s) <= d * (1 / 1000 * (28285 / 10000))) by (apply Rmult_le_compat_l; lra).
  assert (d * s <= d * (28285 / 10000)) by (apply Rmult_le_compat_l; lra).
  nra.
Qed.

(* ------------------------------------------------------------------ Euclidean norm: triangle inequalities *)
Lemma dot_le_norms a b : dot a b <= norm a * norm b.
Proof.
  pose proof (cauchy_schwarz a b) as CS. rewrite <- (norm_sq a), <- (norm_sq b) in CS.
  pose proof (norm_nonneg a); pose proof (norm_nonneg b).
  assert (0 <= norm a * norm b) by (apply Rmult_le_pos; assumption).
  set (p := norm a * norm b) in *. set (q := dot a b) in *.
  assert (q * q <= p * p) by (unfold p; nra). nra.
Qed.
Lemma norm_triangle a b : norm (vplus a b) <= norm a + norm b.
Proof.
  pose proof (norm_nonneg a); pose proof (norm_nonneg b).
  rewrite <- (sqrt_square (norm a + norm b)) by lra. unfold norm at 1. apply sqrt_le_1_alt.
  replace (dot (vplus a b) (vplus a b)) with (dot a a + 2 * dot a b + dot b b) by (unfold dot, vplus; simpl; ring).
  pose proof (dot_le_norms a b). pose proof (norm_sq a). pose proof (norm_sq b). nra.
Qed.
Lemma norm_triangle_minus a b : norm (vminus a b) <= norm a + norm b.
Proof.
  replace (vminus a b) with (vplus a (vopp b)) by vec_ring.
  eapply Rle_trans; [apply norm_triangle|]. rewrite norm_vopp. lra.
Qed.
Lemma norm_diff_bound a b : Rabs (norm a - norm b) <= norm (vminus a b).
Proof.
  assert (A : norm a <= norm b + norm (vminus a b)).
  { replace a with (vplus b (vminus a b)) at 1 by (destruct a, b; vec_ring). apply norm_triangle. }
  assert (B : norm b <= norm a + norm (vminus a b)).
  { rewrite (norm_vminus_sym a b).
    replace b with (vplus a (vminus b a)) at 1 by (destruct a, b; vec_ring). apply norm_triangle. }
  apply Rabs_le; lra.
Qed.
Lemma sq_dom a b k : 0 <= k -> Rabs a <= k * Rabs b -> a * a <= k * k * (b * b).
Proof.
  intros Hk H. pose proof (Rabs_pos a); pose proof (Rabs_pos b).
  replace (a * a) with (Rabs a * Rabs a) by (unfold Rabs; destruct (Rcase_abs a); ring).
  replace (b * b) with (Rabs b * Rabs b) by (unfold Rabs; destruct (Rcase_abs b); ring).
  assert (0 <= k * Rabs b) by (apply Rmult_le_pos; lra).
  replace (k * k * (Rabs b * Rabs b)) with ((k * Rabs b) * (k * Rabs b)) by ring.
  apply Rmult_le_compat; lra.
Qed.
(* componentwise |w_i| <= k |v_i|  ==>  |w| <= k |v| *)
Lemma norm_dom w v k : 0 <= k ->
  Rabs (vx w) <= k * Rabs (vx v) -> Rabs (vy w) <= k * Rabs (vy v) -> Rabs (vz w) <= k * Rabs (vz v) ->
  norm w <= k * norm v.
Proof.
  intros Hk H1 H2 H3. pose proof (norm_nonneg v).
  rewrite <- (sqrt_square (k * norm v)) by (apply Rmult_le_pos; lra). unfold norm at 1. apply sqrt_le_1_alt.
  replace (k * norm v * (k * norm v)) with (k * k * (norm v * norm v)) by ring. rewrite norm_sq.
  pose proof (sq_dom _ _ _ Hk H1). pose proof (sq_dom _ _ _ Hk H2). pose proof (sq_dom _ _ _ Hk H3).
  unfold dot. lra.
Qed.
(* componentwise absolute bound m  ==>  |w| <= sqrt 3 * m *)
Lemma norm_le_comp w m : 0 <= m -> Rabs (vx w) <= m -> Rabs (vy w) <= m -> Rabs (vz w) <= m ->
  norm w <= sqrt 3 * m.
Proof.
  intros Hm H1 H2 H3.
  replace (sqrt 3 * m) with (sqrt 3 * sqrt (m * m)) by (rewrite sqrt_square by lra; ring).
  rewrite <- sqrt_mult by nra. unfold norm. apply sqrt_le_1_alt.
  apply Rabs_bounds in H1. apply Rabs_bounds in H2. apply Rabs_bounds in H3. unfold dot. nra.
Qed.
Lemma unit_norm e : dot e e = 1 -> norm e = 1.
Proof. intros H; unfold norm; rewrite H; apply sqrt_1. Qed.

(* ------------------------------------------------------------------ 2. the standard model *)
Definition g_norm (u : R) := 63 / 25 * u.        (* relative error of a computed 3-norm: 2.52 u *)
Definition a_dir (u : R) := 353 / 100 * u.       (* error of a computed unit vector: 3.53 u *)
Definition b_xy (u : R) := 1411 / 100 * u.       (* absolute error of x~ and y~: 14.11 u *)

Section StdModel.
Variables u ua : R.
Variables fadd fsub fmul fdiv : R -> R -> R.
Variable fsqrt : R -> R.
Variable fatan2 : R -> R -> R.
Hypothesis u_range : 0 <= u <= 1 / 1000000.
Hypothesis ua_range : 0 <= ua <= 1 / 1000.
Hypothesis fadd_model : forall a b, exists d, Rabs d <= u /\ fadd a b = (a + b) * (1 + d).
Hypothesis fsub_model : forall a b, exists d, Rabs d <= u /\ fsub a b = (a - b) * (1 + d).
Hypothesis fmul_model : forall a b, exists d, Rabs d <= u /\ fmul a b = (a * b) * (1 + d).
Hypothesis fdiv_model : forall a b, b <> 0 -> exists d, Rabs d <= u /\ fdiv a b = (a / b) * (1 + d).
Hypothesis fsqrt_model : forall a, 0 <= a -> exists d, Rabs d <= u /\ fsqrt a = sqrt a * (1 + d).
(* oracle: the library atan2 returns the mathematical value with relative error ua *)
Hypothesis fatan2_model : forall y x, exists d, Rabs d <= ua /\ fatan2 y x = atan2 y x * (1 + d).

(* the kernel, operation by operation (sc.norm = sqrt of the sum of the three squares) *)
Definition fl_sumsq (v : vec) : R :=
  fadd (fadd (fmul (vx v) (vx v)) (fmul (vy v) (vy v))) (fmul (vz v) (vz v)).
Definition fl_norm (v : vec) : R := fsqrt (fl_sumsq v).
Definition fl_vdivs (v : vec) (k : R) : vec := mkV (fdiv (vx v) k) (fdiv (vy v) k) (fdiv (vz v) k).
Definition fl_dir (v : vec) : vec := fl_vdivs v (fl_norm v).
Definition fl_vplus (a b : vec) : vec := mkV (fadd (vx a) (vx b)) (fadd (vy a) (vy b)) (fadd (vz a) (vz b)).
Definition fl_vminus (a b : vec) : vec := mkV (fsub (vx a) (vx b)) (fsub (vy a) (vy b)) (fsub (vz a) (vz b)).
(* the final doubling `res *= 2` is exact in binary floating point *)
Definition fl_two_theta (a b : vec) : R :=
  let e1 := fl_dir a in let e2 := fl_dir b in
  let y := fl_norm (fl_vminus e1 e2) in
  let x := fl_norm (fl_vplus e1 e2) in
  2 * fatan2 y x.

Lemma fl_sumsq_bounds v :
  (1 - u) * (1 - u) * (1 - u) * dot v v <= fl_sumsq v <= (1 + u) * (1 + u) * (1 + u) * dot v v.
Proof using u_range fadd_model fmul_model.
  destruct u_range as [U0 U1]. unfold fl_sumsq, dot.
  destruct (fmul_model (vx v) (vx v)) as (d1 & H1 & ->).
  destruct (fmul_model (vy v) (vy v)) as (d2 & H2 & ->).
  destruct (fmul_model (vz v) (vz v)) as (d3 & H3 & ->).
  set (X := vx v * vx v). set (Y := vy v * vy v). set (Z := vz v * vz v).
  destruct (fadd_model (X * (1 + d1)) (Y * (1 + d2))) as (d4 & H4 & ->).
  destruct (fadd_model ((X * (1 + d1) + Y * (1 + d2)) * (1 + d4)) (Z * (1 + d3))) as (d5 & H5 & ->).
  apply Rabs_bounds in H1, H2, H3, H4, H5.
  assert (X0 : 0 <= X) by (unfold X; nra). assert (Y0 : 0 <= Y) by (unfold Y; nra).
  assert (Z0 : 0 <= Z) by (unfold Z; nra).
  assert (P1 : X * (1 - u) <= X * (1 + d1) <= X * (1 + u)) by (apply prod_bounds; lra).
  assert (P2 : Y * (1 - u) <= Y * (1 + d2) <= Y * (1 + u)) by (apply prod_bounds; lra).
  assert (P3 : Z * (1 - u) <= Z * (1 + d3) <= Z * (1 + u)) by (apply prod_bounds; lra).
  assert (W0 : 0 <= (X + Y) * (1 - u)) by (apply Rmult_le_pos; lra).
  assert (Q : (X + Y) * (1 - u) * (1 - u) <= (X * (1 + d1) + Y * (1 + d2)) * (1 + d4) <= (X + Y) * (1 + u) * (1 + u)).
  { apply prod_bounds; lra. }
  assert (Zl : 0 <= Z * (1 - u) * u) by (apply Rmult_le_pos; [apply Rmult_le_pos|]; lra).
  assert (Zh : 0 <= Z * (1 + u) * u) by (apply Rmult_le_pos; [apply Rmult_le_pos|]; lra).
  assert (R1 : (X + Y + Z) * (1 - u) * (1 - u)
               <= (X * (1 + d1) + Y * (1 + d2)) * (1 + d4) + Z * (1 + d3)
               <= (X + Y + Z) * (1 + u) * (1 + u)) by lra.
  assert (S0 : 0 <= (X + Y + Z) * (1 - u) * (1 - u)) by (apply Rmult_le_pos; [apply Rmult_le_pos|]; lra).
  pose proof (prod_bounds _ _ _ (1 + d5) (1 - u) (1 + u) S0 R1 ltac:(lra) ltac:(lra)) as F.
  split; lra.
Qed.

Lemma fl_norm_bounds v : (1 - g_norm u) * norm v <= fl_norm v <= (1 + g_norm u) * norm v.
Proof using u_range fadd_model fmul_model fsqrt_model.
  pose proof (fl_sumsq_bounds v) as [L H]. destruct u_range as [U0 U1].
  pose proof (norm_nonneg v) as N0. pose proof (norm_sq v) as NS. pose proof (dot_self_nonneg v) as S0.
  unfold fl_norm, g_norm.
  set (n := norm v) in *. set (S := dot v v) in *. set (T := fl_sumsq v) in *.
  assert (T0 : 0 <= T).
  { eapply Rle_trans; [|exact L]. apply Rmult_le_pos; [|exact S0].
    apply Rmult_le_pos; [apply Rmult_le_pos|]; lra. }
  destruct (fsqrt_model T T0) as (d6 & H6 & ->). apply Rabs_bounds in H6.
  assert (PL : (1 - 151 / 100 * u) * (1 - 151 / 100 * u) <= (1 - u) * (1 - u) * (1 - u)) by nra.
  assert (PH : (1 + u) * (1 + u) * (1 + u) <= (1 + 151 / 100 * u) * (1 + 151 / 100 * u)) by nra.
  assert (NN : 0 <= n * n) by nra.
  assert (A1 : (1 - 151 / 100 * u) * n <= sqrt T <= (1 + 151 / 100 * u) * n).
  { split.
    - rewrite <- (sqrt_square ((1 - 151 / 100 * u) * n)) by (apply Rmult_le_pos; lra).
      apply sqrt_le_1_alt. eapply Rle_trans; [|exact L]. rewrite <- NS.
      replace ((1 - 151 / 100 * u) * n * ((1 - 151 / 100 * u) * n))
        with ((1 - 151 / 100 * u) * (1 - 151 / 100 * u) * (n * n)) by ring.
      apply Rmult_le_compat_r; assumption.
    - rewrite <- (sqrt_square ((1 + 151 / 100 * u) * n)) by (apply Rmult_le_pos; lra).
      apply sqrt_le_1_alt. eapply Rle_trans; [exact H|]. rewrite <- NS.
      replace ((1 + 151 / 100 * u) * n * ((1 + 151 / 100 * u) * n))
        with ((1 + 151 / 100 * u) * (1 + 151 / 100 * u) * (n * n)) by ring.
      apply Rmult_le_compat_r; assumption. }
  assert (L0 : 0 <= (1 - 151 / 100 * u) * n) by (apply Rmult_le_pos; lra).
  pose proof (prod_bounds _ _ _ (1 + d6) (1 - u) (1 + u) L0 A1 ltac:(lra) ltac:(lra)) as A2.
  assert (0 <= n * u) by (apply Rmult_le_pos; lra).
  assert (0 <= n * u * u) by (apply Rmult_le_pos; lra).
  assert (0 <= n * u * (1 / 100 - 151 / 100 * u)) by (apply Rmult_le_pos; lra).
  split; lra.
Qed.

Lemma fl_norm_pos v : v <> v0 -> 0 < fl_norm v.
Proof using u_range fadd_model fmul_model fsqrt_model.
  intros Hv. pose proof (norm_pos v Hv). pose proof (fl_norm_bounds v) as [L _].
  unfold g_norm in L. destruct u_range. eapply Rlt_le_trans; [|exact L]. apply Rmult_lt_0_compat; lra.
Qed.

(* one quotient a / n~ with n~ = n (1 +- g): relative error (g + u) / (1 - g) <= 3.53 u *)
Lemma quot_err a n n' d : 0 < n -> (1 - g_norm u) * n <= n' <= (1 + g_norm u) * n -> - u <= d <= u ->
  Rabs (a / n' * (1 + d) - a / n) <= a_dir u * Rabs (a / n).
Proof using u_range.
  intros Hn [L H] Hd. destruct u_range as [U0 U1]. unfold g_norm, a_dir in *.
  assert (Hn' : 0 < n') by (eapply Rlt_le_trans; [|exact L]; apply Rmult_lt_0_compat; lra).
  replace (a / n' * (1 + d) - a / n) with (a / n * ((n * (1 + d) - n') / n')) by (field; lra).
  rewrite Rabs_mult, Rmult_comm. apply Rmult_le_compat_r; [apply Rabs_pos|].
  assert (0 <= n * u) by (apply Rmult_le_pos; lra).
  assert (0 <= n * u * u) by (apply Rmult_le_pos; lra).
  assert (- (n * u) <= n * d <= n * u) by (split; nra).
  assert (Hu' : 353 / 100 * u * ((1 - 63 / 25 * u) * n) <= 353 / 100 * u * n')
    by (apply Rmult_le_compat_l; lra).
  assert (0 <= n * u * (1 / 100 - 353 / 100 * (63 / 25) * u)) by (apply Rmult_le_pos; lra).
  apply Rabs_le. split.
  - apply Rmult_le_reg_r with n'; [exact Hn'|].
    replace ((n * (1 + d) - n') / n' * n') with (n * (1 + d) - n') by (field; lra). lra.
  - apply Rmult_le_reg_r with n'; [exact Hn'|].
    replace ((n * (1 + d) - n') / n' * n') with (n * (1 + d) - n') by (field; lra). lra.
Qed.

(* normalisation: componentwise RELATIVE error 3.53 u, hence 3.53 u in norm *)
Lemma fl_dir_comp_err a : a <> v0 ->
  Rabs (vx (fl_dir a) - vx (dir a)) <= a_dir u * Rabs (vx (dir a)) /\
  Rabs (vy (fl_dir a) - vy (dir a)) <= a_dir u * Rabs (vy (dir a)) /\
  Rabs (vz (fl_dir a) - vz (dir a)) <= a_dir u * Rabs (vz (dir a)).
Proof using u_range fadd_model fmul_model fsqrt_model fdiv_model.
  intros Ha. pose proof (norm_pos a Ha) as Hn. pose proof (fl_norm_bounds a) as B.
  pose proof (fl_norm_pos a Ha) as Hn'.
  assert (NZ : fl_norm a <> 0) by lra.
  unfold fl_dir, fl_vdivs, dir, vdivs; simpl.
  destruct (fdiv_model (vx a) (fl_norm a) NZ) as (d1 & H1 & ->).
  destruct (fdiv_model (vy a) (fl_norm a) NZ) as (d2 & H2 & ->).
  destruct (fdiv_model (vz a) (fl_norm a) NZ) as (d3 & H3 & ->).
  apply Rabs_bounds in H1, H2, H3.
  repeat split; apply quot_err; assumption.
Qed.
Lemma fl_dir_err a : a <> v0 -> norm (vminus (fl_dir a) (dir a)) <= a_dir u.
Proof using u_range fadd_model fmul_model fsqrt_model fdiv_model.
  intros Ha. destruct (fl_dir_comp_err a Ha) as (H1 & H2 & H3).
  replace (a_dir u) with (a_dir u * norm (dir a)) by (rewrite (unit_norm _ (dir_unit a Ha)); ring).
  apply norm_dom; [unfold a_dir; destruct u_range; lra | exact H1 | exact H2 | exact H3].
Qed.

(* rounded vector sum / difference: each component carries one relative error u *)
Lemma fl_vplus_err p q : norm (vminus (fl_vplus p q) (vplus p q)) <= u * norm (vplus p q).
Proof using u_range fadd_model.
  destruct u_range as [U0 _]. apply norm_dom; [exact U0| | |]; simpl.
  - destruct (fadd_model (vx p) (vx q)) as (d & Hd & ->).
    replace ((vx p + vx q) * (1 + d) - (vx p + vx q)) with (d * (vx p + vx q)) by ring.
    rewrite Rabs_mult. apply Rmult_le_compat_r; [apply Rabs_pos | exact Hd].
  - destruct (fadd_model (vy p) (vy q)) as (d & Hd & ->).
    replace ((vy p + vy q) * (1 + d) - (vy p + vy q)) with (d * (vy p + vy q)) by ring.
    rewrite Rabs_mult. apply Rmult_le_compat_r; [apply Rabs_pos | exact Hd].
  - destruct (fadd_model (vz p) (vz q)) as (d & Hd & ->).
    replace ((vz p + vz q) * (1 + d) - (vz p + vz q)) with (d * (vz p + vz q)) by ring.
    rewrite Rabs_mult. apply Rmult_le_compat_r; [apply Rabs_pos | exact Hd].
Qed.
Lemma fl_vminus_err p q : norm (vminus (fl_vminus p q) (vminus p q)) <= u * norm (vminus p q).
Proof using u_range fsub_model.
  destruct u_range as [U0 _]. apply norm_dom; [exact U0| | |]; simpl.
  - destruct (fsub_model (vx p) (vx q)) as (d & Hd & ->).
    replace ((vx p - vx q) * (1 + d) - (vx p - vx q)) with (d * (vx p - vx q)) by ring.
    rewrite Rabs_mult. apply Rmult_le_compat_r; [apply Rabs_pos | exact Hd].
  - destruct (fsub_model (vy p) (vy q)) as (d & Hd & ->).
    replace ((vy p - vy q) * (1 + d) - (vy p - vy q)) with (d * (vy p - vy q)) by ring.
    rewrite Rabs_mult. apply Rmult_le_compat_r; [apply Rabs_pos | exact Hd].
  - destruct (fsub_model (vz p) (vz q)) as (d & Hd & ->).
    replace ((vz p - vz q) * (1 + d) - (vz p - vz q)) with (d * (vz p - vz q)) by ring.
    rewrite Rabs_mult. apply Rmult_le_compat_r; [apply Rabs_pos | exact Hd].
Qed.

(* computed sum / difference of two approximate unit vectors against the exact one *)
Lemma fl_vplus_abs_err e1 e2 E1 E2 al :
  norm (vminus e1 E1) <= al -> norm (vminus e2 E2) <= al -> norm (vplus E1 E2) <= 2 ->
  norm (vminus (fl_vplus e1 e2) (vplus E1 E2)) <= 2 * al + u * (2 + 2 * al).
Proof using u_range fadd_model.
  intros H1 H2 HW. destruct u_range as [U0 _].
  assert (D : norm (vminus (vplus e1 e2) (vplus E1 E2)) <= 2 * al).
  { replace (vminus (vplus e1 e2) (vplus E1 E2)) with (vplus (vminus e1 E1) (vminus e2 E2)) by vec_ring.
    eapply Rle_trans; [apply norm_triangle|]. lra. }
  assert (N : norm (vplus e1 e2) <= 2 + 2 * al).
  { pose proof (norm_diff_bound (vplus e1 e2) (vplus E1 E2)) as B. apply Rabs_bounds in B. lra. }
  replace (vminus (fl_vplus e1 e2) (vplus E1 E2))
    with (vplus (vminus (fl_vplus e1 e2) (vplus e1 e2)) (vminus (vplus e1 e2) (vplus E1 E2))) by vec_ring.
  eapply Rle_trans; [apply norm_triangle|].
  pose proof (fl_vplus_err e1 e2) as F.
  assert (u * norm (vplus e1 e2) <= u * (2 + 2 * al)) by (apply Rmult_le_compat_l; lra). lra.
Qed.
Lemma fl_vminus_abs_err e1 e2 E1 E2 al :
  norm (vminus e1 E1) <= al -> norm (vminus e2 E2) <= al -> norm (vminus E1 E2) <= 2 ->
  norm (vminus (fl_vminus e1 e2) (vminus E1 E2)) <= 2 * al + u * (2 + 2 * al).
Proof using u_range fsub_model.
  intros H1 H2 HW. destruct u_range as [U0 _].
  assert (D : norm (vminus (vminus e1 e2) (vminus E1 E2)) <= 2 * al).
  { replace (vminus (vminus e1 e2) (vminus E1 E2)) with (vminus (vminus e1 E1) (vminus e2 E2)) by vec_ring.
    eapply Rle_trans; [apply norm_triangle_minus|]. lra. }
  assert (N : norm (vminus e1 e2) <= 2 + 2 * al).
  { pose proof (norm_diff_bound (vminus e1 e2) (vminus E1 E2)) as B. apply Rabs_bounds in B. lra. }
  replace (vminus (fl_vminus e1 e2) (vminus E1 E2))
    with (vplus (vminus (fl_vminus e1 e2) (vminus e1 e2)) (vminus (vminus e1 e2) (vminus E1 E2))) by vec_ring.
  eapply Rle_trans; [apply norm_triangle|].
  pose proof (fl_vminus_err e1 e2) as F.
  assert (u * norm (vminus e1 e2) <= u * (2 + 2 * al)) by (apply Rmult_le_compat_l; lra). lra.
Qed.

(* computed norm of an approximation w of W, |W| <= 2: absolute error g (2 + beta) + beta *)
Lemma fl_norm_abs_err w W beta : norm (vminus w W) <= beta -> norm W <= 2 ->
  Rabs (fl_norm w - norm W) <= g_norm u * (2 + beta) + beta.
Proof using u_range fadd_model fmul_model fsqrt_model.
  intros Hb HW. pose proof (norm_diff_bound w W) as D. apply Rabs_bounds in D.
  pose proof (norm_nonneg w) as N0. pose proof (fl_norm_bounds w) as [L H].
  assert (G0 : 0 <= g_norm u) by (unfold g_norm; destruct u_range; lra).
  assert (G : g_norm u * norm w <= g_norm u * (2 + beta)) by (apply Rmult_le_compat_l; lra).
  apply Rabs_le. split; lra.
Qed.

(* 2. (general form) approximate unit vectors e1~, e2~ within al (Euclidean; componentwise
   absolute errors m give al = sqrt 3 * m by norm_le_comp) give x~, y~ within
   g (2 + beta) + beta of x, y, beta = 2 al + u (2 + 2 al) *)
Lemma fl_xy_abs_err_gen e1 e2 E1 E2 al : dot E1 E1 = 1 -> dot E2 E2 = 1 ->
  norm (vminus e1 E1) <= al -> norm (vminus e2 E2) <= al ->
  let beta := 2 * al + u * (2 + 2 * al) in
  Rabs (fl_norm (fl_vplus e1 e2) - norm (vplus E1 E2)) <= g_norm u * (2 + beta) + beta /\
  Rabs (fl_norm (fl_vminus e1 e2) - norm (vminus E1 E2)) <= g_norm u * (2 + beta) + beta.
Proof using u_range fadd_model fsub_model fmul_model fsqrt_model.
  intros U1 U2 H1 H2 beta.
  assert (WP : norm (vplus E1 E2) <= 2).
  { eapply Rle_trans; [apply norm_triangle|]. rewrite !unit_norm by assumption. lra. }
  assert (WM : norm (vminus E1 E2) <= 2).
  { eapply Rle_trans; [apply norm_triangle_minus|]. rewrite !unit_norm by assumption. lra. }
  split.
  - apply fl_norm_abs_err; [|exact WP]. apply fl_vplus_abs_err; assumption.
  - apply fl_norm_abs_err; [|exact WM]. apply fl_vminus_abs_err; assumption.
Qed.

(* 2. (the kernel) x~ = fl|e1~ + e2~|, y~ = fl|e1~ - e2~| are within 14.11 u of |e1+e2|, |e1-e2| *)
Lemma fl_xy_abs_err a b : a <> v0 -> b <> v0 ->
  Rabs (fl_norm (fl_vplus (fl_dir a) (fl_dir b)) - norm (vplus (dir a) (dir b))) <= b_xy u /\
  Rabs (fl_norm (fl_vminus (fl_dir a) (fl_dir b)) - norm (vminus (dir a) (dir b))) <= b_xy u.
Proof using u_range fadd_model fsub_model fmul_model fdiv_model fsqrt_model.
  intros Ha Hb.
  pose proof (fl_xy_abs_err_gen _ _ _ _ (a_dir u) (dir_unit a Ha) (dir_unit b Hb)
                (fl_dir_err a Ha) (fl_dir_err b Hb)) as H.
  cbv zeta in H. destruct u_range as [U0 U1].
  assert (B : g_norm u * (2 + (2 * a_dir u + u * (2 + 2 * a_dir u))) + (2 * a_dir u + u * (2 + 2 * a_dir u)) <= b_xy u).
  { unfold g_norm, a_dir, b_xy. nra. }
  destruct H as [HX HY]. split; eapply Rle_trans; eassumption.
Qed.

(* ------------------------------------------------------------------ 3. the whole kernel *)
Theorem two_theta_abs_accuracy_gen a b : a <> v0 -> b <> v0 ->
  Rabs (fl_two_theta a b - angle a b) <= 501 / 25 * u + 63 / 20 * ua.
Proof using u_range ua_range fadd_model fsub_model fmul_model fdiv_model fsqrt_model fatan2_model.
  intros Ha Hb. destruct u_range as [U0 U1]. destruct ua_range as [A0 A1].
  pose proof (dir_unit a Ha) as Ua. pose proof (dir_unit b Hb) as Ub.
  pose proof (fl_xy_abs_err a b Ha Hb) as [EX EY].
  pose proof (kahan_norm a b Ha Hb) as K.
  unfold fl_two_theta. cbv zeta.
  set (xt := fl_norm (fl_vplus (fl_dir a) (fl_dir b))) in *.
  set (yt := fl_norm (fl_vminus (fl_dir a) (fl_dir b))) in *.
  assert (XY : norm (vplus (dir a) (dir b)) * norm (vplus (dir a) (dir b))
             + norm (vminus (dir a) (dir b)) * norm (vminus (dir a) (dir b)) = 4).
  { rewrite !norm_sq, unit_sum_sq, unit_diff_sq by assumption. ring. }
  set (X := norm (vplus (dir a) (dir b))) in *. set (Y := norm (vminus (dir a) (dir b))) in *.
  unfold b_xy in EX, EY.
  pose proof (kahan_abs_conditioning_small X Y xt yt (1411 / 100 * u)
                (norm_nonneg _) (norm_nonneg _) XY ltac:(lra) EX EY) as C.
  rewrite K in C. pose proof (angle_range a b) as [R0 R1]. pose proof PI_lt_3143 as HPI.
  destruct (fatan2_model yt xt) as (da & Hda & ->).
  set (T' := 2 * atan2 yt xt) in *.
  replace (2 * (atan2 yt xt * (1 + da)) - angle a b) with ((T' - angle a b) + T' * da) by (unfold T'; ring).
  eapply Rle_trans; [apply Rabs_triang|].
  assert (HT : Rabs T' <= 3143 / 1000 + 71 / 50 * (1411 / 100 * u)).
  { replace T' with ((T' - angle a b) + angle a b) by ring.
    eapply Rle_trans; [apply Rabs_triang|]. rewrite (Rabs_pos_eq (angle a b)) by lra. lra. }
  rewrite Rabs_mult.
  assert (Rabs T' * Rabs da <= (3143 / 1000 + 71 / 50 * (1411 / 100 * u)) * ua).
  { apply Rmult_le_compat; try apply Rabs_pos; assumption. }
  assert (u * ua <= 1 / 1000000 * ua) by (apply Rmult_le_compat_r; lra).
  lra.
Qed.
End StdModel.

(* 3. atan2 as accurate as the arithmetic (ua = u): 23.2 u, for u up to 1e-6
   (binary64: u = 2^-53, 23.2 u = 2.58e-15; binary32: u = 2^-24, 1.39e-6) *)
Theorem two_theta_abs_accuracy u fadd fsub fmul fdiv fsqrt fatan2 :
  0 <= u <= 1 / 1000000 ->
  (forall a b, exists d, Rabs d <= u /\ fadd a b = (a + b) * (1 + d)) ->
  (forall a b, exists d, Rabs d <= u /\ fsub a b = (a - b) * (1 + d)) ->
  (forall a b, exists d, Rabs d <= u /\ fmul a b = (a * b) * (1 + d)) ->
  (forall a b, b <> 0 -> exists d, Rabs d <= u /\ fdiv a b = (a / b) * (1 + d)) ->
  (forall a, 0 <= a -> exists d, Rabs d <= u /\ fsqrt a = sqrt a * (1 + d)) ->
  (forall y x, exists d, Rabs d <= u /\ fatan2 y x = atan2 y x * (1 + d)) ->
  forall a b, a <> v0 -> b <> v0 ->
  Rabs (fl_two_theta fadd fsub fmul fdiv fsqrt fatan2 a b - angle a b) <= 116 / 5 * u.
Proof.
  intros Hu Ma Ms Mm Md Mq Mt a b Ha Hb.
  pose proof (two_theta_abs_accuracy_gen u u fadd fsub fmul fdiv fsqrt fatan2 Hu ltac:(lra) Ma Ms Mm Md Mq Mt a b Ha Hb).
  lra.
Qed.

(* the same with an atan2 that is only faithful (error below 1 ulp, relative error <= 2 u): 26.4 u
   (binary64: 2.93e-15) *)
Theorem two_theta_abs_accuracy_1ulp u fadd fsub fmul fdiv fsqrt fatan2 :
  0 <= u <= 1 / 1000000 ->
  (forall a b, exists d, Rabs d <= u /\ fadd a b = (a + b) * (1 + d)) ->
  (forall a b, exists d, Rabs d <= u /\ fsub a b = (a - b) * (1 + d)) ->
  (forall a b, exists d, Rabs d <= u /\ fmul a b = (a * b) * (1 + d)) ->
  (forall a b, b <> 0 -> exists d, Rabs d <= u /\ fdiv a b = (a / b) * (1 + d)) ->
  (forall a, 0 <= a -> exists d, Rabs d <= u /\ fsqrt a = sqrt a * (1 + d)) ->
  (forall y x, exists d, Rabs d <= 2 * u /\ fatan2 y x = atan2 y x * (1 + d)) ->
  forall a b, a <> v0 -> b <> v0 ->
  Rabs (fl_two_theta fadd fsub fmul fdiv fsqrt fatan2 a b - angle a b) <= 132 / 5 * u.
Proof.
  intros Hu Ma Ms Mm Md Mq Mt a b Ha Hb.
  pose proof (two_theta_abs_accuracy_gen u (2 * u) fadd fsub fmul fdiv fsqrt fatan2 Hu ltac:(lra) Ma Ms Mm Md Mq Mt a b Ha Hb).
  lra.
Qed.

(* ------------------------------------------------------------------ instance: binary64, round to nearest even *)
(* Flocq's rounding to binary64 precision with unbounded exponent range (FlInst.rnd) satisfies the
   standard model with u = 2^-53 (FlInst.rnd_model = Flocq's relative_error_N_FLX_ex): the Section
   hypotheses are satisfiable by a genuine rounding, not only by exact arithmetic. *)
From Verif.Sem Require Import FlInst.

Lemma u64_val : u64 = / 9007199254740992.
Proof.
  unfold u64. change (Raux.bpow Zaux.radix2 (-53 + 1)) with (/ IZR (Z.pow_pos 2 52)).
  replace (Z.pow_pos 2 52) with 4503599627370496%Z by reflexivity. field.
Qed.

Definition b64_add (a b : R) := rnd (a + b).
Definition b64_sub (a b : R) := rnd (a - b).
Definition b64_mul (a b : R) := rnd (a * b).
Definition b64_div (a b : R) := rnd (a / b).
Definition b64_sqrt (a : R) := rnd (sqrt a).
Definition b64_atan2 (y x : R) := rnd (atan2 y x).   (* a correctly rounded atan2 *)

Theorem two_theta_abs_accuracy_binary64 a b : a <> v0 -> b <> v0 ->
  Rabs (fl_two_theta b64_add b64_sub b64_mul b64_div b64_sqrt b64_atan2 a b - angle a b) <= 116 / 5 * u64
  /\ 116 / 5 * u64 < 258 / 100000000000000000.
Proof.
  intros Ha Hb. split.
  - apply two_theta_abs_accuracy; try assumption.
    + rewrite u64_val. lra.
    + intros x y; apply rnd_model.
    + intros x y; apply rnd_model.
    + intros x y; apply rnd_model.
    + intros x y _; apply rnd_model.
    + intros x _; apply rnd_model.
    + intros x y; apply rnd_model.
  - rewrite u64_val. lra.
Qed.
