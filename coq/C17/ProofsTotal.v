(* C17/ProofsTotal.v — no exception for admissible input (with the point-count guard first):
   fit_peaks returns a list for every behaviour of the optimiser, provided the guesses succeed on
   non-empty input (numpy), curve_fit returns one value per parameter, the background fraction lies
   in [2/5, 1) and the coordinate steps inside a window vary by less than a factor 4. *)
From Coq Require Import QArith Qabs Qround ZArith String List Bool Lia Lqa.
From Verif.C17 Require Import Model Proofs ProofsWindows.
Import ListNotations.
Open Scope Q_scope.

(* ------------------------------------------------------------------ the centre index is interior *)
Lemma argmin_go_bound : forall l i bi b,
  argmin_go l i bi b = bi \/ (i <= argmin_go l i bi b < i + length l)%nat.
Proof.
  induction l as [|v t IH]; intros i bi b; simpl; auto.
  destruct (Qltb v b).
  - destruct (IH (S i) i v) as [H|H]; [right; lia | right; lia].
  - destruct (IH (S i) bi b) as [H|H]; [left; auto | right; lia].
Qed.

Lemma argmin_go_last : forall l i bi b, (bi < i)%nat -> l <> [] ->
  argmin_go l i bi b = (i + length l - 1)%nat ->
  last l 0 < b /\ forall v, In v (removelast l) -> last l 0 < v.
Proof.
  induction l as [|v t IH]; intros i bi b Hbi Hne H; [congruence|].
  destruct t as [|w t'].
  - simpl in *. destruct (Qltb v b) eqn:E.
    + apply Qltb_lt in E. split; auto. intros ? [].
    + lia.
  - assert (Hne' : w :: t' <> []) by discriminate.
    change (argmin_go (v :: w :: t') i bi b)
      with (if Qltb v b then argmin_go (w :: t') (S i) i v else argmin_go (w :: t') (S i) bi b) in H.
    change (last (v :: w :: t') 0) with (last (w :: t') 0).
    change (removelast (v :: w :: t')) with (v :: removelast (w :: t')).
    assert (Hlen : (i + length (v :: w :: t') - 1 = S i + length (w :: t') - 1)%nat) by (simpl; lia).
    rewrite Hlen in H.
    destruct (Qltb v b) eqn:E.
    + apply Qltb_lt in E. destruct (IH (S i) i v (Nat.lt_succ_diag_r i) Hne' H) as [H1 H2].
      split; [lra|]. intros u [<-|Hu]; auto.
    + apply Qltb_false in E. destruct (IH (S i) bi b (Nat.lt_lt_succ_r _ _ Hbi) Hne' H) as [H1 H2].
      split; [auto|]. intros u [<-|Hu]; [lra | auto].
Qed.

Lemma last_app2 : forall {A} (l : list A) a b d, last (l ++ [a; b]) d = b.
Proof. induction l as [|x t IH]; intros; simpl; auto. destruct (t ++ [a; b]) eqn:E; [destruct t; discriminate|]. rewrite <- E. apply IH. Qed.

Lemma removelast_app2 : forall {A} (l : list A) a b, removelast (l ++ [a; b]) = l ++ [a].
Proof. intros. replace (l ++ [a; b]) with ((l ++ [a]) ++ [b]) by (rewrite <- app_assoc; reflexivity). apply removelast_last. Qed.

Lemma argmin_abs_not_last : forall ys a b loc,
  Qabs (a - loc) <= Qabs (b - loc) ->
  (S (argmin_abs (ys ++ [a; b]) loc) < length (ys ++ [a; b]))%nat.
Proof.
  intros ys a b loc Hab. unfold argmin_abs. set (f := fun x => Qabs (x - loc)).
  rewrite map_app. cbn [map]. rewrite app_length; cbn [length].
  destruct ys as [|y ys']; cbn [map app length argmin_go].
  - destruct (Qltb (f b) (f a)) eqn:E; [apply Qltb_lt in E; unfold f in *; lra | lia].
  - set (t := map f ys' ++ [f a; f b]).
    assert (Ht : t <> []) by (unfold t; destruct (map f ys'); discriminate).
    assert (Hlt : length t = (length ys' + 2)%nat) by (unfold t; rewrite app_length, map_length; reflexivity).
    destruct (argmin_go_bound t 1 0 (f y)) as [H|H]; [rewrite H; lia|].
    destruct (Nat.eq_dec (argmin_go t 1 0 (f y)) (1 + length t - 1)) as [Heq|Hne]; [|lia].
    destruct (argmin_go_last t 1 0 (f y) Nat.lt_0_1 Ht Heq) as [_ H2].
    exfalso. unfold t in H2. rewrite last_app2, removelast_app2 in H2.
    specialize (H2 (f a)). assert (f b < f a) by (apply H2; apply in_or_app; right; simpl; auto).
    unfold f in *. lra.
Qed.

Lemma split_last2 : forall {A} (l : list A), (2 <= length l)%nat -> exists ys a b, l = ys ++ [a; b].
Proof.
  intros A l H. destruct (exists_last (l := l)) as [l1 [b Hb]]; [destruct l; simpl in *; [lia|discriminate]|].
  subst l. rewrite app_length in H; simpl in H.
  destruct (exists_last (l := l1)) as [ys [a Ha]]; [destruct l1; simpl in *; [lia|discriminate]|].
  subst l1. exists ys, a, b. rewrite <- app_assoc. reflexivity.
Qed.

Lemma fold_min_le_in : forall t a v, In v (a :: t) -> fold_left (fun m u => if Qltb u m then u else m) t a <= v.
Proof.
  induction t as [|u t IH]; intros a v Hin; simpl.
  - destruct Hin as [<-|[]]; lra.
  - destruct (Qltb u a) eqn:E; [apply Qltb_lt in E | apply Qltb_false in E].
    + destruct Hin as [<-|[<-|Hin]].
      * pose proof (fold_min_le t u). lra.
      * apply IH; left; auto.
      * apply IH; right; auto.
    + destruct Hin as [<-|[<-|Hin]].
      * apply IH; left; auto.
      * pose proof (fold_min_le t a). lra.
      * apply IH; right; auto.
Qed.
Lemma qmin_list_le_in : forall l v, In v l -> qmin_list l <= v.
Proof. intros [|a t] v H; [contradiction|]. apply fold_min_le_in; auto. Qed.

Lemma diffs_app2 : forall ys a b, In (b - a) (diffs (ys ++ [a; b])).
Proof.
  induction ys as [|y t IH]; intros a b; simpl; auto.
  destruct (t ++ [a; b]) eqn:E; [destruct t; discriminate|]. rewrite <- E. right. apply IH.
Qed.

(* the coordinate steps vary by less than a factor 4 ("bins don't normally vary quickly") *)
Definition regular (xs : list Q) : Prop := forall dx, In dx (diffs xs) -> dx < 4 * qmin_list (diffs xs).

Lemma centre_interior : forall xs loc, regular xs -> (2 <= length xs)%nat ->
  2 * qmin_list (diffs xs) <= last_x xs - loc ->
  (S (argmin_abs xs loc) < length xs)%nat.
Proof.
  intros xs loc Hreg Hlen Hedge.
  destruct (split_last2 xs Hlen) as [ys [a [b ->]]].
  apply argmin_abs_not_last.
  unfold last_x in Hedge. rewrite last_app2 in Hedge.
  pose proof (diffs_app2 ys a b) as Hin.
  pose proof (qmin_list_le_in _ _ Hin) as Hmin. pose proof (Hreg _ Hin) as Hmax.
  set (st := qmin_list (diffs (ys ++ [a; b]))) in *.
  assert (Hb : 0 <= b - loc) by lra. rewrite (Qabs_pos (b - loc)) by auto.
  destruct (Qlt_le_dec loc a).
  - rewrite Qabs_pos by lra. lra.
  - rewrite Qabs_neg by lra. lra.
Qed.

(* ------------------------------------------------------------------ the guesses receive points *)
Lemma guess_n_bounds : forall (d : list pt) fp,
  2 # 5 <= guess_background_fraction fp -> guess_background_fraction fp < 1 -> (5 <= length d)%nat ->
  (1 <= guess_n d fp)%nat /\ (2 * guess_n d fp < length d)%nat.
Proof.
  intros d fp Hf0 Hf1 Hd. unfold guess_n, nq.
  set (L := inject_Z (Z.of_nat (length d))). set (q := L * guess_background_fraction fp / 2).
  assert (HL : 5 <= L). { unfold L. rewrite <- (Zle_Qle 5). lia. }
  assert (Hq : q * 2 == L * guess_background_fraction fp) by (unfold q; field).
  clearbody q.
  assert (Hq1 : 1 <= q).
  { assert (0 <= (L - 5) * (guess_background_fraction fp - (2 # 5))) by (apply Qmult_le_0_compat; lra). lra. }
  assert (Hq2 : 2 * q < L).
  { assert (0 < L * (1 - guess_background_fraction fp)) by (apply Qmult_lt_0_compat; lra). lra. }
  pose proof (Qfloor_le q) as Hfl. pose proof (Qfloor_resp_le _ _ Hq1) as Hf1'.
  change (Qfloor 1) with 1%Z in Hf1'.
  assert (Hlt : inject_Z (2 * Qfloor q) < L).
  { rewrite inject_Z_mult. change (inject_Z 2) with 2. lra. }
  unfold L in Hlt. rewrite <- Zlt_Qlt in Hlt. split; lia.
Qed.

Lemma guess_slices_nonempty : forall (d : list pt) fp,
  2 # 5 <= guess_background_fraction fp -> guess_background_fraction fp < 1 -> (5 <= length d)%nat ->
  (py_head (guess_n d fp) d ++ py_tail (guess_n d fp) d)%list <> [] /\ py_mid (guess_n d fp) d <> [].
Proof.
  intros d fp Hf0 Hf1 Hd. destruct (guess_n_bounds d fp Hf0 Hf1 Hd) as [H1 H2].
  set (n := guess_n d fp) in *. split.
  - unfold py_head. destruct d as [|p t]; [simpl in Hd; lia|]. destruct n; [lia|]. simpl. discriminate.
  - unfold py_mid. destruct (Nat.eqb_spec n 0); [lia|].
    intro C. apply (f_equal (@length pt)) in C. rewrite firstn_length, skipn_length in C. simpl in C. lia.
Qed.

(* ------------------------------------------------------------------ totality *)
Definition peak_kind (m : mkind) : Prop := match m with MPeak _ => True | _ => False end.
Definition bkg_kind (m : mkind) : Prop := match m with MPoly d => (1 <= d)%nat | _ => False end.

Lemma n_params_ge5 : forall pk bk, peak_kind pk -> bkg_kind bk -> (5 <= n_params pk bk)%nat.
Proof.
  intros [p|] [|dg] Hp Hb; simpl in *; try contradiction.
  unfold n_params, fm_names. rewrite app_length. unfold param_names at 1. rewrite map_length, seq_length.
  destruct p; cbn [param_names length]; lia.
Qed.

Lemma getp_of_names : forall (popt : params) n, In n (map fst popt) -> exists v, getp n popt = Some v.
Proof.
  induction popt as [|[m v] t IH]; intros n H; simpl in *; [contradiction|].
  destruct (String.eqb_spec m n); eauto. destruct H as [H|H]; [contradiction|]. auto.
Qed.

Section T.
Variable V : variant.
Variable lt : Q -> Q -> bool.
Variable next_up : Q -> Q.
Variable guess : string -> mkind -> list pt -> res params.
Variable curve_fit : fitmodel -> list pt -> params -> bounds -> fit_outcome.
Variable feval : fitmodel -> params -> Q -> Q.
Variable ln : Q -> Q.
Variable chi2cdf : Z -> Q -> Q.
Hypothesis lt_spec : forall a b, lt a b = true <-> a < b.
Hypothesis next_up_gt : forall x, x < next_up x.
(* numpy: the guesses only fail on empty input *)
Hypothesis guess_nonempty : forall pre m d, d <> [] -> exists p, guess pre m d = Ok p.
(* curve_fit returns one optimised value per parameter of the model it was given *)
Hypothesis curve_fit_names : forall fm d p0 b popt, curve_fit fm d p0 b = FitOk popt -> map fst popt = fm_names fm.
Hypothesis HVg : guard_first V = true.

Notation single' := (fit_peak_single_model V lt guess curve_fit feval ln chi2cdf).
Notation fit_peak' := (fit_peak V lt guess curve_fit feval ln chi2cdf).
Notation fit_peaks' := (fit_peaks V lt next_up guess curve_fit feval ln chi2cdf).

Lemma assess_total : forall d pk popt st bkg fr bk,
  peak_kind pk -> map fst popt = fm_names (FSum bk pk) ->
  regular (map px d) -> (2 <= length d)%nat ->
  exists a, assess_fit V lt d pk popt st bkg fr = Ok a.
Proof using lt_spec.
  intros d pk popt st bkg fr bk Hpk Hn Hreg Hlen. unfold assess_fit.
  destruct (match bkg with Some b => xlt lt (aic b) (aic st) | None => false end); eauto.
  destruct (p_fails V lt (p_value st) fr); eauto.
  destruct pk as [p|]; [|contradiction].
  assert (Hloc : exists v, getp "peak_loc" popt = Some v).
  { apply getp_of_names. rewrite Hn. unfold fm_names. apply in_or_app. right. destruct p; simpl; auto. }
  assert (Hsc : exists v, getp "peak_scale" popt = Some v).
  { apply getp_of_names. rewrite Hn. unfold fm_names. apply in_or_app. right. destruct p; simpl; auto 6. }
  destruct Hloc as [loc Hloc]. destruct Hsc as [s Hs]. rewrite Hloc.
  destruct (peak_is_near_edge lt (map px d) loc) eqn:Ee; eauto.
  destruct (curve_points_down lt popt); eauto.
  assert (Hfw : exists fw, fwhm (MPeak p) popt = Some fw) by (unfold fwhm; rewrite Hs; destruct p; eauto).
  destruct Hfw as [fw Hfw]. rewrite Hfw.
  destruct (peak_is_too_wide lt (map px d) fw fr); eauto.
  unfold peak_is_too_narrow, local_bin_width.
  unfold peak_is_near_edge in Ee. apply orb_false_iff in Ee as [_ Ee].
  assert (Hc : (S (argmin_abs (map px d) loc) < length (map px d))%nat).
  { apply centre_interior; auto.
    - rewrite map_length; auto.
    - apply Qnot_lt_le. intro C. apply lt_spec in C. congruence. }
  destruct (nth_error (map px d) (S (argmin_abs (map px d) loc))) eqn:En.
  - simpl. destruct (lt fw _); eauto.
  - apply nth_error_None in En. lia.
Qed.

Theorem single_total : forall d pk bk w fp fr,
  peak_kind pk -> bkg_kind bk ->
  2 # 5 <= guess_background_fraction fp -> guess_background_fraction fp < 1 ->
  regular (map px d) ->
  exists r, single' d pk bk w fp fr = Ok r.
Proof using lt_spec guess_nonempty curve_fit_names HVg.
  intros d pk bk w fp fr Hpk Hbk Hf0 Hf1 Hreg. unfold fit_peak_single_model. rewrite HVg.
  destruct (Nat.ltb_spec (length d) (n_params pk bk)) as [Hlt|Hge]; eauto.
  pose proof (n_params_ge5 pk bk Hpk Hbk) as H5.
  destruct (guess_slices_nonempty d fp Hf0 Hf1 ltac:(lia)) as [G1 G2].
  unfold guess_background, guess_peak.
  destruct (guess_nonempty "bkg_" bk _ G1) as [b0 Hb0]. rewrite Hb0. simpl.
  destruct (guess_nonempty "peak_" pk _ G2) as [p0 Hp0]. rewrite Hp0. simpl.
  unfold fit_core.
  destruct (curve_fit (FSum bk pk) d (b0 ++ p0) _) as [popt|msg] eqn:Ecf; eauto.
  apply curve_fit_names in Ecf.
  destruct (assess_total d pk popt (goodness feval ln chi2cdf d (FSum bk pk) popt)
              (fit_background curve_fit feval ln chi2cdf bk d b0) fr bk Hpk Ecf Hreg ltac:(lia)) as [a Ha].
  rewrite Ha. simpl. eauto.
Qed.

Lemma fit_peak_go_total : forall d w fp fr cands keep,
  (forall p b, In (p, b) cands -> exists r, single' d p b w fp fr = Ok r) ->
  (cands <> [] \/ keep <> None) ->
  exists r, fit_peak_go V lt guess curve_fit feval ln chi2cdf d w cands keep fp fr = Ok r.
Proof.
  intros d w fp fr cands; induction cands as [|[p b] t IH]; intros keep H Hne; simpl.
  - destruct keep; eauto. destruct Hne; congruence.
  - destruct (H p b (or_introl eq_refl)) as [r Hr]. rewrite Hr. simpl.
    destruct (assessment_eqb (r_assess r) success); eauto.
    apply IH; [intros; apply H; right; auto|]. right. destruct keep; discriminate.
Qed.

Theorem fit_peak_total : forall d w bks pks fp fr,
  pks <> [] -> bks <> [] -> Forall peak_kind pks -> Forall bkg_kind bks ->
  2 # 5 <= guess_background_fraction fp -> guess_background_fraction fp < 1 ->
  regular (map px d) ->
  exists r, fit_peak' d w bks pks fp fr = Ok r.
Proof using lt_spec guess_nonempty curve_fit_names HVg.
  intros d w bks pks fp fr Hp Hb HFp HFb Hf0 Hf1 Hreg. unfold fit_peak.
  apply fit_peak_go_total.
  - intros p b Hin. unfold candidates in Hin. apply in_flat_map in Hin as [p' [Hp' Hin]].
    apply in_map_iff in Hin as [b' [Heq Hb']]. inversion Heq; subst.
    apply single_total; auto.
    + rewrite Forall_forall in HFp; auto.
    + rewrite Forall_forall in HFb; auto.
  - left. destruct pks as [|p t]; [congruence|]. destruct bks as [|b t']; [congruence|]. simpl. discriminate.
Qed.

Lemma slice_ok : forall (d : list pt) lo hi, lo <= hi ->
  slice_labels d lo hi = Ok (filter (fun p => in_window lo hi (px p)) d).
Proof.
  intros d lo hi H. unfold slice_labels.
  replace (existsb (fun p => Qle_bool hi (px p) && Qltb (px p) lo) d) with false; auto.
  symmetry. induction d as [|p t IH]; simpl; auto. rewrite IH, orb_false_r.
  destruct (Qle_bool hi (px p)) eqn:E1; simpl; auto.
  destruct (Qltb (px p) lo) eqn:E2; auto.
  apply Qle_bool_iff in E1. apply Qltb_lt in E2. lra.
Qed.

(* exactly one result per window, no exception: explicit windows with w0 <= w1 *)
Theorem fit_peaks_total_explicit : forall d cs ws bspec pspec bks pks fp fr,
  sorted_asc (map px d) = true ->
  parse_model_spec bspec = Ok bks -> parse_model_spec pspec = Ok pks ->
  pks <> [] -> bks <> [] -> Forall peak_kind pks -> Forall bkg_kind bks ->
  2 # 5 <= guess_background_fraction fp -> guess_background_fraction fp < 1 ->
  (forall w, In w ws -> fst w <= snd w) ->
  (forall w, In w ws -> regular (map px (filter (fun p => in_window (fst w) (snd w) (px p)) d))) ->
  exists rs, fit_peaks' d cs (WExplicit ws) bspec pspec fp fr = Ok rs /\ length rs = length ws.
Proof using lt_spec guess_nonempty curve_fit_names HVg.
  intros d cs ws bspec pspec bks pks fp fr Hs Hb Hp Hpn Hbn HFp HFb Hf0 Hf1 Hw Hreg.
  unfold fit_peaks. rewrite Hs. simpl negb. cbv iota. rewrite Hb, Hp. cbn [bind].
  destruct (mapM_total (fun w => dw <- slice_labels d (fst w) (snd w);;
                                 fit_peak' dw w bks pks fp fr) ws) as [rs Hrs].
  - intros w Hin. rewrite slice_ok by auto. cbn [bind]. apply fit_peak_total; auto.
  - exists rs. split; auto. apply mapM_ok in Hrs. symmetry. eapply Forall2_length'; eauto.
Qed.

(* ... and automatically built windows (clip last): one result per ESTIMATE *)
Theorem fit_peaks_total_scalar : clip_last V = true ->
  forall d cs width bspec pspec bks pks fp fr,
  d <> [] -> sorted_asc (map px d) = true -> sorted_asc cs = true -> 0 <= width ->
  0 <= neighbor_separation_factor fp -> neighbor_separation_factor fp <= 1 ->
  parse_model_spec bspec = Ok bks -> parse_model_spec pspec = Ok pks ->
  pks <> [] -> bks <> [] -> Forall peak_kind pks -> Forall bkg_kind bks ->
  2 # 5 <= guess_background_fraction fp -> guess_background_fraction fp < 1 ->
  (forall lo hi, regular (map px (filter (fun p => in_window lo hi (px p)) d))) ->
  exists rs, fit_peaks' d cs (WScalar width) bspec pspec fp fr = Ok rs /\ length rs = length cs.
Proof using lt_spec next_up_gt guess_nonempty curve_fit_names HVg.
  intros HVc d cs width bspec pspec bks pks fp fr Hd Hs Hcs Hw Hs0 Hs1 Hb Hp Hpn Hbn HFp HFb Hf0 Hf1 Hreg.
  destruct (fit_windows V next_up (map px d) cs width fp) as [ws|e] eqn:Ew.
  2:{ unfold fit_windows in Ew. rewrite Hcs in Ew. discriminate. }
  assert (Hxs : map px d <> []) by (destruct d; [congruence | discriminate]).
  destruct (windows_ok V next_up next_up_gt HVc (map px d) cs width fp ws Hxs Hw Hs0 Hs1 Ew) as [Hlen Hok].
  destruct (fit_peaks_total_explicit d cs ws bspec pspec bks pks fp fr) as [rs [Hrs Hl]]; auto.
  - intros w Hin. apply In_nth_error in Hin as [i Hi].
    destruct (Hok i w Hi) as [c [_ [_ [H2 _]]]]. auto.
  - exists rs. split; [|congruence].
    unfold fit_peaks in *. rewrite Hs in *. simpl negb in *. cbv iota in *. rewrite Hb, Hp in *.
    cbn [bind] in *. rewrite Ew. cbn [bind]. exact Hrs.
Qed.

End T.

(* the names the parser accepts give admissible kinds *)
Lemma parse_names_ok :
  parse_model_spec (SOne (SName "linear")) = Ok [MPoly 1] /\
  parse_model_spec (SOne (SName "quadratic")) = Ok [MPoly 2] /\
  parse_model_spec (SMany [SName "gaussian"; SName "lorentzian"; SName "pseudo_voigt"])
    = Ok [MPeak Gaussian; MPeak Lorentzian; MPeak PseudoVoigt].
Proof. repeat split. Qed.
Lemma parse_refuses :
  (exists m, parse_model_spec (SMany []) = Raise (ValueError m)) /\
  (exists m, parse_model_spec (SOne (SName "parabola")) = Raise (ValueError m)).
Proof. split; simpl; eauto. Qed.

(* a uniform grid is regular *)
Example uniform_grid_regular : regular (map px (map (fun i => mkpt (inject_Z (Z.of_nat i)) 1 1) (seq 0 8))).
Proof. intros dx Hin. vm_compute in Hin. repeat (destruct Hin as [<-|Hin]; [vm_compute; reflexivity|]). contradiction. Qed.
