(* C17/QFun.v — natural logarithm of a positive rational to ~1e-40 in 140-bit fixed point
   (used ONLY by the correspondence run to re-derive the AIC inside Coq; no theorem
   depends on it: in the model the logarithm is a Section variable). *)
From Coq Require Import QArith ZArith.
Open Scope Z_scope.

Definition LB : Z := 140.
Definition SC : Z := 2 ^ LB.

(* sum_j z^(2j+1)/(2j+1) for |z| <= 1/3 (fixed point, scale SC) *)
Fixpoint atanh_go (fuel : nat) (j : Z) (pw z2 acc : Z) : Z :=
  match fuel with
  | O => acc
  | S f => atanh_go f (j + 1) (pw * z2 / SC) z2 (acc + pw / (2 * j + 1))
  end.
Definition fx_atanh (z : Z) : Z := atanh_go 50 0 z (z * z / SC) 0.
Definition FX_LN2 : Z := 2 * fx_atanh (SC / 3).

(* ln(n/d) for n > 0: write n/d = m * 2^e with m in (1/2, 2), ln = e ln2 + 2 atanh((m-1)/(m+1)) *)
Definition qln (q : Q) : Q :=
  let n := Qnum q in
  let d := Zpos (Qden q) in
  if n <=? 0 then 0%Q
  else
    let e := Z.log2 n - Z.log2 d in
    let n' := if 0 <=? e then n else n * 2 ^ (- e) in
    let d' := if 0 <=? e then d * 2 ^ e else d in
    let z := (n' - d') * SC / (n' + d') in
    Qred (Qmake (e * FX_LN2 + 2 * fx_atanh z) (Z.to_pos SC)).
