(* C17/Proofs.v — theorems about the model of fit_peaks that hold for EVERY behaviour of the
   oracles (optimiser, guesses, model evaluation, ln, chi-square CDF): result-list shape and
   independence of peaks, the point-count guard, provenance of the statistics, meaning of
   `success`. *)
From Coq Require Import QArith Qabs ZArith String List Bool Lia Lqa.
From Verif.C17 Require Import Model.
Import ListNotations.
Open Scope Q_scope.

(* ------------------------------------------------------------------ generic lemmas *)
Lemma bind_ok : forall {A B} (r : res A) (f : A -> res B) b,
  bind r f = Ok b -> exists a, r = Ok a /\ f a = Ok b.
Proof. intros A B [a|e] f b H; simpl in H; [eauto | discriminate]. Qed.

Lemma mapM_ok : forall {A B} (f : A -> res B) l rs,
  mapM f l = Ok rs -> Forall2 (fun a r => f a = Ok r) l rs.
Proof.
  intros A B f l; induction l as [|a t IH]; intros rs H; simpl in H.
  - inversion H; constructor.
  - apply bind_ok in H as [b [Hb H]]. apply bind_ok in H as [bs [Hbs H]].
    inversion H; subst. constructor; auto.
Qed.

Lemma mapM_total : forall {A B} (f : A -> res B) l,
  (forall a, In a l -> exists b, f a = Ok b) -> exists rs, mapM f l = Ok rs.
Proof.
  intros A B f l; induction l as [|a t IH]; intros H; simpl.
  - eauto.
  - destruct (H a (or_introl eq_refl)) as [b Hb]. rewrite Hb; simpl.
    destruct IH as [bs Hbs]. { intros; apply H; right; auto. }
    rewrite Hbs; simpl; eauto.
Qed.

Lemma Forall2_length' : forall {A B} (R : A -> B -> Prop) l l', Forall2 R l l' -> length l = length l'.
Proof. intros A B R l l' H; induction H; simpl; congruence. Qed.

Lemma Forall2_impl' : forall {A B} (R S : A -> B -> Prop) l l',
  (forall a b, R a b -> S a b) -> Forall2 R l l' -> Forall2 S l l'.
Proof. intros A B R S l l' H F; induction F; constructor; auto. Qed.

Lemma Forall2_nth : forall {A B} (R : A -> B -> Prop) l l' i a,
  Forall2 R l l' -> nth_error l i = Some a -> exists b, nth_error l' i = Some b /\ R a b.
Proof.
  intros A B R l l' i a H; revert i a; induction H; intros i a0 Hn.
  - destruct i; discriminate.
  - destruct i; simpl in *.
    + inversion Hn; subst; eauto.
    + eauto.
Qed.

Lemma Qltb_lt : forall a b, Qltb a b = true <-> a < b.
Proof.
  intros a b; unfold Qltb; rewrite negb_true_iff.
  split; intro H.
  - apply Qnot_le_lt; intro C. apply Qle_bool_iff in C; congruence.
  - destruct (Qle_bool b a) eqn:E; auto. apply Qle_bool_iff in E. exfalso; apply (Qlt_not_le _ _ H E).
Qed.
Lemma Qltb_false : forall a b, Qltb a b = false <-> b <= a.
Proof.
  intros a b; unfold Qltb; rewrite negb_false_iff. apply Qle_bool_iff.
Qed.

Section Thms.
Variable V : variant.
Variable lt : Q -> Q -> bool.
Variable next_up : Q -> Q.
Variable guess : string -> mkind -> list pt -> res params.
Variable curve_fit : fitmodel -> list pt -> params -> bounds -> fit_outcome.
Variable feval : fitmodel -> params -> Q -> Q.
Variable ln : Q -> Q.
Variable chi2cdf : Z -> Q -> Q.

Notation fit_peaks' := (fit_peaks V lt next_up guess curve_fit feval ln chi2cdf).
Notation fit_peak' := (fit_peak V lt guess curve_fit feval ln chi2cdf).
Notation single' := (fit_peak_single_model V lt guess curve_fit feval ln chi2cdf).
Notation core' := (fit_core V lt curve_fit feval ln chi2cdf).
Notation goodness' := (goodness feval ln chi2cdf).
Notation assess' := (assess_fit V lt).

(* ------------------------------------------------------------------ shape of single results *)
Lemma core_fields : forall d pk bk w b0 p0 fr r,
  core' d pk bk w b0 p0 fr = Ok r -> r_window r = w /\ r_peak r = pk /\ r_bkg r = bk.
Proof.
  intros d pk bk w b0 p0 fr r H. unfold fit_core in H.
  destruct (curve_fit (FSum bk pk) d (b0 ++ p0)) as [popt|msg].
  - apply bind_ok in H as [a [_ H]]. inversion H; subst; simpl; auto.
  - inversion H; subst; simpl; auto.
Qed.

Lemma single_fields : forall d pk bk w fp fr r,
  single' d pk bk w fp fr = Ok r -> r_window r = w /\ r_peak r = pk /\ r_bkg r = bk.
Proof.
  intros d pk bk w fp fr r H. unfold fit_peak_single_model in H.
  destruct (guard_first V).
  - destruct (Nat.ltb _ _).
    + inversion H; subst; simpl; auto.
    + apply bind_ok in H as [b0 [_ H]]. apply bind_ok in H as [p0 [_ H]]. eapply core_fields; eauto.
  - apply bind_ok in H as [b0 [_ H]]. apply bind_ok in H as [p0 [_ H]].
    destruct (Nat.ltb _ _).
    + inversion H; subst; simpl; auto.
    + eapply core_fields; eauto.
Qed.

(* _fit_peak returns the result of ONE of the candidate (peak, background) pairs: the first
   successful one in product order, otherwise the first candidate's *)
Lemma fit_peak_go_candidate : forall d w fp fr cands keep r,
  fit_peak_go V lt guess curve_fit feval ln chi2cdf d w cands keep fp fr = Ok r ->
  keep = Some r \/ exists pk bk, In (pk, bk) cands /\ single' d pk bk w fp fr = Ok r.
Proof.
  intros d w fp fr cands; induction cands as [|[pk bk] cs IH]; intros keep r H; simpl in H.
  - destruct keep; inversion H; auto.
  - apply bind_ok in H as [r1 [H1 H]].
    destruct (assessment_eqb (r_assess r1) success).
    + inversion H; subst. right; exists pk, bk; split; simpl; auto.
    + apply IH in H as [H | [pk' [bk' [Hin H]]]].
      * destruct keep; inversion H; subst; auto. right; exists pk, bk; split; simpl; auto.
      * right; exists pk', bk'; split; simpl; auto.
Qed.

Lemma fit_peak_candidate : forall d w bks pks fp fr r,
  fit_peak' d w bks pks fp fr = Ok r ->
  exists pk bk, In pk pks /\ In bk bks /\ single' d pk bk w fp fr = Ok r.
Proof.
  intros d w bks pks fp fr r H. unfold fit_peak in H.
  apply fit_peak_go_candidate in H as [H | [pk [bk [Hin H]]]]; [discriminate|].
  exists pk, bk. unfold candidates in Hin. apply in_flat_map in Hin as [p [Hp Hin]].
  apply in_map_iff in Hin as [b [Heq Hb]]. inversion Heq; subst. auto.
Qed.

(* first success wins, in itertools.product(peaks, backgrounds) order; otherwise the FIRST candidate is kept *)
Lemma fit_peak_go_first_success : forall d w fp fr pre pk bk post keep r,
  (forall p b, In (p, b) pre -> exists r', single' d p b w fp fr = Ok r' /\ r_assess r' <> success) ->
  single' d pk bk w fp fr = Ok r -> r_assess r = success ->
  fit_peak_go V lt guess curve_fit feval ln chi2cdf d w (pre ++ (pk, bk) :: post) keep fp fr = Ok r.
Proof.
  intros d w fp fr pre; induction pre as [|[p b] t IH]; intros pk bk post keep r Hpre Hs Ha; simpl.
  - rewrite Hs; simpl. rewrite Ha; reflexivity.
  - destruct (Hpre p b (or_introl eq_refl)) as [r' [Hr' Hn]]. rewrite Hr'; simpl.
    destruct (assessment_eqb (r_assess r') success) eqn:E.
    + exfalso; apply Hn. destruct (r_assess r'); simpl in E; try discriminate; reflexivity.
    + apply IH; auto. intros; apply Hpre; right; auto.
Qed.

Lemma fit_peak_go_none_success : forall d w fp fr cands keep,
  (forall p b, In (p, b) cands -> exists r', single' d p b w fp fr = Ok r' /\ r_assess r' <> success) ->
  fit_peak_go V lt guess curve_fit feval ln chi2cdf d w cands keep fp fr =
  match keep, cands with
  | Some k, _ => Ok k
  | None, (p, b) :: _ => single' d p b w fp fr
  | None, [] => Raise (Unreachable "no candidate models")
  end.
Proof.
  intros d w fp fr cands; induction cands as [|[p b] t IH]; intros keep H; simpl.
  - destruct keep; reflexivity.
  - destruct (H p b (or_introl eq_refl)) as [r' [Hr' Hn]]. rewrite Hr'; simpl.
    destruct (assessment_eqb (r_assess r') success) eqn:E.
    + exfalso; apply Hn. destruct (r_assess r'); simpl in E; try discriminate; reflexivity.
    + rewrite IH by (intros; apply H; right; auto). destruct keep; reflexivity.
Qed.

(* ------------------------------------------------------------------ one result per estimate, in order *)
Theorem one_result_per_estimate : forall d cs wsp bspec pspec fp fr rs,
  fit_peaks' d cs wsp bspec pspec fp fr = Ok rs ->
  exists bks pks ws,
    parse_model_spec bspec = Ok bks /\ parse_model_spec pspec = Ok pks /\
    match wsp with
    | WScalar width => fit_windows V next_up (map px d) cs width fp = Ok ws /\ length ws = length cs
    | WExplicit l => ws = l
    end /\
    length rs = length ws /\
    Forall2 (fun w r => r_window r = w /\
                        exists dw, slice_labels d (fst w) (snd w) = Ok dw /\
                                   fit_peak' dw w bks pks fp fr = Ok r) ws rs.
Proof.
  intros d cs wsp bspec pspec fp fr rs H. unfold fit_peaks in H.
  destruct (negb (sorted_asc (map px d))); [discriminate|].
  apply bind_ok in H as [bks [Hb H]]. apply bind_ok in H as [pks [Hp H]].
  apply bind_ok in H as [ws [Hw H]]. apply mapM_ok in H.
  exists bks, pks, ws. repeat split; auto.
  - destruct wsp as [width|l].
    + split; auto. unfold fit_windows in Hw. destruct (negb (sorted_asc cs)); [discriminate|].
      inversion Hw; subst. clear. generalize (@None Q).
      induction cs; intros; simpl; auto.
    + inversion Hw; auto.
  - symmetry; eapply Forall2_length'; eauto.
  - eapply Forall2_impl'; [|exact H]. intros w r Hr; simpl in Hr.
    apply bind_ok in Hr as [dw [Hs Hf]]. split.
    + apply fit_peak_candidate in Hf as [pk [bk [_ [_ Hf]]]]. apply single_fields in Hf; tauto.
    + eauto.
Qed.

(* result i is a function of (data inside window i, window i, models, parameters) only: whatever the rest
   of the data looks like and whatever the oracles do for the other peaks (including RuntimeError) *)
Corollary peak_independence : forall d d' cs cs' ws bspec pspec fp fr rs rs' i w,
  fit_peaks' d cs (WExplicit ws) bspec pspec fp fr = Ok rs ->
  fit_peaks' d' cs' (WExplicit ws) bspec pspec fp fr = Ok rs' ->
  nth_error ws i = Some w ->
  slice_labels d (fst w) (snd w) = slice_labels d' (fst w) (snd w) ->
  nth_error rs i = nth_error rs' i.
Proof.
  intros d d' cs cs' ws bspec pspec fp fr rs rs' i w H H' Hn Hs.
  apply one_result_per_estimate in H as [bks [pks [ws1 [Hb [Hp [Hw [_ HF]]]]]]].
  apply one_result_per_estimate in H' as [bks' [pks' [ws2 [Hb' [Hp' [Hw' [_ HF']]]]]]].
  subst ws1 ws2. rewrite Hb in Hb'; inversion Hb'; subst bks'. rewrite Hp in Hp'; inversion Hp'; subst pks'.
  destruct (Forall2_nth _ _ _ _ _ HF Hn) as [r [Hr [_ [dw [Hd Hf]]]]].
  destruct (Forall2_nth _ _ _ _ _ HF' Hn) as [r' [Hr' [_ [dw' [Hd' Hf']]]]].
  rewrite Hs in Hd. rewrite Hd in Hd'; inversion Hd'; subst dw'. rewrite Hf in Hf'; inversion Hf'; subst.
  congruence.
Qed.


(* ------------------------------------------------------------------ the point-count guard *)
(* with the guard first, a window holding fewer points than the model has parameters gives the
   `window_too_narrow` result — whatever the guesses would do (they are not even evaluated) *)
Theorem narrow_window_is_result : guard_first V = true ->
  forall d pk bk w fp fr, (length d < n_params pk bk)%nat ->
  single' d pk bk w fp fr = Ok (for_too_narrow_window pk bk w).
Proof.
  intros HV d pk bk w fp fr Hn. unfold fit_peak_single_model. rewrite HV.
  apply Nat.ltb_lt in Hn. rewrite Hn. reflexivity.
Qed.

Lemma too_narrow_fields : forall pk bk w,
  let r := for_too_narrow_window pk bk w in
  r_assess r = window_too_narrow /\ r_window r = w /\ r_peak r = pk /\ r_bkg r = bk /\
  r_stats r = mkStats NaN NaN NInf /\ Forall (fun nv => snd nv = NaN) (r_popt r) /\
  map fst (r_popt r) = fm_names (FSum bk pk) /\ r_msg r = "window too narrow"%string.
Proof.
  intros pk bk w; simpl. repeat split; auto.
  - apply Forall_forall. intros [n v] Hin. apply in_map_iff in Hin as [x [Hx _]]. inversion Hx; auto.
  - rewrite map_map; simpl. apply map_id.
Qed.

(* at the level of _fit_peak: if the window is too narrow for every candidate pair, the result is the
   too-narrow result of the first candidate; no exception *)
Theorem narrow_window_fit_peak : guard_first V = true ->
  forall d w pk bk pks bks fp fr,
  (forall p b, In p (pk :: pks) -> In b (bk :: bks) -> (length d < n_params p b)%nat) ->
  fit_peak' d w (bk :: bks) (pk :: pks) fp fr = Ok (for_too_narrow_window pk bk w).
Proof.
  intros HV d w pk bk pks bks fp fr H. unfold fit_peak.
  rewrite fit_peak_go_none_success.
  - simpl. apply narrow_window_is_result; auto. apply H; simpl; auto.
  - intros p b Hin. unfold candidates in Hin. apply in_flat_map in Hin as [p' [Hp Hin]].
    apply in_map_iff in Hin as [b' [Heq Hb]]. inversion Heq; subst.
    exists (for_too_narrow_window p b w). split.
    + apply narrow_window_is_result; auto.
    + simpl; discriminate.
Qed.

(* ------------------------------------------------------------------ the statistics are those of the returned
   parameters on exactly the points of the window *)
Definition chi2_sum (d : list pt) (f : Q -> Q) : Q :=
  fold_right Qplus 0 (map (fun p => ((py p - f (px p)) * (py p - f (px p))) / pvar p) d).

Lemma chi_square_is_sum : forall d fm popt,
  chi_square feval d fm popt == chi2_sum d (feval fm popt).
Proof.
  intros d fm popt. unfold chi_square, chi2_sum. induction d as [|p t IH]; cbn [fold_right map].
  - reflexivity.
  - rewrite Qred_correct. unfold chi_term. cbv zeta. rewrite IH. reflexivity.
Qed.

(* what _goodness_of_fit_statistics reports, in terms of chi2 = chi_square d fm popt, n = |d|, k = |popt| *)
Lemma goodness_spec : forall d fm popt,
  let n := length d in let k := length popt in
  let chi2 := chi_square feval d fm popt in
  let st := goodness' d fm popt in
  chi2 == chi2_sum d (feval fm popt) /\
  ((k < n)%nat -> red_chisq st = Fin (chi2 / inject_Z (Z.of_nat n - Z.of_nat k)) /\
                  p_value st = Fin (1 - chi2cdf (Z.of_nat n - Z.of_nat k) chi2)) /\
  ((0 < n)%nat -> ~ chi2 == 0 -> aic st = Fin (nq n * ln (chi2 / nq n) + 2 * nq k)) /\
  (n = k -> p_value st = NaN).
Proof.
  intros d fm popt n k chi2 st. split; [apply chi_square_is_sum|]. split; [|split].
  - intros Hk. unfold st, goodness. fold n k chi2.
    assert (Hz : (Z.of_nat n - Z.of_nat k > 0)%Z) by lia.
    destruct (Z.eqb_spec (Z.of_nat n - Z.of_nat k) 0); [lia|].
    destruct (Z.leb_spec (Z.of_nat n - Z.of_nat k) 0); [lia|]. simpl. auto.
  - intros Hn Hc. unfold st, goodness, akaike. fold n k chi2. simpl.
    destruct (Nat.eqb_spec n 0); [lia|].
    destruct (Qeq_bool chi2 0) eqn:E; [apply Qeq_bool_eq in E; contradiction|]. reflexivity.
  - intros Hnk. unfold st, goodness. fold n k. simpl. rewrite Hnk.
    replace (Z.of_nat k - Z.of_nat k)%Z with 0%Z by lia. reflexivity.
Qed.

Lemma core_provenance : forall d pk bk w b0 p0 fr r,
  core' d pk bk w b0 p0 fr = Ok r -> r_assess r <> failed ->
  exists popt bnds,
    curve_fit (FSum bk pk) d (b0 ++ p0) bnds = FitOk popt /\
    r_popt r = xpopt popt /\ r_stats r = goodness' d (FSum bk pk) popt /\
    assess' d pk popt (r_stats r) (fit_background curve_fit feval ln chi2cdf bk d b0) fr = Ok (r_assess r).
Proof.
  intros d pk bk w b0 p0 fr r H Hf. unfold fit_core in H.
  destruct (curve_fit (FSum bk pk) d (b0 ++ p0) _) as [popt|msg] eqn:E.
  - apply bind_ok in H as [a [Ha H]]. inversion H; subst; simpl in *.
    eexists; eexists; repeat split; eauto.
  - inversion H; subst; simpl in Hf. congruence.
Qed.

Theorem stats_are_recomputed : forall d pk bk w fp fr r,
  single' d pk bk w fp fr = Ok r ->
  r_assess r <> failed -> r_assess r <> window_too_narrow ->
  exists popt p0 bnds bkg,
    curve_fit (FSum bk pk) d p0 bnds = FitOk popt /\
    r_popt r = xpopt popt /\
    r_stats r = goodness' d (FSum bk pk) popt /\
    assess' d pk popt (r_stats r) bkg fr = Ok (r_assess r) /\
    (length d >= n_params pk bk)%nat.
Proof.
  intros d pk bk w fp fr r H Hf Hn. unfold fit_peak_single_model in H.
  destruct (guard_first V).
  - destruct (Nat.ltb_spec (length d) (n_params pk bk)).
    + inversion H; subst; simpl in Hn; congruence.
    + apply bind_ok in H as [b0 [_ H]]. apply bind_ok in H as [p0 [_ H]].
      apply core_provenance in H as [popt [bnds [Hc [Hp [Hs Ha]]]]]; auto.
      exists popt, (b0 ++ p0), bnds; eexists; repeat split; eauto.
  - apply bind_ok in H as [b0 [_ H]]. apply bind_ok in H as [p0 [_ H]].
    destruct (Nat.ltb_spec (length d) (n_params pk bk)).
    + inversion H; subst; simpl in Hn; congruence.
    + apply core_provenance in H as [popt [bnds [Hc [Hp [Hs Ha]]]]]; auto.
      exists popt, (b0 ++ p0), bnds; eexists; repeat split; eauto.
Qed.

(* the same for an element of the list fit_peaks returns: d is exactly the slice of the data in the window *)
Corollary stats_are_recomputed_fit_peaks : forall d cs wsp bspec pspec fp fr rs i r,
  fit_peaks' d cs wsp bspec pspec fp fr = Ok rs -> nth_error rs i = Some r ->
  r_assess r <> failed -> r_assess r <> window_too_narrow ->
  exists dw popt p0 bnds bkg,
    slice_labels d (fst (r_window r)) (snd (r_window r)) = Ok dw /\
    curve_fit (FSum (r_bkg r) (r_peak r)) dw p0 bnds = FitOk popt /\
    r_popt r = xpopt popt /\
    r_stats r = goodness' dw (FSum (r_bkg r) (r_peak r)) popt /\
    assess' dw (r_peak r) popt (r_stats r) bkg fr = Ok (r_assess r).
Proof.
  intros d cs wsp bspec pspec fp fr rs i r H Hn Hf Ht.
  apply one_result_per_estimate in H as [bks [pks [ws [_ [_ [_ [Hl HF]]]]]]].
  assert (exists w, nth_error ws i = Some w) as [w Hw].
  { destruct (nth_error ws i) eqn:E; eauto. apply nth_error_None in E.
    assert (nth_error rs i <> None) by congruence. apply nth_error_Some in H. lia. }
  destruct (Forall2_nth _ _ _ _ _ HF Hw) as [r' [Hr' [Hwin [dw [Hs Hfp]]]]].
  rewrite Hn in Hr'; inversion Hr'; subst r'.
  apply fit_peak_candidate in Hfp as [pk [bk [_ [_ Hsm]]]].
  destruct (single_fields _ _ _ _ _ _ _ Hsm) as [_ [Hpk Hbk]].
  apply stats_are_recomputed in Hsm as [popt [p0 [bnds [bkg [Hc [Hp [Hst [Ha _]]]]]]]]; auto.
  subst pk bk. rewrite Hwin. exists dw, popt, p0, bnds, bkg. repeat split; auto.
Qed.

(* ------------------------------------------------------------------ what `success` means *)
Hypothesis lt_spec : forall a b, lt a b = true <-> a < b.

Lemma lt_false : forall a b, lt a b = false -> b <= a.
Proof using lt_spec.
  intros a b H. apply Qnot_lt_le. intro C. apply lt_spec in C. congruence.
Qed.

Definition step_of (xs : list Q) : Q := qmin_list (diffs xs).

(* every requirement of _assess_fit, in its order *)
Record requirements_met (d : list pt) (pk : mkind) (popt : params) (st : stats) (bkg : option stats)
                        (fr : fit_requirements) : Prop := {
  rq_background : match bkg with Some b => xlt lt (aic b) (aic st) = false | None => True end;
  rq_p : if nan_p_fails V then xge lt (p_value st) (Fin (min_p_value fr)) = true
         else xlt lt (p_value st) (Fin (min_p_value fr)) = false;
  rq_loc : exists loc, getp "peak_loc" popt = Some loc /\
           2 * step_of (map px d) <= loc - first_x (map px d) /\
           2 * step_of (map px d) <= last_x (map px d) - loc /\
           exists fw, fwhm pk popt = Some fw /\
             fw <= max_peak_width_factor fr * (last_x (map px d) - first_x (map px d)) /\
             exists bw, local_bin_width (map px d) (argmin_abs (map px d) loc) = Ok bw /\
                        min_peak_width_factor fr * bw <= fw;
  rq_amplitude : forall a, getp "peak_amplitude" popt = Some a -> 0 <= a
}.

Lemma assess_success : forall d pk popt st bkg fr,
  assess' d pk popt st bkg fr = Ok success -> requirements_met d pk popt st bkg fr.
Proof using lt_spec.
  intros d pk popt st bkg fr H. unfold assess_fit in H.
  destruct (match bkg with Some b => xlt lt (aic b) (aic st) | None => false end) eqn:Eb; [discriminate|].
  destruct (p_fails V lt (p_value st) fr) eqn:Ep; [discriminate|].
  destruct (getp "peak_loc" popt) as [loc|] eqn:El; [|discriminate].
  destruct (peak_is_near_edge lt (map px d) loc) eqn:Ee; [discriminate|].
  destruct (curve_points_down lt popt) eqn:Ed; [discriminate|].
  destruct (fwhm pk popt) as [fw|] eqn:Ef; [|discriminate].
  destruct (peak_is_too_wide lt (map px d) fw fr) eqn:Ew; [discriminate|].
  apply bind_ok in H as [tn [Hn H]]. destruct tn; [discriminate|].
  unfold peak_is_too_narrow in Hn. apply bind_ok in Hn as [bw [Hbw Hn]]. inversion Hn as [Hn'].
  unfold peak_is_near_edge in Ee. apply orb_false_iff in Ee as [Ee1 Ee2].
  constructor.
  - destruct bkg; auto.
  - unfold p_fails in Ep. destruct (nan_p_fails V); auto. apply negb_false_iff in Ep; auto.
  - exists loc. split; auto. split; [apply lt_false; exact Ee1|]. split; [apply lt_false; exact Ee2|].
    exists fw. split; auto. split; [apply lt_false; exact Ew|].
    exists bw. split; auto. apply lt_false; auto.
  - intros a Ha. unfold curve_points_down in Ed. rewrite Ha in Ed. apply lt_false; auto.
Qed.

Theorem success_meets_requirements : forall d pk bk w fp fr r,
  single' d pk bk w fp fr = Ok r -> r_assess r = success ->
  exists popt bkg,
    r_popt r = xpopt popt /\ r_stats r = goodness' d (FSum bk pk) popt /\
    requirements_met d pk popt (r_stats r) bkg fr.
Proof using lt_spec.
  intros d pk bk w fp fr r H Hs.
  apply stats_are_recomputed in H as [popt [p0 [bnds [bkg [_ [Hp [Hst [Ha _]]]]]]]]; try congruence.
  rewrite Hs in Ha. exists popt, bkg. split; [auto|]. split; [auto|]. apply assess_success; auto.
Qed.

(* with the repaired p-value test, success implies an actual number p >= min_p *)
Corollary success_p_value : nan_p_fails V = true -> forall d pk bk w fp fr r,
  single' d pk bk w fp fr = Ok r -> r_assess r = success ->
  exists p, p_value (r_stats r) = Fin p /\ min_p_value fr <= p.
Proof using lt_spec.
  intros HV d pk bk w fp fr r H Hs.
  pose proof (stats_are_recomputed _ _ _ _ _ _ _ H) as Hst.
  destruct Hst as [popt [p0 [bnds [bkg [_ [_ [Hst [_ _]]]]]]]]; try congruence.
  apply success_meets_requirements in H as [popt' [bkg' [_ [_ [_ Hp _ _]]]]]; auto.
  rewrite HV in Hp. rewrite Hst in *. unfold goodness in *; simpl in *.
  destruct (Z.leb _ 0); simpl in Hp; [discriminate|].
  eexists; split; [reflexivity|]. apply negb_true_iff in Hp. apply lt_false; auto.
Qed.

End Thms.
