(* C17/ProofsRefuted.v — the three places where the tree AS FOUND (Model.V_orig) violates the property,
   each with a witness; and closed examples showing that the hypotheses of the theorems are satisfiable. *)
From Coq Require Import QArith Qabs ZArith String List Bool Lia Lqa.
From Verif.C17 Require Import Model Proofs ProofsWindows ProofsRemove.
Import ListNotations.
Open Scope string_scope.
Open Scope Q_scope.

Lemma mapM_raise : forall {A B} (f : A -> res B) l a e,
  In a l -> f a = Raise e -> exists e', mapM f l = Raise e'.
Proof.
  intros A B f l; induction l as [|x t IH]; intros a e Hin Hf; [contradiction|].
  simpl. destruct Hin as [->|Hin].
  - rewrite Hf; simpl; eauto.
  - destruct (f x); simpl; eauto. destruct (IH a e Hin Hf) as [e' He']. rewrite He'; simpl; eauto.
Qed.

(* ------------------------------------------------------------------ F7: guesses before the guard *)
Section F7.
Variable V : variant.
Variable lt : Q -> Q -> bool.
Variable next_up : Q -> Q.
Variable guess : string -> mkind -> list pt -> res params.
Variable curve_fit : fitmodel -> list pt -> params -> bounds -> fit_outcome.
Variable feval : fitmodel -> params -> Q -> Q.
Variable ln : Q -> Q.
Variable chi2cdf : Z -> Q -> Q.
(* numpy: Polynomial.fit / argmax of an empty array raise ValueError *)
Hypothesis guess_empty : forall pre m, exists msg, guess pre m [] = Raise (ValueError msg).
Hypothesis HV : guard_first V = false.

Notation single' := (fit_peak_single_model V lt guess curve_fit feval ln chi2cdf).
Notation fit_peak' := (fit_peak V lt guess curve_fit feval ln chi2cdf).
Notation fit_peaks' := (fit_peaks V lt next_up guess curve_fit feval ln chi2cdf).

(* an empty window: the background guess receives no points *)
Lemma as_found_raises_on_empty_window : forall pk bk w fp fr,
  exists msg, single' [] pk bk w fp fr = Raise (ValueError msg).
Proof using guess_empty HV.
  intros pk bk w fp fr. unfold fit_peak_single_model. rewrite HV.
  unfold guess_background.
  destruct (guess_empty "bkg_" bk) as [msg Hm].
  assert (E : (@py_head pt (guess_n [] fp) [] ++ @py_tail pt (guess_n [] fp) [])%list = []).
  { unfold py_head, py_tail. destruct (guess_n [] fp); simpl; auto. }
  rewrite E, Hm. simpl. eauto.
Qed.

(* 1..3 points with the default fraction: n = int(len/4) = 0, data[0:-0] is empty: the PEAK guess
   receives no points (whatever the background guess returned) *)
Lemma as_found_raises_on_small_window : forall d pk bk w fp fr,
  guess_n d fp = 0%nat ->
  exists e, single' d pk bk w fp fr = Raise e.
Proof using guess_empty HV.
  intros d pk bk w fp fr Hn. unfold fit_peak_single_model. rewrite HV.
  destruct (guess_background guess d bk fp) as [b0|e]; simpl; eauto.
  unfold guess_peak. rewrite Hn. simpl.
  change (py_mid 0 d) with (@nil pt).
  destruct (guess_empty "peak_" pk) as [msg Hm]. rewrite Hm. simpl. eauto.
Qed.

Lemma fit_peak_first_raises : forall d w pk bk pks bks fp fr e,
  single' d pk bk w fp fr = Raise e -> fit_peak' d w (bk :: bks) (pk :: pks) fp fr = Raise e.
Proof. intros. unfold fit_peak. simpl. rewrite H. reflexivity. Qed.

(* THE FULL STATEMENT `narrow_window_is_result` IS FALSE OF THE TREE AS FOUND: an admissible call
   (sorted data with variances, one estimate inside the data, a valid window w0 <= w1, default
   parameters, built-in model names) whose window holds fewer points than parameters raises *)
Theorem narrow_window_raises_refuted :
  exists d cs ws bspec pspec fp fr e,
    sorted_asc (map px d) = true /\ (forall w, In w ws -> fst w <= snd w) /\
    parse_model_spec bspec = Ok [MPoly 1] /\ parse_model_spec pspec = Ok [MPeak Gaussian] /\
    (forall w dw, In w ws -> slice_labels d (fst w) (snd w) = Ok dw ->
                  (length dw < n_params (MPeak Gaussian) (MPoly 1))%nat) /\
    fit_peaks' d cs (WExplicit ws) bspec pspec fp fr = Raise e.
Proof using guess_empty HV.
  set (d := [mkpt 0 1 1; mkpt 1 2 1; mkpt 2 1 1]).
  set (w := (1 # 4, 3 # 4)).
  destruct (as_found_raises_on_empty_window (MPeak Gaussian) (MPoly 1) w (mkFP (1 # 2) (1 # 3)) (mkFR (1 # 100) 1 1))
    as [msg Hm].
  exists d, [1 # 2], [w], (SOne (SName "linear")), (SOne (SName "gaussian")),
         (mkFP (1 # 2) (1 # 3)), (mkFR (1 # 100) 1 1), (ValueError msg).
  split; [reflexivity|]. split; [intros w' [<-|[]]; vm_compute; discriminate|].
  split; [reflexivity|]. split; [reflexivity|]. split.
  - intros w' dw [<-|[]] Hs. vm_compute in Hs. inversion Hs; subst. vm_compute. lia.
  - unfold fit_peaks. replace (negb (sorted_asc (map px d))) with false by reflexivity.
    simpl parse_model_spec. cbn [bind mapM].
    replace (slice_labels d (fst w) (snd w)) with (Ok (@nil pt)) by (vm_compute; reflexivity).
    cbn [bind]. rewrite (fit_peak_first_raises _ _ _ _ _ _ _ _ _ Hm). reflexivity.
Qed.

End F7.

(* ------------------------------------------------------------------ closed oracles for witnesses / examples *)
Definition nu (x : Q) : Q := x + (1 # 1000000).
Lemma nu_gt : forall x, x < nu x. Proof. intros; unfold nu; lra. Qed.
Lemma Qltb_spec' : forall a b, Qltb a b = true <-> a < b. Proof. exact Qltb_lt. Qed.

Definition toy_guess (pre : string) (m : mkind) (d : list pt) : res params :=
  match d with [] => Raise (ValueError "empty input") | _ => Ok [] end.
Definition mid_x (d : list pt) : Q := nth (Nat.div2 (List.length d)) (map px d) 0.
Definition toy_curve_fit (fm : fitmodel) (d : list pt) (p0 : params) (b : bounds) : fit_outcome :=
  match fm with
  | FBkg _ => FitRuntimeError "background fit did not converge"
  | FSum bk pk =>
      FitOk (map (fun n => (n, if String.eqb n "peak_loc" then mid_x d else 1)) (fm_names fm))
  end.
Definition toy_feval (fm : fitmodel) (p : params) (x : Q) : Q := 0.
Definition toy_ln (x : Q) : Q := x - 1.
Definition toy_cdf (dof : Z) (x : Q) : Q := 1 # 2.
Notation toy_fit_peaks V := (fit_peaks V Qltb nu toy_guess toy_curve_fit toy_feval toy_ln toy_cdf).
Notation toy_single V := (fit_peak_single_model V Qltb toy_guess toy_curve_fit toy_feval toy_ln toy_cdf).

Definition grid (n : nat) : list pt := map (fun i => mkpt (inject_Z (Z.of_nat i)) 1 1) (seq 0 n).
Definition FP0 := mkFP (1 # 2) (1 # 3).
Definition FR0 := mkFR (1 # 100) 1 1.

(* ------------------------------------------------------------------ inverted windows *)
(* data 0..10, estimates 5 and 100, width 3, separation 1/3: the window of the second estimate is
   (5 + 95/3, 10): clipped to the data range first, then pushed right by the neighbour separation *)
Theorem windows_inverted_refuted :
  exists xs cs width fp ws w,
    sorted_asc cs = true /\ 0 <= width /\ 0 <= neighbor_separation_factor fp <= 1 /\
    fit_windows V_orig nu xs cs width fp = Ok ws /\ nth_error ws 1 = Some w /\
    snd w < fst w /\ qmax_list xs < fst w.
Proof.
  exists (map px (grid 11)), [5; 100], 3, FP0.
  eexists; eexists. split; [reflexivity|]. split; [lra|]. split; [simpl; lra|].
  split; [vm_compute; reflexivity|]. split; [reflexivity|].
  split; vm_compute; reflexivity.
Qed.

(* ... and fit_peaks then raises (IndexError from the label-based slice), whatever the oracles do *)
Theorem inverted_window_raises_refuted :
  forall lt guess curve_fit feval ln chi2cdf,
  exists e, fit_peaks V_orig lt nu guess curve_fit feval ln chi2cdf (grid 11) [5; 100] (WScalar 3)
                      (SOne (SName "linear")) (SOne (SName "gaussian")) FP0 FR0 = Raise e.
Proof.
  intros. unfold fit_peaks.
  replace (negb (sorted_asc (map px (grid 11)))) with false by (vm_compute; reflexivity).
  simpl parse_model_spec. cbn [bind].
  destruct (fit_windows V_orig nu (map px (grid 11)) [5; 100] 3 FP0) as [ws|e] eqn:E;
    [|vm_compute in E; discriminate].
  vm_compute in E. inversion E; subst ws; clear E.
  cbn [bind].
  eapply mapM_raise; [right; left; reflexivity|]. cbv beta.
  match goal with |- context [slice_labels ?d ?a ?b] =>
    replace (slice_labels d a b) with (@Raise (list pt) (IndexError "end must be >= begin"))
      by (vm_compute; reflexivity) end.
  reflexivity.
Qed.

(* with the clip last the same call has proper windows *)
Example windows_fixed_example :
  exists w0 w1, fit_windows V_fixed nu (map px (grid 11)) [5; 100] 3 FP0 = Ok [w0; w1] /\
                fst w1 == 10 /\ snd w1 == 10 /\ fst w0 == 7 # 2.
Proof. eexists; eexists. split; [vm_compute; reflexivity|]. repeat split; vm_compute; reflexivity. Qed.

(* ------------------------------------------------------------------ zero degrees of freedom *)
(* 5 points, linear + gaussian (5 parameters): p is NaN, `NaN < min_p` is false, every other test
   passes: marked success although p >= min_p does not hold *)
Theorem success_nan_p_refuted :
  exists d pk bk w r,
    toy_single V_orig d pk bk w FP0 FR0 = Ok r /\
    r_assess r = success /\ p_value (r_stats r) = NaN /\ red_chisq (r_stats r) = PInf /\
    length d = n_params pk bk.
Proof.
  exists (grid 5), (MPeak Gaussian), (MPoly 1), (0, 5). eexists.
  split; [vm_compute; reflexivity|]. repeat split; reflexivity.
Qed.

Example zero_dof_fixed_example :
  exists r, toy_single V_fixed (grid 5) (MPeak Gaussian) (MPoly 1) (0, 5) FP0 FR0 = Ok r /\
            r_assess r = p_too_small.
Proof. eexists. split; [vm_compute; reflexivity|]. reflexivity. Qed.

(* ------------------------------------------------------------------ the hypotheses of the theorems are satisfiable *)
(* one_result_per_estimate / stats_are_recomputed / success_meets_requirements: a call that returns, with a
   success, a too-narrow window and (peak 3) an estimate outside the data *)
Example fit_peaks_example :
  exists r0 r1 r2,
    toy_fit_peaks V_fixed (grid 21) [5; (21 # 2); 40] (WScalar 8)
                  (SMany [SName "linear"; SInst (MPoly 2)]) (SOne (SName "lorentzian")) FP0 FR0 = Ok [r0; r1; r2] /\
    r_assess r0 = success /\ r_assess r2 = window_too_narrow.
Proof. eexists; eexists; eexists. split; [vm_compute; reflexivity|]. split; reflexivity. Qed.

(* narrow_window_is_result: 3 points < 5 parameters, no exception with the guard first *)
Example narrow_window_example :
  toy_single V_fixed (grid 3) (MPeak Gaussian) (MPoly 1) (0, 3) FP0 FR0
  = Ok (for_too_narrow_window (MPeak Gaussian) (MPoly 1) (0, 3)).
Proof. apply narrow_window_is_result; [reflexivity | vm_compute; lia]. Qed.

(* the same call on the tree as found raises *)
Example narrow_window_as_found_example :
  exists e, toy_single V_orig (grid 3) (MPeak Gaussian) (MPoly 1) (0, 3) FP0 FR0 = Raise e.
Proof. eexists. vm_compute. reflexivity. Qed.

(* windows_ok *)
Example windows_ok_example :
  exists ws, fit_windows V_fixed nu (map px (grid 21)) [2; 5; 19] 8 FP0 = Ok ws /\
  forall i w, nth_error ws i = Some w ->
    exists c, nth_error [2; 5; 19] i = Some c /\
      window_ok (qmin_list (map px (grid 21))) (qmax_list (map px (grid 21))) (1 # 3) c
                (neighbour [2; 5; 19] i true) (neighbour [2; 5; 19] i false) w.
Proof.
  destruct (fit_windows V_fixed nu (map px (grid 21)) [2; 5; 19] 8 FP0) as [ws|e] eqn:E; [|vm_compute in E; discriminate].
  exists ws. split; auto.
  apply (windows_ok V_fixed nu nu_gt eq_refl (map px (grid 21)) [2; 5; 19] 8 FP0 ws); simpl; try lra; auto.
  discriminate.
Qed.

(* remove_peaks_frame *)
Definition toy_peval (r : fitres) (x : Q) : Q := 1 # 4.
Example remove_peaks_example :
  let r := mkRes success (MPeak Gaussian) (MPoly 1) (2, 4) [] (mkStats NaN NaN NaN) "" in
  let f := mkRes failed (MPeak Gaussian) (MPoly 1) (0, 9) [] (mkStats NaN NaN NInf) "" in
  remove_peaks toy_peval false [(0, 1); (1, 1); (2, 1); (3, 1); (4, 1)] [f; r; r]
  = Ok [(0, 1); (1, 1); (2, 1 - (1 # 4) - (1 # 4)); (3, 1 - (1 # 4) - (1 # 4)); (4, 1)].
Proof. vm_compute. reflexivity. Qed.
