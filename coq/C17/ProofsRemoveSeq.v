(* C17/ProofsRemoveSeq.v — remove_peaks is a function of the SEQUENCE of fit results only: the results may be handed
   over in pieces (itertools.chain, a generator: processing a prefix and then the rest is the same as processing
   everything), and unsuccessful results can be dropped anywhere in the sequence (filter) without changing the
   output.  The correspondence calls the implementation with the same results as list / tuple / iterator /
   generator / filter / map / dict values view / deque / chain and compares each output with this one model. *)
From Coq Require Import QArith String List Bool.
From Verif.C17 Require Import Model ModelOrder.
Import ListNotations.

Section Seq.
Variable peval : fitres -> Q -> Q.

Lemma remove_go_app : forall rs1 rs2 d,
  remove_go peval (rs1 ++ rs2) d = bind (remove_go peval rs1 d) (remove_go peval rs2).
Proof.
  induction rs1 as [|r t IH]; intros rs2 d; simpl; [reflexivity|].
  destruct (assessment_eqb (r_assess r) success); [|apply IH].
  destruct (subtract_in_window peval r d) as [d'|e]; simpl; [apply IH|reflexivity].
Qed.

Theorem remove_peaks_in_pieces : forall v rs1 rs2 d,
  remove_peaks peval v d (rs1 ++ rs2) =
  bind (remove_peaks peval v d rs1) (fun d' => if v then Ok d' else remove_go peval rs2 d').
Proof.
  intros v rs1 rs2 d. unfold remove_peaks. destruct v; [reflexivity|]. apply remove_go_app.
Qed.

Theorem remove_peaks_ignores_unsuccessful : forall v rs d,
  remove_peaks peval v d (filter res_success rs) = remove_peaks peval v d rs.
Proof.
  intros v rs d. unfold remove_peaks. destruct v; [reflexivity|]. revert d.
  induction rs as [|r t IH]; intro d; simpl; [reflexivity|]. unfold res_success at 1.
  destruct (assessment_eqb (r_assess r) success) eqn:E; simpl; [|apply IH].
  rewrite E. destruct (subtract_in_window peval r d) as [d'|e]; simpl; [apply IH|reflexivity].
Qed.

(* nothing successful: the output is the input *)
Theorem remove_peaks_nothing_successful : forall rs d,
  forallb (fun r => negb (res_success r)) rs = true -> remove_peaks peval false d rs = Ok d.
Proof.
  intros rs d. unfold remove_peaks. revert d. induction rs as [|r t IH]; intros d H; simpl in *; [reflexivity|].
  apply andb_prop in H as [H1 H2]. unfold res_success in H1. apply negb_true_iff in H1. rewrite H1. apply IH; exact H2.
Qed.
End Seq.

Example remove_in_pieces_example :
  let pe := fun (_ : fitres) (_ : Q) => 1 # 4 in
  let r := mkRes success (MPeak Gaussian) (MPoly 1) (2, 4) [] (mkStats NaN NaN NaN) "" in
  let f := mkRes failed (MPeak Gaussian) (MPoly 1) (0, 9) [] (mkStats NaN NaN NInf) "" in
  let d := [(0, 1); (1, 1); (2, 1); (3, 1); (4, 1)] in
  remove_peaks pe false d [f; r; f; r] = remove_peaks pe false d (filter res_success [f; r; f; r]) /\
  remove_peaks pe false d ([f; r] ++ [f; r]) = bind (remove_peaks pe false d [f; r]) (remove_go pe [f; r]).
Proof. split; vm_compute; reflexivity. Qed.
