(* C17/ProofsWindows.v — the automatically built fit windows (exact rational arithmetic).
   next_up (np.nextafter(., inf)) is an arbitrary function with x < next_up x. *)
From Coq Require Import QArith Qabs ZArith String List Bool Lia Lqa.
From Verif.C17 Require Import Model Proofs.
Import ListNotations.
Open Scope Q_scope.

Lemma clip_spec : forall lo hi w, lo <= hi ->
  lo <= clip lo hi w /\ clip lo hi w <= hi /\
  (w <= hi -> w <= clip lo hi w) /\ (lo <= w -> clip lo hi w <= w) /\
  (w <= lo -> clip lo hi w == lo) /\ (hi <= w -> clip lo hi w == hi).
Proof.
  intros lo hi w H. unfold clip.
  destruct (Qltb w lo) eqn:E1; destruct (Qltb hi _) eqn:E2;
    try apply Qltb_lt in E1; try apply Qltb_lt in E2; try apply Qltb_false in E1; try apply Qltb_false in E2;
    repeat split; intros; try lra.
Qed.

Lemma clip_mono : forall lo hi a b, lo <= hi -> a <= b -> clip lo hi a <= clip lo hi b.
Proof.
  intros lo hi a b H Hab. unfold clip.
  destruct (Qltb a lo) eqn:E1; destruct (Qltb b lo) eqn:E2;
    try apply Qltb_lt in E1; try apply Qltb_lt in E2; try apply Qltb_false in E1; try apply Qltb_false in E2;
    match goal with |- (if Qltb hi ?x then _ else _) <= (if Qltb hi ?y then _ else _) =>
      destruct (Qltb hi x) eqn:E3; destruct (Qltb hi y) eqn:E4 end;
    try apply Qltb_lt in E3; try apply Qltb_lt in E4; try apply Qltb_false in E3; try apply Qltb_false in E4; lra.
Qed.

(* l <= l + (c-l) s <= c   and   c <= r - (r-c) s <= r    for 0 <= s <= 1 *)
Lemma sep_between : forall a b s, a <= b -> 0 <= s -> s <= 1 ->
  0 <= (b - a) * s /\ (b - a) * s <= b - a.
Proof.
  intros a b s Hab H0 H1. split.
  - apply Qmult_le_0_compat; lra.
  - assert (0 <= (b - a) * (1 - s)) by (apply Qmult_le_0_compat; lra). lra.
Qed.

Ltac case_ltb :=
  match goal with |- context [Qltb ?a ?b] =>
    let E := fresh "E" in destruct (Qltb a b) eqn:E; [apply Qltb_lt in E | apply Qltb_false in E] end.

Definition window_ok (lo hi s c : Q) (left right : option Q) (w : Q * Q) : Prop :=
  lo <= fst w /\ fst w <= snd w /\ snd w <= hi /\
  (lo <= c /\ c <= hi ->
     fst w <= c /\ c <= snd w /\
     (forall l, left = Some l -> l + (c - l) * s <= fst w) /\
     (forall r, right = Some r -> snd w <= r - (r - c) * s)) /\
  (forall x, fst w <= x /\ x < snd w ->
     (forall l, left = Some l -> l + (c - l) * s <= x) /\
     (forall r, right = Some r -> x < r - (r - c) * s)).

(* for an estimate inside the data range, whatever the order of clipping and separating *)
Definition window_ok_in_range (lo hi s c : Q) (left right : option Q) (w : Q * Q) : Prop :=
  lo <= fst w /\ fst w <= c /\ c <= snd w /\ snd w <= hi /\
  (forall l, left = Some l -> l + (c - l) * s <= fst w) /\
  (forall r, right = Some r -> snd w <= r - (r - c) * s).

Section W.
Variable V : variant.
Variable next_up : Q -> Q.
Hypothesis next_up_gt : forall x, x < next_up x.

Lemma one_window_fixed : clip_last V = true ->
  forall lo hi width s c left right,
  lo <= hi -> 0 <= width -> 0 <= s -> s <= 1 ->
  (forall l, left = Some l -> l <= c) -> (forall r, right = Some r -> c <= r) ->
  window_ok lo hi s c left right (one_window V next_up lo hi width s c left right).
Proof using next_up_gt.
  intros HV lo hi width s c left right Hlh Hw Hs0 Hs1 Hl Hr.
  unfold one_window. rewrite HV. unfold window_ok; simpl.
  pose proof (next_up_gt (c + width / 2)) as Hnu.
  assert (Hw2 : 0 <= width / 2) by (apply Qle_shift_div_l; lra).
  assert (Ha0 : c - width / 2 <= c) by lra.
  assert (Ha1 : c <= next_up (c + width / 2)) by lra.
  generalize dependent (next_up (c + width / 2)). intros a1 _ Ha1.
  generalize dependent (c - width / 2). intros a0 Ha0.
  (* the unclipped, separated edges straddle c *)
  assert (HL : sep_left s c left a0 <= c /\ a0 <= sep_left s c left a0 /\
               (forall l, left = Some l -> l + (c - l) * s <= sep_left s c left a0)).
  { unfold sep_left. destruct left as [l|].
    - pose proof (Hl l eq_refl). destruct (sep_between l c s) as [B0 B1]; auto.
      destruct (Qltb a0 (l + (c - l) * s)) eqn:E; [apply Qltb_lt in E | apply Qltb_false in E];
        (split; [lra|]); (split; [lra|]); intros l' Hl'; inversion Hl'; subst; lra.
    - split; [lra|]. split; [lra|]. intros; discriminate. }
  assert (HR : c <= sep_right s c right a1 /\ sep_right s c right a1 <= a1 /\
               (forall r, right = Some r -> sep_right s c right a1 <= r - (r - c) * s)).
  { unfold sep_right. destruct right as [r|].
    - pose proof (Hr r eq_refl). destruct (sep_between c r s) as [B0 B1]; auto.
      destruct (Qltb (r - (r - c) * s) a1) eqn:E; [apply Qltb_lt in E | apply Qltb_false in E];
        (split; [lra|]); (split; [lra|]); intros r' Hr'; inversion Hr'; subst; lra.
    - split; [lra|]. split; [lra|]. intros; discriminate. }
  destruct HL as [HL1 [HL2 HL3]]. destruct HR as [HR1 [HR2 HR3]].
  set (m0 := sep_left s c left a0) in *. set (m1 := sep_right s c right a1) in *.
  destruct (clip_spec lo hi m0 Hlh) as [C1 [C2 [C3 [C4 [C5 C6]]]]].
  destruct (clip_spec lo hi m1 Hlh) as [D1 [D2 [D3 [D4 [D5 D6]]]]].
  assert (Hmono : clip lo hi m0 <= clip lo hi m1) by (apply clip_mono; lra).
  split; [auto|]. split; [auto|]. split; [auto|]. split.
  - intros [Hc1 Hc2]. split; [specialize (C4); destruct (Qlt_le_dec m0 lo); lra|].
    split; [destruct (Qlt_le_dec hi m1); lra|]. split.
    + intros l Hl'. specialize (HL3 l Hl'). assert (m0 <= clip lo hi m0) by (apply C3; lra). lra.
    + intros r Hr'. specialize (HR3 r Hr'). destruct (Qlt_le_dec m1 lo); [|lra].
      assert (clip lo hi m1 == lo) by (apply D5; lra). lra.
  - intros x [Hx0 Hx1]. split.
    + intros l Hl'. specialize (HL3 l Hl').
      destruct (Qlt_le_dec hi m0) as [Hgt|Hle].
      * assert (clip lo hi m0 == hi) by (apply C6; lra). lra.
      * specialize (C3 Hle). lra.
    + intros r Hr'. specialize (HR3 r Hr').
      destruct (Qlt_le_dec m1 lo) as [Hlt|Hge].
      * assert (clip lo hi m1 == lo) by (apply D5; lra). lra.
      * specialize (D4 Hge). lra.
Qed.

Lemma one_window_in_range : forall lo hi width s c left right,
  lo <= c -> c <= hi -> 0 <= width -> 0 <= s -> s <= 1 ->
  (forall l, left = Some l -> l <= c) -> (forall r, right = Some r -> c <= r) ->
  window_ok_in_range lo hi s c left right (one_window V next_up lo hi width s c left right).
Proof using next_up_gt.
  intros lo hi width s c left right Hc1 Hc2 Hw Hs0 Hs1 Hl Hr.
  assert (Hlh : lo <= hi) by lra.
  destruct (clip_last V) eqn:HV.
  - destruct (one_window_fixed HV lo hi width s c left right Hlh Hw Hs0 Hs1 Hl Hr) as [A [B [C [D _]]]].
    destruct (D (conj Hc1 Hc2)) as [D1 [D2 [D3 D4]]].
    unfold window_ok_in_range. repeat split; auto.
  - unfold one_window. rewrite HV. unfold window_ok_in_range; simpl.
    pose proof (next_up_gt (c + width / 2)) as Hnu.
    assert (Hw2 : 0 <= width / 2) by (apply Qle_shift_div_l; lra).
    destruct (clip_spec lo hi (c - width / 2) Hlh) as [C1 [C2 [C3 [C4 [C5 C6]]]]].
    destruct (clip_spec lo hi (next_up (c + width / 2)) Hlh) as [D1 [D2 [D3 [D4 [D5 D6]]]]].
    assert (K0 : clip lo hi (c - width / 2) <= c).
    { destruct (Qlt_le_dec (c - width / 2) lo) as [Hq|Hq]; [rewrite C5; lra | specialize (C4 Hq); lra]. }
    assert (K1 : c <= clip lo hi (next_up (c + width / 2))).
    { destruct (Qlt_le_dec hi (next_up (c + width / 2))) as [Hq|Hq]; [rewrite D6; lra | specialize (D3 Hq); lra]. }
    unfold sep_left, sep_right.
    destruct left as [l|]; destruct right as [r|];
      try (pose proof (Hl l eq_refl); destruct (sep_between l c s) as [B0 B1]; auto);
      try (pose proof (Hr r eq_refl); destruct (sep_between c r s) as [B2 B3]; auto);
      repeat case_ltb;
      repeat split; try lra; intros ? Hq; inversion Hq; subst; lra.
Qed.

(* ---------------------------------------------------------------- lists of estimates *)
Lemma hd_error_nth0 : forall {A} (l : list A), hd_error l = nth_error l 0.
Proof. destruct l; reflexivity. Qed.

Lemma windows_go_nth : forall f cs prev i w,
  nth_error (windows_go f prev cs) i = Some w ->
  exists c, nth_error cs i = Some c /\
            w = f c (match i with O => prev | S j => nth_error cs j end) (nth_error cs (S i)).
Proof.
  intros f cs; induction cs as [|a t IH]; intros prev i w H; simpl in H.
  - destruct i; discriminate.
  - destruct i as [|j]; simpl in *.
    + inversion H; subst. exists a. rewrite hd_error_nth0. auto.
    + apply IH in H as [c [Hc Hw]]. exists c. split; auto. rewrite Hw. destruct j; reflexivity.
Qed.

Lemma windows_go_length : forall f cs prev, length (windows_go f prev cs) = length cs.
Proof. intros f cs; induction cs; intros; simpl; auto. Qed.

Lemma sorted_adjacent : forall cs j a b, sorted_asc cs = true ->
  nth_error cs j = Some a -> nth_error cs (S j) = Some b -> a <= b.
Proof.
  induction cs as [|x t IH]; intros j a b Hs Ha Hb.
  - destruct j; discriminate.
  - destruct t as [|y t']; [destruct j; simpl in Hb; [discriminate | destruct j; discriminate]|].
    simpl in Hs. apply andb_true_iff in Hs as [Hxy Hs]. apply Qle_bool_iff in Hxy.
    destruct j; simpl in *.
    + inversion Ha; inversion Hb; subst; auto.
    + eapply IH; eauto.
Qed.

(* min <= max over a non-empty coordinate *)
Lemma fold_min_le : forall t a, fold_left (fun m v => if Qltb v m then v else m) t a <= a.
Proof.
  induction t as [|v t IH]; intros a; simpl; [lra|].
  destruct (Qltb v a) eqn:E.
  - apply Qltb_lt in E. specialize (IH v). lra.
  - apply IH.
Qed.
Lemma fold_max_ge : forall t a, a <= fold_left (fun m v => if Qltb m v then v else m) t a.
Proof.
  induction t as [|v t IH]; intros a; simpl; [lra|].
  destruct (Qltb a v) eqn:E.
  - apply Qltb_lt in E. specialize (IH v). lra.
  - apply IH.
Qed.
Lemma data_range_nonempty : forall xs, xs <> [] -> qmin_list xs <= qmax_list xs.
Proof.
  intros [|a t] H; [congruence|]. unfold qmin_list, qmax_list.
  pose proof (fold_min_le t a). pose proof (fold_max_ge t a). lra.
Qed.

Definition neighbour (cs : list Q) (i : nat) (left : bool) : option Q :=
  if left then match i with O => None | S j => nth_error cs j end else nth_error cs (S i).

(* the property's window clause, for the construction with the clip LAST *)
Theorem windows_ok : clip_last V = true ->
  forall xs cs width fp ws,
  xs <> [] -> 0 <= width ->
  0 <= neighbor_separation_factor fp -> neighbor_separation_factor fp <= 1 ->
  fit_windows V next_up xs cs width fp = Ok ws ->
  length ws = length cs /\
  forall i w, nth_error ws i = Some w ->
    exists c, nth_error cs i = Some c /\
      window_ok (qmin_list xs) (qmax_list xs) (neighbor_separation_factor fp) c
                (neighbour cs i true) (neighbour cs i false) w.
Proof using next_up_gt.
  intros HV xs cs width fp ws Hxs Hw Hs0 Hs1 H. unfold fit_windows in H.
  destruct (sorted_asc cs) eqn:Hsort; simpl in H; [|discriminate]. inversion H; subst ws; clear H.
  split; [apply windows_go_length|].
  intros i w Hn. apply windows_go_nth in Hn as [c [Hc Hwd]]. exists c. split; auto.
  rewrite Hwd. unfold neighbour. apply one_window_fixed; auto.
  - apply data_range_nonempty; auto.
  - intros l Hl. destruct i as [|j]; [discriminate|]. eapply sorted_adjacent; eauto.
  - intros r Hr. eapply sorted_adjacent; eauto.
Qed.

(* for estimates inside the data range the clause holds for either order of clipping and separating *)
Theorem windows_ok_in_range :
  forall xs cs width fp ws,
  0 <= width -> 0 <= neighbor_separation_factor fp -> neighbor_separation_factor fp <= 1 ->
  fit_windows V next_up xs cs width fp = Ok ws ->
  length ws = length cs /\
  forall i w, nth_error ws i = Some w ->
    exists c, nth_error cs i = Some c /\
      (qmin_list xs <= c -> c <= qmax_list xs ->
       window_ok_in_range (qmin_list xs) (qmax_list xs) (neighbor_separation_factor fp) c
                          (neighbour cs i true) (neighbour cs i false) w).
Proof using next_up_gt.
  intros xs cs width fp ws Hw Hs0 Hs1 H. unfold fit_windows in H.
  destruct (sorted_asc cs) eqn:Hsort; simpl in H; [|discriminate]. inversion H; subst ws; clear H.
  split; [apply windows_go_length|].
  intros i w Hn. apply windows_go_nth in Hn as [c [Hc Hwd]]. exists c. split; auto.
  intros Hc1 Hc2. rewrite Hwd. unfold neighbour. apply one_window_in_range; auto.
  - intros l Hl. destruct i as [|j]; [discriminate|]. eapply sorted_adjacent; eauto.
  - intros r Hr. eapply sorted_adjacent; eauto.
Qed.

(* unsorted estimates are refused, never mis-windowed *)
Lemma unsorted_refused : forall xs cs width fp,
  sorted_asc cs = false -> exists m, fit_windows V next_up xs cs width fp = Raise (ValueError m).
Proof. intros xs cs width fp H. unfold fit_windows. rewrite H. simpl. eauto. Qed.

End W.
