(* C17/ProofsRemove.v — remove_peaks: the output equals the input outside the union of the successful
   windows; inside, every successful window containing x_i subtracts its fitted peak at x_i.
   (The input is a value here; that the Python object is not written to is observed by the
   correspondence run on every call.) *)
From Coq Require Import QArith Qabs ZArith String List Bool Lia Lqa.
From Verif.C17 Require Import Model Proofs.
Import ListNotations.
Open Scope Q_scope.

Section R.
Variable peval : fitres -> Q -> Q.

Definition is_success (r : fitres) : bool := assessment_eqb (r_assess r) success.
Definition touches (r : fitres) (x : Q) : bool :=
  is_success r && in_window (fst (r_window r)) (snd (r_window r)) x.
(* sum of the fitted peaks of the successful windows containing x *)
Fixpoint total_sub (rs : list fitres) (x : Q) : Q :=
  match rs with
  | [] => 0
  | r :: t => (if touches r x then peval r x else 0) + total_sub t x
  end.
Definition untouched (rs : list fitres) (x : Q) : bool := forallb (fun r => negb (touches r x)) rs.

Definition valid_windows (rs : list fitres) : Prop :=
  forall r, In r rs -> is_success r = true -> fst (r_window r) <= snd (r_window r).

Lemma not_inverted : forall lo hi (d : list (Q * Q)), lo <= hi ->
  existsb (fun p => Qle_bool hi (fst p) && Qltb (fst p) lo) d = false.
Proof.
  intros lo hi d H. induction d as [|p t IH]; simpl; auto. rewrite IH, orb_false_r.
  destruct (Qle_bool hi (fst p)) eqn:E1; simpl; auto.
  destruct (Qltb (fst p) lo) eqn:E2; auto.
  apply Qle_bool_iff in E1. apply Qltb_lt in E2. lra.
Qed.

Lemma Forall2_map_l : forall {A B C} (R : B -> C -> Prop) (g : A -> B) l l',
  Forall2 R (map g l) l' <-> Forall2 (fun a c => R (g a) c) l l'.
Proof.
  intros A B C R g l; induction l as [|a t IH]; intros l'; split; intro H.
  - inversion H; constructor.
  - inversion H; constructor.
  - simpl in H. inversion H; subst. constructor; auto. apply IH; auto.
  - inversion H; subst. simpl. constructor; auto. apply IH; auto.
Qed.

Definition point_ok (rs : list fitres) (p o : Q * Q) : Prop :=
  fst o = fst p /\ snd o == snd p - total_sub rs (fst p) /\ (untouched rs (fst p) = true -> o = p).

Lemma remove_go_spec : forall rs d, valid_windows rs ->
  exists out, remove_go peval rs d = Ok out /\ Forall2 (point_ok rs) d out.
Proof.
  induction rs as [|r t IH]; intros d Hv; simpl.
  - exists d. split; auto. induction d; constructor; auto. unfold point_ok; simpl. repeat split; auto. ring.
  - assert (Hvt : valid_windows t) by (intros r' Hin; apply Hv; right; auto).
    fold (is_success r). destruct (is_success r) eqn:Es.
    + unfold subtract_in_window. rewrite not_inverted by (apply Hv; simpl; auto). simpl.
      destruct (IH (map (fun p => if in_window (fst (r_window r)) (snd (r_window r)) (fst p)
                                  then (fst p, snd p - peval r (fst p)) else p) d) Hvt) as [out [Ho HF]].
      exists out. split; auto. apply (proj1 (Forall2_map_l _ _ _ _)) in HF.
      eapply Forall2_impl'; [|exact HF]. intros p o. cbv beta.
      destruct (in_window (fst (r_window r)) (snd (r_window r)) (fst p)) eqn:Ew;
        intros [H1 [H2 H3]]; simpl in H1, H2, H3; unfold point_ok; simpl.
      * replace (touches r (fst p)) with true by (unfold touches; rewrite Es, Ew; reflexivity). simpl.
        split; auto. split; [rewrite H2; ring|]. intros C; discriminate.
      * replace (touches r (fst p)) with false by (unfold touches; rewrite Es, Ew; reflexivity). simpl.
        split; auto. split; [rewrite H2; ring|]. auto.
    + destruct (IH d Hvt) as [out [Ho HF]]. exists out. split; auto.
      eapply Forall2_impl'; [|exact HF]. intros p o [H1 [H2 H3]]. unfold point_ok; simpl.
      replace (touches r (fst p)) with false by (unfold touches; rewrite Es; reflexivity). simpl.
      split; auto. split; [rewrite H2; ring|]. auto.
Qed.

Theorem remove_peaks_frame : forall d rs, valid_windows rs ->
  exists out, remove_peaks peval false d rs = Ok out /\
    length out = length d /\
    forall i p, nth_error d i = Some p ->
      exists o, nth_error out i = Some o /\
        fst o = fst p /\                                      (* coordinates kept *)
        snd o == snd p - total_sub rs (fst p) /\              (* inside: minus the fitted peaks of the windows containing x *)
        (untouched rs (fst p) = true -> o = p).               (* outside every successful window: untouched *)
Proof.
  intros d rs Hv. unfold remove_peaks. destruct (remove_go_spec rs d Hv) as [out [Ho HF]].
  exists out. split; auto. split; [symmetry; eapply Forall2_length'; eauto|].
  intros i p Hn. destruct (Forall2_nth _ _ _ _ _ HF Hn) as [o [Hno Hp]]. exists o. split; auto.
Qed.

Theorem remove_peaks_refuses_variances : forall d rs,
  exists m, remove_peaks peval true d rs = Raise (VariancesError m).
Proof. intros; unfold remove_peaks; eauto. Qed.

(* unsuccessful fits are ignored altogether *)
Lemma total_sub_ignores_failures : forall rs x,
  (forall r, In r rs -> is_success r = false) -> total_sub rs x = 0 /\ untouched rs x = true.
Proof.
  induction rs as [|r t IH]; intros x H; simpl; auto.
  destruct (IH x) as [H1 H2]. { intros; apply H; right; auto. }
  unfold touches. rewrite (H r) by (left; auto). simpl. rewrite H1, H2. split; reflexivity.
Qed.

End R.
