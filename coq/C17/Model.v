(* C17/Model.v — executable Gallina model of src/scippneutron/peaks/_fit_peaks.py and
   _remove_peaks.py.  Definitions only (no proofs here).

   The optimiser, the initial-guess heuristics, the evaluation of a peak/background
   model at a point (C16's subject), the logarithm and the chi-square CDF are ORACLES
   (Section variables): everything the theorems of C17 say holds for every behaviour
   of these functions.  Coordinates, windows and statistics are exact rationals.

   Three places where the unchanged source violates the property are kept
   switchable by a [variant] (one definition to swap per defect):
     guard_first  = false : the initial guesses run BEFORE the point-count guard (source as found, F7)
     clip_last    = false : windows are clipped to the data range BEFORE the neighbour separation
     nan_p_fails  = false : the p-value test is `p < min_p` (a NaN p-value passes)
   [V_orig] is the tree as found, [V_fixed] the tree with the three proposed patches. *)
From Coq Require Import QArith Qabs ZArith String List Bool DecimalString Qround.
Import ListNotations.
Open Scope string_scope.
Open Scope list_scope.
Open Scope Q_scope.
Infix "+++" := String.append (at level 60, right associativity).

(* ------------------------------------------------------------------ exceptions *)
Inductive exn :=
| ValueError (m : string)
| IndexError (m : string)
| CoordError (m : string)
| VariancesError (m : string)
| Unreachable (m : string).

Inductive res (A : Type) := Ok (a : A) | Raise (e : exn).
Arguments Ok {A} a.
Arguments Raise {A} e.

Definition bind {A B} (r : res A) (f : A -> res B) : res B :=
  match r with Ok a => f a | Raise e => Raise e end.
Notation "x <- e ;; f" := (bind e (fun x => f)) (at level 61, e at next level, right associativity).

Fixpoint mapM {A B} (f : A -> res B) (l : list A) : res (list B) :=
  match l with
  | [] => Ok []
  | a :: t => b <- f a ;; bs <- mapM f t ;; Ok (b :: bs)
  end.

(* ------------------------------------------------------------------ numbers *)
(* statistics are IEEE values: finite, +-inf or NaN *)
Inductive xnum := Fin (q : Q) | PInf | NInf | NaN.

Definition Qltb (a b : Q) : bool := negb (Qle_bool b a).

Record variant := mkV { guard_first : bool; clip_last : bool; nan_p_fails : bool }.
Definition V_orig := mkV false false false.
Definition V_fixed := mkV true true true.

(* ------------------------------------------------------------------ models and their parameters *)
Inductive pkind := Gaussian | Lorentzian | PseudoVoigt.
Inductive mkind := MPeak (p : pkind) | MPoly (degree : nat).
Inductive spec_item := SName (s : string) | SInst (m : mkind).
Inductive mspec := SOne (i : spec_item) | SMany (l : list spec_item).

Definition nat_str (n : nat) : string := NilEmpty.string_of_uint (Nat.to_uint n).

(* parameter names INCLUDING the prefix, in alphabetical order (the canonical order used
   for every parameter dictionary in this model; Python dict/set order is not observable) *)
Definition param_names (prefix : string) (m : mkind) : list string :=
  match m with
  | MPoly d => map (fun i => prefix +++ "a" +++ nat_str i) (seq 0 (S d))
  | MPeak PseudoVoigt => [prefix +++ "amplitude"; prefix +++ "fraction"; prefix +++ "loc"; prefix +++ "scale"]
  | MPeak _ => [prefix +++ "amplitude"; prefix +++ "loc"; prefix +++ "scale"]
  end.

Definition params := list (string * Q).
Definition bounds := list (string * (xnum * xnum)).

Fixpoint getp (name : string) (p : params) : option Q :=
  match p with
  | [] => None
  | (n, v) :: t => if String.eqb n name then Some v else getp name t
  end.

(* Model.param_bounds *)
Definition param_bounds (prefix : string) (m : mkind) : bounds :=
  match m with
  | MPoly _ => []
  | MPeak PseudoVoigt => [(prefix +++ "fraction", (Fin 0, Fin 1)); (prefix +++ "scale", (Fin 0, PInf))]
  | MPeak _ => [(prefix +++ "scale", (Fin 0, PInf))]
  end.
(* _peak_param_bounds: {**peak.param_bounds, 'peak_amplitude': (0, inf)} *)
Definition peak_param_bounds (pk : mkind) : bounds :=
  ("peak_amplitude", (Fin 0, PInf)) :: param_bounds "peak_" pk.

(* what is handed to curve_fit: the background alone, or background + peak *)
Inductive fitmodel := FBkg (b : mkind) | FSum (b p : mkind).
Definition fm_names (fm : fitmodel) : list string :=
  match fm with
  | FBkg b => param_names "bkg_" b
  | FSum b p => param_names "bkg_" b ++ param_names "peak_" p
  end.

(* Model.fwhm: 2*sqrt(2 ln 2)*scale for the Gaussian (the binary64 constant Python computes),
   2*scale for the Lorentzian and the pseudo-Voigt; None = NotImplementedError / KeyError *)
Definition C_GAUSS_FWHM : Q := 5302428712241725 # 2251799813685248.   (* 2.3548200450309493 *)
Definition fwhm (pk : mkind) (popt : params) : option Q :=
  match pk, getp "peak_scale" popt with
  | MPeak Gaussian, Some s => Some (C_GAUSS_FWHM * s)
  | MPeak _, Some s => Some (2 * s)
  | _, _ => None
  end.

(* ------------------------------------------------------------------ _parse_model_spec *)
Definition parse_single (i : spec_item) : res mkind :=
  match i with
  | SInst m => Ok m                                   (* spec.with_prefix(prefix) *)
  | SName s =>
      if String.eqb s "linear" then Ok (MPoly 1)
      else if String.eqb s "quadratic" then Ok (MPoly 2)
      else if String.eqb s "gaussian" then Ok (MPeak Gaussian)
      else if String.eqb s "lorentzian" then Ok (MPeak Lorentzian)
      else if String.eqb s "pseudo_voigt" then Ok (MPeak PseudoVoigt)
      else Raise (ValueError "Unknown model")
  end.
Definition parse_model_spec (s : mspec) : res (list mkind) :=
  match s with
  | SOne i => mapM parse_single [i]
  | SMany [] => Raise (ValueError "No models specified")
  | SMany l => mapM parse_single l
  end.

(* ------------------------------------------------------------------ data *)
Record pt := mkpt { px : Q; py : Q; pvar : Q }.

Fixpoint sorted_asc (l : list Q) : bool :=
  match l with
  | a :: ((b :: _) as t) => Qle_bool a b && sorted_asc t
  | _ => true
  end.

(* scipp label-based slicing data[dim, lo:hi] on a point coordinate sorted ascending:
   begin = number of points with x < lo, end = number of points with x < hi,
   IndexError if end < begin (i.e. some point has hi <= x < lo), else the points lo <= x < hi *)
Definition in_window (lo hi : Q) (x : Q) : bool := Qle_bool lo x && Qltb x hi.
Definition slice_labels (d : list pt) (lo hi : Q) : res (list pt) :=
  if existsb (fun p => Qle_bool hi (px p) && Qltb (px p) lo) d
  then Raise (IndexError "end must be >= begin")
  else Ok (filter (fun p => in_window lo hi (px p)) d).

(* Python slices data[:n], data[-n:], data[n:-n] for an int n >= 0 (note -0 == 0) *)
Definition py_head {A} (n : nat) (d : list A) : list A := firstn n d.
Definition py_tail {A} (n : nat) (d : list A) : list A :=
  if Nat.eqb n 0 then d else skipn (List.length d - n) d.
Definition py_mid {A} (n : nat) (d : list A) : list A :=
  if Nat.eqb n 0 then [] else firstn (List.length d - n - n) (skipn n d).

(* ------------------------------------------------------------------ fit parameters / requirements / results *)
Record fit_parameters := mkFP { guess_background_fraction : Q; neighbor_separation_factor : Q }.
Record fit_requirements := mkFR { min_p_value : Q; max_peak_width_factor : Q; min_peak_width_factor : Q }.

Inductive assessment :=
| success | failed | background_is_better | peak_too_narrow | peak_too_wide
| peak_near_edge | peak_points_down | p_too_small | window_too_narrow.

Definition assessment_eqb (a b : assessment) : bool :=
  match a, b with
  | success, success | failed, failed | background_is_better, background_is_better
  | peak_too_narrow, peak_too_narrow | peak_too_wide, peak_too_wide | peak_near_edge, peak_near_edge
  | peak_points_down, peak_points_down | p_too_small, p_too_small | window_too_narrow, window_too_narrow => true
  | _, _ => false
  end.

Definition message_from_assessment (a : assessment) : string :=
  match a with
  | success => "success" | peak_too_narrow => "peak too narrow" | peak_too_wide => "peak too wide"
  | peak_points_down => "wrong sign" | window_too_narrow => "window too narrow"
  | peak_near_edge => "too close to edge" | p_too_small => "p-value too small"
  | background_is_better => "background is better" | failed => "failure"
  end.

Record stats := mkStats { red_chisq : xnum; p_value : xnum; aic : xnum }.

Record fitres := mkRes {
  r_assess : assessment; r_peak : mkind; r_bkg : mkind; r_window : Q * Q;
  r_popt : list (string * xnum); r_stats : stats; r_msg : string }.

(* FitResult.for_failure / for_too_narrow_window *)
Definition for_failure (a : option assessment) (pk bk : mkind) (w : Q * Q) (msg : option string) : fitres :=
  let a' := match a with None => failed | Some x => x end in
  mkRes a' pk bk w
        (map (fun n => (n, NaN)) (param_names "bkg_" bk ++ param_names "peak_" pk))
        (mkStats NaN NaN NInf)
        (match msg with Some m => m | None => message_from_assessment a' end).
Definition for_too_narrow_window (pk bk : mkind) (w : Q * Q) : fitres :=
  for_failure (Some window_too_narrow) pk bk w None.

Inductive fit_outcome := FitOk (popt : params) | FitRuntimeError (msg : string).

(* ------------------------------------------------------------------ everything around the oracles *)
Section Model.
Variable V : variant.
(* `a < b` as evaluated on binary64 operands (exact on the theorems' side; a banded
   comparison in the correspondence run) *)
Variable lt : Q -> Q -> bool.
(* np.nextafter(x, inf) *)
Variable next_up : Q -> Q.
(* Model.guess of a single model (given its prefix) on a piece of the window; numpy's Polynomial.fit
   and argmax raise ValueError on empty input *)
Variable guess : string -> mkind -> list pt -> res params.
(* scipp.scipy.optimize.curve_fit: optimised parameters or RuntimeError *)
Variable curve_fit : fitmodel -> list pt -> params -> bounds -> fit_outcome.
(* model(x; params): the model formulas are C16's subject *)
Variable feval : fitmodel -> params -> Q -> Q.
Variable ln : Q -> Q.
(* scipy.stats.chi2(dof).cdf(x) for dof >= 1 *)
Variable chi2cdf : Z -> Q -> Q.

Definition xlt (a b : xnum) : bool :=
  match a, b with
  | NaN, _ => false
  | _, NaN => false
  | Fin x, Fin y => lt x y
  | NInf, NInf => false
  | NInf, _ => true
  | PInf, _ => false
  | Fin _, PInf => true
  | Fin _, NInf => false
  end.
(* `a >= b` on IEEE values *)
Definition xge (a b : xnum) : bool :=
  match a, b with
  | NaN, _ => false
  | _, NaN => false
  | Fin x, Fin y => negb (lt x y)
  | PInf, _ => true
  | _, NInf => true
  | Fin _, PInf => false
  | NInf, _ => false
  end.

(* --- _chi_square, _akaike_information_criterion, _goodness_of_fit_statistics *)
Definition chi_term (f : Q -> Q) (p : pt) : Q :=
  let r := py p - f (px p) in (r * r) / pvar p.
Definition chi_square (d : list pt) (fm : fitmodel) (popt : params) : Q :=
  let f := feval fm popt in
  fold_right (fun p acc => Qred (chi_term f p + acc)) 0 d.

Definition nq (n : nat) : Q := inject_Z (Z.of_nat n).

Definition akaike (n : nat) (chi2 : Q) (k : nat) : xnum :=
  if Nat.eqb n 0 then NaN
  else if Qeq_bool chi2 0 then NInf
  else Fin (nq n * ln (chi2 / nq n) + 2 * nq k).

Definition goodness (d : list pt) (fm : fitmodel) (popt : params) : stats :=
  let n := List.length d in
  let k := List.length popt in
  let n_dof := (Z.of_nat n - Z.of_nat k)%Z in
  let chi2 := chi_square d fm popt in
  let red := if Z.eqb n_dof 0 then (if Qeq_bool chi2 0 then NaN else PInf)
             else Fin (chi2 / inject_Z n_dof) in
  let p := if Z.leb n_dof 0 then NaN else Fin (1 - chi2cdf n_dof chi2) in
  mkStats red p (akaike n chi2 k).

(* --- _assess_fit and its predicates *)
Fixpoint diffs (l : list Q) : list Q :=
  match l with
  | a :: ((b :: _) as t) => (b - a) :: diffs t
  | _ => []
  end.
Definition qmin_list (l : list Q) : Q :=
  match l with [] => 0 | a :: t => fold_left (fun m v => if Qltb v m then v else m) t a end.
Definition first_x (xs : list Q) : Q := hd 0 xs.
Definition last_x (xs : list Q) : Q := last xs 0.

Definition peak_is_near_edge (xs : list Q) (loc : Q) : bool :=
  let step := qmin_list (diffs xs) in
  lt (loc - first_x xs) (2 * step) || lt (last_x xs - loc) (2 * step).

Definition curve_points_down (popt : params) : bool :=
  match getp "peak_amplitude" popt with Some a => lt a 0 | None => false end.

Definition peak_is_too_wide (xs : list Q) (fw : Q) (fr : fit_requirements) : bool :=
  lt (max_peak_width_factor fr * (last_x xs - first_x xs)) fw.

(* np.argmin(abs(coord - loc)): first index of the minimum *)
Fixpoint argmin_go (l : list Q) (i best_i : nat) (best : Q) : nat :=
  match l with
  | [] => best_i
  | v :: t => if Qltb v best then argmin_go t (S i) i v else argmin_go t (S i) best_i best
  end.
Definition argmin_abs (xs : list Q) (loc : Q) : nat :=
  match map (fun x => Qabs (x - loc)) xs with
  | [] => 0%nat
  | v :: t => argmin_go t 1 0 v
  end.
(* (coord[c + 1] - coord[c - 1]) / 2 with Python/scipp index rules: c + 1 past the end raises
   IndexError, c - 1 = -1 wraps to the last element *)
Definition local_bin_width (xs : list Q) (c : nat) : res Q :=
  match nth_error xs (S c) with
  | None => Raise (IndexError "index out of range")
  | Some hi =>
      let lo := match c with O => last_x xs | S c' => nth c' xs 0 end in
      Ok ((hi - lo) / 2)
  end.
Definition peak_is_too_narrow (xs : list Q) (loc fw : Q) (fr : fit_requirements) : res bool :=
  bw <- local_bin_width xs (argmin_abs xs loc) ;;
  Ok (lt fw (min_peak_width_factor fr * bw)).

Definition p_fails (p : xnum) (fr : fit_requirements) : bool :=
  if nan_p_fails V then negb (xge p (Fin (min_p_value fr)))
  else xlt p (Fin (min_p_value fr)).

Definition assess_fit (d : list pt) (pk : mkind) (popt : params) (st : stats) (bkg : option stats)
                      (fr : fit_requirements) : res assessment :=
  let xs := map px d in
  if match bkg with Some b => xlt (aic b) (aic st) | None => false end then Ok background_is_better
  else if p_fails (p_value st) fr then Ok p_too_small
  else match getp "peak_loc" popt with
  | None => Raise (ValueError "KeyError: peak_loc")
  | Some loc =>
    if peak_is_near_edge xs loc then Ok peak_near_edge
    else if curve_points_down popt then Ok peak_points_down
    else match fwhm pk popt with
    | None => Raise (ValueError "NotImplementedError: fwhm")
    | Some fw =>
      if peak_is_too_wide xs fw fr then Ok peak_too_wide
      else
        tn <- peak_is_too_narrow xs loc fw fr ;;
        if tn then Ok peak_too_narrow else Ok success
    end
  end.

(* --- _guess_background / _guess_peak: n = int(len * fraction / 2) *)
Definition guess_n (d : list pt) (fp : fit_parameters) : nat :=
  Z.to_nat (Qfloor (nq (List.length d) * guess_background_fraction fp / 2)).
Definition guess_background (d : list pt) (bk : mkind) (fp : fit_parameters) : res params :=
  let n := guess_n d fp in guess "bkg_" bk (py_head n d ++ py_tail n d).
Definition guess_peak (d : list pt) (pk : mkind) (fp : fit_parameters) : res params :=
  let n := guess_n d fp in guess "peak_" pk (py_mid n d).

(* --- _fit_background / _perform_fit *)
Definition fit_background (bk : mkind) (d : list pt) (p0 : params) : option stats :=
  match curve_fit (FBkg bk) d p0 (param_bounds "bkg_" bk) with
  | FitRuntimeError _ => None
  | FitOk popt => Some (goodness d (FBkg bk) popt)
  end.

Definition xpopt (p : params) : list (string * xnum) := map (fun nv => (fst nv, Fin (snd nv))) p.

(* --- _fit_peak_single_model *)
Definition n_params (pk bk : mkind) : nat := List.length (fm_names (FSum bk pk)).

Definition fit_core (d : list pt) (pk bk : mkind) (w : Q * Q) (bkg_p0 pk_p0 : params)
                    (fr : fit_requirements) : res fitres :=
  let fm := FSum bk pk in
  let p0 := bkg_p0 ++ pk_p0 in
  let bnds := param_bounds "bkg_" bk ++ peak_param_bounds pk in
  let bkg_stats := fit_background bk d bkg_p0 in
  match curve_fit fm d p0 bnds with
  | FitRuntimeError msg => Ok (for_failure None pk bk w (Some msg))
  | FitOk popt =>
      let st := goodness d fm popt in
      a <- assess_fit d pk popt st bkg_stats fr ;;
      Ok (mkRes a pk bk w (xpopt popt) st (message_from_assessment a))
  end.

Definition fit_peak_single_model (d : list pt) (pk bk : mkind) (w : Q * Q)
                                 (fp : fit_parameters) (fr : fit_requirements) : res fitres :=
  let too_few := Nat.ltb (List.length d) (n_params pk bk) in
  if guard_first V then
    (* proposed order: the point-count guard comes first *)
    if too_few then Ok (for_too_narrow_window pk bk w)
    else
      bkg_p0 <- guess_background d bk fp ;;
      pk_p0 <- guess_peak d pk fp ;;
      fit_core d pk bk w bkg_p0 pk_p0 fr
  else
    (* source as found: both guesses are evaluated before the guard *)
    bkg_p0 <- guess_background d bk fp ;;
    pk_p0 <- guess_peak d pk fp ;;
    if too_few then Ok (for_too_narrow_window pk bk w)
    else fit_core d pk bk w bkg_p0 pk_p0 fr.

(* --- _fit_peak: itertools.product(peaks, backgrounds); first success wins, otherwise the
   FIRST candidate's result is kept *)
Definition candidates (pks bks : list mkind) : list (mkind * mkind) :=
  flat_map (fun p => map (fun b => (p, b)) bks) pks.

Fixpoint fit_peak_go (d : list pt) (w : Q * Q) (cands : list (mkind * mkind)) (keep : option fitres)
                     (fp : fit_parameters) (fr : fit_requirements) : res fitres :=
  match cands with
  | [] => match keep with Some r => Ok r | None => Raise (Unreachable "no candidate models") end
  | (pk, bk) :: cs =>
      r <- fit_peak_single_model d pk bk w fp fr ;;
      if assessment_eqb (r_assess r) success then Ok r
      else fit_peak_go d w cs (match keep with None => Some r | Some k => Some k end) fp fr
  end.
Definition fit_peak (d : list pt) (w : Q * Q) (bks pks : list mkind)
                    (fp : fit_parameters) (fr : fit_requirements) : res fitres :=
  fit_peak_go d w (candidates pks bks) None fp fr.

(* --- _fit_windows, _clip_to_data_range, _separate_from_neighbors_in_place *)
Definition qmax_list (l : list Q) : Q :=
  match l with [] => 0 | a :: t => fold_left (fun m v => if Qltb m v then v else m) t a end.

(* sc.where(w < lo, lo, w) then sc.where(w > hi, hi, w) *)
Definition clip (lo hi w : Q) : Q :=
  let w1 := if Qltb w lo then lo else w in
  if Qltb hi w1 then hi else w1.

(* one window from its centre and its optional left / right neighbour centres *)
Definition sep_left (s : Q) (c : Q) (left : option Q) (w0 : Q) : Q :=
  match left with
  | None => w0
  | Some l => let b := l + (c - l) * s in if Qltb w0 b then b else w0
  end.
Definition sep_right (s : Q) (c : Q) (right : option Q) (w1 : Q) : Q :=
  match right with
  | None => w1
  | Some r => let b := r - (r - c) * s in if Qltb b w1 then b else w1
  end.
Definition one_window (lo hi width s : Q) (c : Q) (left right : option Q) : Q * Q :=
  let a0 := c - width / 2 in
  let a1 := next_up (c + width / 2) in
  if clip_last V
  then (clip lo hi (sep_left s c left a0), clip lo hi (sep_right s c right a1))
  else (sep_left s c left (clip lo hi a0), sep_right s c right (clip lo hi a1)).

(* centre i with its neighbours i-1 / i+1 (None at the two ends): center[:-1] / center[1:] *)
Fixpoint windows_go (f : Q -> option Q -> option Q -> Q * Q) (prev : option Q) (cs : list Q) : list (Q * Q) :=
  match cs with
  | [] => []
  | c :: t => f c prev (hd_error t) :: windows_go f (Some c) t
  end.

Definition fit_windows (xs : list Q) (cs : list Q) (width : Q) (fp : fit_parameters) : res (list (Q * Q)) :=
  if negb (sorted_asc cs) then Raise (ValueError "Fit window centers must be sorted")
  else
    Ok (windows_go (one_window (qmin_list xs) (qmax_list xs) width (neighbor_separation_factor fp)) None cs).

(* --- fit_peaks *)
Inductive wspec := WScalar (width : Q) | WExplicit (ws : list (Q * Q)).

Definition fit_peaks (d : list pt) (cs : list Q) (wsp : wspec) (bspec pspec : mspec)
                     (fp : fit_parameters) (fr : fit_requirements) : res (list fitres) :=
  if negb (sorted_asc (map px d)) then Raise (CoordError "fit_peaks requires the coordinate to be sorted")
  else
    bks <- parse_model_spec bspec ;;
    pks <- parse_model_spec pspec ;;
    ws <- match wsp with
          | WScalar width => fit_windows (map px d) cs width fp
          | WExplicit l => Ok l
          end ;;
    mapM (fun w => dw <- slice_labels d (fst w) (snd w) ;; fit_peak dw w bks pks fp fr) ws.

End Model.

(* ------------------------------------------------------------------ remove_peaks *)
Section Remove.
(* FitResult.eval_peak: the fitted peak model at x *)
Variable peval : fitres -> Q -> Q.

Definition subtract_in_window (r : fitres) (d : list (Q * Q)) : res (list (Q * Q)) :=
  let lo := fst (r_window r) in
  let hi := snd (r_window r) in
  if existsb (fun p => Qle_bool hi (fst p) && Qltb (fst p) lo) d
  then Raise (IndexError "end must be >= begin")
  else Ok (map (fun p => if in_window lo hi (fst p) then (fst p, snd p - peval r (fst p)) else p) d).

Fixpoint remove_go (rs : list fitres) (d : list (Q * Q)) : res (list (Q * Q)) :=
  match rs with
  | [] => Ok d
  | r :: t =>
      if assessment_eqb (r_assess r) success
      then d' <- subtract_in_window r d ;; remove_go t d'
      else remove_go t d
  end.

(* data: (x, y) pairs; has_variances: whether data.variances is not None *)
Definition remove_peaks (has_variances : bool) (d : list (Q * Q)) (rs : list fitres) : res (list (Q * Q)) :=
  if has_variances then Raise (VariancesError "Cannot remove peaks from data with variances")
  else remove_go rs d.
End Remove.
