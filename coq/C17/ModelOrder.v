(* C17/ModelOrder.v — "model product order, first success wins" stated on a list of results
   (definitions only).  [first_success rs] is what _fit_peak returns when [rs] are the results of
   the candidate (peak, background) pairs fitted one by one in the documented order
   (Model.candidates: peak outer, background inner — "the background is varied first"):
   the first result marked successful, otherwise the first candidate's result.
   ProofsOrder.v proves that Model.fit_peak is exactly this function of the single-combination
   fits; coq-run/C17/Corr.v evaluates it on the results the IMPLEMENTATION returns for every
   combination fitted on its own and compares with what the implementation returns for the lists. *)
From Coq Require Import QArith String List Bool.
From Verif.C17 Require Import Model.
Import ListNotations.

Definition res_success (r : fitres) : bool := assessment_eqb (r_assess r) success.

Definition first_success (rs : list fitres) : option fitres :=
  match find res_success rs with
  | Some r => Some r
  | None => hd_error rs
  end.

(* position (in documented order) of the combination of peak i and background j *)
Definition candidate_index (n_bks i j : nat) : nat := (i * n_bks + j)%nat.
