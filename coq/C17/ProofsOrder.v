(* C17/ProofsOrder.v — model selection: the result of _fit_peak for LISTS of models is the first
   success, in the documented order, among the fits of every combination on its own. *)
From Coq Require Import QArith ZArith String List Bool Lia.
From Verif.C17 Require Import Model ModelOrder Proofs.
Import ListNotations.
Open Scope Q_scope.

(* ---- the documented order: peak outer, background inner *)
Lemma candidates_cons : forall p pks bks,
  candidates (p :: pks) bks = map (fun b => (p, b)) bks ++ candidates pks bks.
Proof. reflexivity. Qed.

Lemma candidates_length : forall pks bks, length (candidates pks bks) = (length pks * length bks)%nat.
Proof.
  induction pks as [|p t IH]; intros bks; [reflexivity|].
  rewrite candidates_cons, app_length, map_length, IH. simpl. reflexivity.
Qed.

Theorem candidates_order : forall pks bks i j p b,
  nth_error pks i = Some p -> nth_error bks j = Some b ->
  nth_error (candidates pks bks) (candidate_index (length bks) i j) = Some (p, b).
Proof.
  unfold candidate_index.
  induction pks as [|p0 t IH]; intros bks i j p b Hp Hb.
  - destruct i; discriminate.
  - rewrite candidates_cons. destruct i as [|i].
    + simpl in Hp. inversion Hp; subst. simpl Nat.add.
      rewrite nth_error_app1.
      * apply map_nth_error; exact Hb.
      * rewrite map_length. apply nth_error_Some. rewrite Hb; discriminate.
    + simpl in Hp. rewrite nth_error_app2; rewrite map_length.
      * replace (S i * length bks + j - length bks)%nat with (i * length bks + j)%nat by (simpl; lia).
        apply IH; assumption.
      * simpl; lia.
Qed.

Example candidates_2x2 : forall p0 p1 b0 b1,
  candidates [p0; p1] [b0; b1] = [(p0, b0); (p0, b1); (p1, b0); (p1, b1)].
Proof. reflexivity. Qed.
Example candidates_2x3 : forall p0 p1 p2 b0 b1,
  candidates [p0; p1; p2] [b0; b1] = [(p0, b0); (p0, b1); (p1, b0); (p1, b1); (p2, b0); (p2, b1)].
Proof. reflexivity. Qed.

Lemma find_success_hd : forall rs, rs <> [] -> exists r, first_success rs = Some r.
Proof.
  intros [|r t] H; [contradiction|]. unfold first_success.
  destruct (find res_success (r :: t)); eauto. simpl; eauto.
Qed.

Section Order.
Variable V : variant.
Variable lt : Q -> Q -> bool.
Variable guess : string -> mkind -> list pt -> res params.
Variable curve_fit : fitmodel -> list pt -> params -> bounds -> fit_outcome.
Variable feval : fitmodel -> params -> Q -> Q.
Variable ln : Q -> Q.
Variable chi2cdf : Z -> Q -> Q.

Notation fit_peak' := (fit_peak V lt guess curve_fit feval ln chi2cdf).
Notation single' := (fit_peak_single_model V lt guess curve_fit feval ln chi2cdf).
Notation go' := (fit_peak_go V lt guess curve_fit feval ln chi2cdf).

(* a single-model specification IS the single-combination fit *)
Lemma fit_peak_single_spec : forall d w pk bk fp fr,
  fit_peak' d w [bk] [pk] fp fr = single' d pk bk w fp fr.
Proof.
  intros. unfold fit_peak, candidates. simpl.
  destruct (single' d pk bk w fp fr) as [r|e]; simpl; [|reflexivity].
  destruct (assessment_eqb (r_assess r) success); reflexivity.
Qed.

Lemma fit_peak_go_first_success_of : forall d w fp fr cands solos keep,
  Forall2 (fun pb r => single' d (fst pb) (snd pb) w fp fr = Ok r) cands solos ->
  go' d w cands keep fp fr =
  match find res_success solos with
  | Some r => Ok r
  | None => match keep with
            | Some k => Ok k
            | None => match solos with
                      | r :: _ => Ok r
                      | [] => Raise (Unreachable "no candidate models")
                      end
            end
  end.
Proof.
  intros d w fp fr cands solos keep H; revert keep.
  induction H as [|[pk bk] r cs rs Hr _ IH]; intros keep; simpl.
  - destruct keep; reflexivity.
  - simpl in Hr. rewrite Hr; simpl. unfold res_success at 1.
    destruct (assessment_eqb (r_assess r) success); [reflexivity|].
    rewrite IH. destruct (find res_success rs); [reflexivity|].
    destruct keep; reflexivity.
Qed.

(* model product order, first success wins: with every combination fitted on its own (single-model
   specifications, same window) giving [solos] in the documented order, the list specification
   returns [first_success solos] *)
Theorem fit_peak_is_first_success_of_solo_fits : forall d w bks pks fp fr solos,
  pks <> [] -> bks <> [] ->
  Forall2 (fun pb r => fit_peak' d w [snd pb] [fst pb] fp fr = Ok r) (candidates pks bks) solos ->
  exists r, first_success solos = Some r /\ fit_peak' d w bks pks fp fr = Ok r.
Proof.
  intros d w bks pks fp fr solos Hp Hb H.
  assert (H' : Forall2 (fun pb r => single' d (fst pb) (snd pb) w fp fr = Ok r) (candidates pks bks) solos).
  { eapply Forall2_impl'; [|exact H]. intros pb r Hx. cbv beta in Hx. rewrite fit_peak_single_spec in Hx. exact Hx. }
  assert (Hne : solos <> []).
  { intro E; subst. apply Forall2_length' in H. rewrite candidates_length in H. simpl in H.
    destruct pks; [contradiction|]. destruct bks; [contradiction|]. simpl in H; discriminate. }
  unfold fit_peak. rewrite (fit_peak_go_first_success_of _ _ _ _ _ _ _ H').
  unfold first_success. destruct (find res_success solos) as [r|]; [eauto|].
  destruct solos as [|r t]; [contradiction|]. simpl; eauto.
Qed.

(* in particular: a success is returned iff some combination succeeds, and then it is the earliest one *)
Corollary fit_peak_earliest_success : forall d w bks pks fp fr solos pre r post,
  pks <> [] -> bks <> [] ->
  Forall2 (fun pb r => fit_peak' d w [snd pb] [fst pb] fp fr = Ok r) (candidates pks bks) solos ->
  solos = pre ++ r :: post -> Forall (fun x => res_success x = false) pre -> res_success r = true ->
  fit_peak' d w bks pks fp fr = Ok r.
Proof.
  intros d w bks pks fp fr solos pre r post Hp Hb H Hs Hpre Hr.
  destruct (fit_peak_is_first_success_of_solo_fits d w bks pks fp fr solos Hp Hb H) as [r' [Hf Hr']].
  rewrite Hr'. f_equal. unfold first_success in Hf. subst solos.
  assert (E : find res_success (pre ++ r :: post) = Some r).
  { clear -Hpre Hr. induction pre as [|a t IH]; simpl.
    - rewrite Hr; reflexivity.
    - inversion Hpre; subst. rewrite H1. apply IH; assumption. }
  rewrite E in Hf. inversion Hf; reflexivity.
Qed.
End Order.

(* the hypotheses are satisfiable and the order matters: (p0,b0) fails, (p0,b1) and (p1,b0) succeed *)
Example first_success_example :
  let mk a pk bk := mkRes a pk bk (0, 1) [] (mkStats NaN NaN NInf) "" in
  let solos := [mk p_too_small (MPeak Gaussian) (MPoly 1); mk success (MPeak Gaussian) (MPoly 2);
                mk success (MPeak Lorentzian) (MPoly 1); mk success (MPeak Lorentzian) (MPoly 2)] in
  first_success solos = Some (mk success (MPeak Gaussian) (MPoly 2)) /\
  first_success (firstn 1 solos) = Some (mk p_too_small (MPeak Gaussian) (MPoly 1)).
Proof. split; reflexivity. Qed.
