(* C17/ProofsGuard.v — the point-count guard is PER (peak, background) COMBINATION.
   `window_too_narrow` is the result of a combination exactly when the window holds fewer points than THAT combination
   has parameters (narrow_window_is_result gives the "if" direction for the guard-first order; here the "only if", for
   both orders), and for LISTS of models with different parameter counts:
     - a combination with enough points is fitted (its result is never `window_too_narrow`);
     - the list result is `window_too_narrow` only when it is the too-narrow result of the FIRST combination and the
       window is too narrow for that first combination (later combinations with enough points were fitted and did
       not succeed);
     - a later combination that has enough points and succeeds is returned although the first one is too narrow. *)
From Coq Require Import QArith ZArith String List Bool Lia.
From Verif.C17 Require Import Model ModelOrder Proofs ProofsRefuted.
Import ListNotations.

Section Guard.
Variable V : variant.
Variable lt : Q -> Q -> bool.
Variable guess : string -> mkind -> list pt -> res params.
Variable curve_fit : fitmodel -> list pt -> params -> bounds -> fit_outcome.
Variable feval : fitmodel -> params -> Q -> Q.
Variable ln : Q -> Q.
Variable chi2cdf : Z -> Q -> Q.

Notation fit_peak' := (fit_peak V lt guess curve_fit feval ln chi2cdf).
Notation single' := (fit_peak_single_model V lt guess curve_fit feval ln chi2cdf).
Notation core' := (fit_core V lt curve_fit feval ln chi2cdf).
Notation assess' := (assess_fit V lt).
Notation go' := (fit_peak_go V lt guess curve_fit feval ln chi2cdf).

Lemma assess_not_narrow : forall d pk popt st bkg fr a,
  assess' d pk popt st bkg fr = Ok a -> a <> window_too_narrow.
Proof.
  intros d pk popt st bkg fr a H. unfold assess_fit in H.
  repeat match type of H with
  | (if ?c then _ else _) = _ => destruct c
  | match ?o with Some _ => _ | None => _ end = _ => destruct o
  | Ok _ = Ok _ => inversion H; subst; discriminate
  | Raise _ = Ok _ => discriminate
  end.
  apply bind_ok in H as [tn [_ H]]. destruct tn; inversion H; subst; discriminate.
Qed.

Lemma core_not_narrow : forall d pk bk w b0 p0 fr r,
  core' d pk bk w b0 p0 fr = Ok r -> r_assess r <> window_too_narrow.
Proof.
  intros d pk bk w b0 p0 fr r H. unfold fit_core in H.
  destruct (curve_fit _ _ _ _) as [popt|msg].
  - apply bind_ok in H as [a [Ha H]]. inversion H; subst; simpl. eapply assess_not_narrow; eauto.
  - inversion H; subst; simpl. discriminate.
Qed.

(* only a combination with more parameters than the window has points is reported as too narrow (either order of
   guard and guesses) *)
Theorem narrow_only_when_too_few_points : forall d pk bk w fp fr r,
  single' d pk bk w fp fr = Ok r -> r_assess r = window_too_narrow -> (length d < n_params pk bk)%nat.
Proof.
  intros d pk bk w fp fr r H Ha. unfold fit_peak_single_model in H.
  destruct (Nat.ltb (length d) (n_params pk bk)) eqn:E; [apply Nat.ltb_lt; exact E|].
  exfalso. destruct (guard_first V).
  - apply bind_ok in H as [b0 [_ H]]. apply bind_ok in H as [p0 [_ H]]. eapply core_not_narrow; eauto.
  - apply bind_ok in H as [b0 [_ H]]. apply bind_ok in H as [p0 [_ H]]. eapply core_not_narrow; eauto.
Qed.

Corollary enough_points_is_fitted : forall d pk bk w fp fr r,
  (n_params pk bk <= length d)%nat -> single' d pk bk w fp fr = Ok r -> r_assess r <> window_too_narrow.
Proof.
  intros d pk bk w fp fr r Hn H Ha. apply (narrow_only_when_too_few_points _ _ _ _ _ _ _ H) in Ha. lia.
Qed.

Lemma assessment_eqb_true : forall a b, assessment_eqb a b = true -> a = b.
Proof. intros a b; destruct a, b; simpl; intro H; try discriminate; reflexivity. Qed.

(* what _fit_peak's loop returns: a success, or the kept (first) candidate's result *)
Lemma fit_peak_go_result : forall d w fp fr cands keep r,
  go' d w cands keep fp fr = Ok r ->
  r_assess r = success \/
  match keep with
  | Some k => r = k
  | None => match cands with
            | (p, b) :: _ => single' d p b w fp fr = Ok r
            | [] => False
            end
  end.
Proof.
  intros d w fp fr cands; induction cands as [|[p b] cs IH]; intros keep r H; simpl in H.
  - destruct keep; inversion H; auto.
  - apply bind_ok in H as [r1 [H1 H]].
    destruct (assessment_eqb (r_assess r1) success) eqn:E.
    + inversion H; subst. left. apply assessment_eqb_true; exact E.
    + apply IH in H as [H|H]; auto. right.
      destruct keep; simpl in H; subst; auto.
Qed.

(* LISTS of models: a `window_too_narrow` list result is the too-narrow result of the FIRST combination
   (peaks[0], backgrounds[0]), whose parameter count exceeds the number of points *)
Theorem narrow_list_result_is_first_combination : forall d w pk bk pks bks fp fr r,
  fit_peak' d w (bk :: bks) (pk :: pks) fp fr = Ok r -> r_assess r = window_too_narrow ->
  single' d pk bk w fp fr = Ok r /\ r_peak r = pk /\ r_bkg r = bk /\ (length d < n_params pk bk)%nat.
Proof.
  intros d w pk bk pks bks fp fr r H Ha. unfold fit_peak in H.
  assert (Hc : exists cs, candidates (pk :: pks) (bk :: bks) = (pk, bk) :: cs) by (simpl; eauto).
  destruct Hc as [cs Hc]. rewrite Hc in H.
  apply fit_peak_go_result in H as [H|H]; [rewrite Ha in H; discriminate|].
  split; auto. pose proof (single_fields V lt guess curve_fit feval ln chi2cdf _ _ _ _ _ _ _ H) as [_ [Hp Hb]].
  repeat split; auto. eapply narrow_only_when_too_few_points; eauto.
Qed.

(* so: when the first combination has enough points, the list result is never `window_too_narrow`, however many
   parameters the other combinations have *)
Corollary first_combination_with_enough_points : forall d w pk bk pks bks fp fr r,
  (n_params pk bk <= length d)%nat ->
  fit_peak' d w (bk :: bks) (pk :: pks) fp fr = Ok r -> r_assess r <> window_too_narrow.
Proof.
  intros d w pk bk pks bks fp fr r Hn H Ha.
  destruct (narrow_list_result_is_first_combination _ _ _ _ _ _ _ _ _ H Ha) as [_ [_ [_ Hlt]]]. lia.
Qed.

(* whatever list result: if it is `window_too_narrow` for (p, b) then the window is too narrow for THAT (p, b) *)
Corollary narrow_result_names_its_combination : forall d w bks pks fp fr r,
  fit_peak' d w bks pks fp fr = Ok r -> r_assess r = window_too_narrow ->
  In (r_peak r) pks /\ In (r_bkg r) bks /\ (length d < n_params (r_peak r) (r_bkg r))%nat.
Proof.
  intros d w bks pks fp fr r H Ha.
  apply (fit_peak_candidate V lt guess curve_fit feval ln chi2cdf) in H as [pk [bk [Hp [Hb H]]]].
  pose proof (single_fields V lt guess curve_fit feval ln chi2cdf _ _ _ _ _ _ _ H) as [_ [Ep Eb]].
  rewrite Ep, Eb. repeat split; auto. eapply narrow_only_when_too_few_points; eauto.
Qed.

(* a later combination with enough points that succeeds is returned although the combinations before it are too
   narrow for the window (guard-first order) *)
Theorem success_after_too_narrow_combinations : guard_first V = true ->
  forall d w fp fr pre pk bk post r,
  (forall p b, In (p, b) pre -> (length d < n_params p b)%nat) ->
  single' d pk bk w fp fr = Ok r -> r_assess r = success ->
  go' d w (pre ++ (pk, bk) :: post) None fp fr = Ok r.
Proof.
  intros HV d w fp fr pre pk bk post r Hpre Hs Ha.
  apply (fit_peak_go_first_success V lt guess curve_fit feval ln chi2cdf); auto.
  intros p b Hin. exists (for_too_narrow_window p b w). split.
  - apply narrow_window_is_result; auto.
  - simpl; discriminate.
Qed.
End Guard.

(* ------------------------------------------------------------------ the hypotheses are satisfiable: 6 points,
   pseudo-Voigt + quadratic (7 parameters) is too narrow, gaussian + linear (5) is fitted *)
Example mixed_counts_example :
  (length (grid 6) < n_params (MPeak PseudoVoigt) (MPoly 2))%nat /\
  (n_params (MPeak Gaussian) (MPoly 1) <= length (grid 6))%nat /\
  toy_single V_fixed (grid 6) (MPeak PseudoVoigt) (MPoly 2) (0, 6) FP0 FR0
    = Ok (for_too_narrow_window (MPeak PseudoVoigt) (MPoly 2) (0, 6)) /\
  exists r, toy_single V_fixed (grid 6) (MPeak Gaussian) (MPoly 1) (0, 6) FP0 FR0 = Ok r /\
            r_assess r <> window_too_narrow.
Proof.
  split; [vm_compute; lia|]. split; [vm_compute; lia|]. split; [vm_compute; reflexivity|].
  eexists. split; [vm_compute; reflexivity|]. discriminate.
Qed.

(* the first combination has enough points: the list result is not `window_too_narrow` *)
Example mixed_list_example :
  exists r, fit_peak V_fixed Qltb toy_guess toy_curve_fit toy_feval toy_ln toy_cdf (grid 6) (0, 6)
                     [MPoly 1; MPoly 2] [MPeak Gaussian; MPeak PseudoVoigt] FP0 FR0 = Ok r /\
            r_assess r <> window_too_narrow /\ r_peak r = MPeak Gaussian /\ r_bkg r = MPoly 1.
Proof. eexists. split; [vm_compute; reflexivity|]. repeat split; discriminate. Qed.
