(* C06/ModelH.v — CALL HISTORIES: events that carry several NAMED coordinates,
   and what a conversion does to an object that is itself the result of an
   earlier conversion (or whose events were loaded with a precomputed
   coordinate).  DEFINITIONS ONLY (proofs: C06/ProofsH.v).

   C06/Model.v converts THE coordinate of an event.  Real event buffers carry
   a set of coordinates (tof, pulse_time, and — after a conversion — wavelength,
   energy, ...), and a conversion origin -> target is scipp's transform_coords
   rule for one NAME:

   * a name that already is a coordinate of the object is FETCHED ("Outputs
     already present in input"): the coordinate is kept as it is;
   * otherwise the target is COMPUTED from the coordinate called [origin] with
     the dense kernel and the geometry of the event's bin, and ADDED;
   * every other coordinate of the event stays.

   [convert_named] is built from Model.v's [conv_coord] (which operand meets
   which: bin_of / gidx), so the structural theorems of Proofs.v carry over.
   The model is functional: the input of a call is a value and cannot change —
   that the implementation leaves its input object (including the SET of its
   event coordinates) untouched is observed by deep snapshot on every program. *)
From Coq Require Import List Arith Bool String.
From Verif.C06 Require Import Model.
Import ListNotations.

Set Implicit Arguments.

Section Named.
Variables V W G : Type.

(* the coordinates of one event, by name (first binding wins) *)
Definition named := list (string * V).

Fixpoint lookup (n : string) (cs : named) : option V :=
  match cs with
  | [] => None
  | (m, v) :: t => if String.eqb n m then Some v else lookup n t
  end.

Variable k : V -> G -> V.          (* the dense kernel origin |-> target *)
Variables origin target : string.

(* one event whose bin has geometry g *)
Definition step (cs : named) (g : G) : named :=
  match lookup target cs with
  | Some _ => cs                                   (* already there: fetched, kept *)
  | None => match lookup origin cs with
            | Some c => cs ++ [(target, k c g)]    (* computed and added *)
            | None => cs
            end
  end.

Definition named_event (b : binned named W G) (idx : nat) (e : event named W) : event named W :=
  mkE (match conv_coord step b idx e with Some cs => cs | None => coord e end) (weight e) (variance e).

Definition convert_named (b : binned named W G) : binned named W G :=
  mkB (mapi_from (named_event b) 0 (buffer b)) (begin_ b) (end_ b) (geom b) (shape b).
End Named.
