(* C06/ProofsH.v — proofs about the call-history model C06/ModelH.v:
   re-conversion, chains of conversions, preservation of the other coordinates. *)
From Coq Require Import List Arith Bool String Lia.
From Verif.C06 Require Import Model Proofs ModelH.
Import ListNotations.

Section LookupFacts.
Variable V : Type.
Notation named := (named V).

Lemma lookup_app_some n (cs l : named) v : lookup n cs = Some v -> lookup n (cs ++ l) = Some v.
Proof.
  induction cs as [|[m x] cs IH]; simpl; [discriminate|].
  destruct (String.eqb n m); auto.
Qed.

Lemma lookup_app_none n (cs l : named) : lookup n cs = None -> lookup n (cs ++ l) = lookup n l.
Proof.
  induction cs as [|[m x] cs IH]; simpl; [reflexivity|].
  destruct (String.eqb n m); [discriminate | auto].
Qed.

Lemma lookup_single_same n (v : V) : lookup n [(n, v)] = Some v.
Proof. simpl. rewrite String.eqb_refl. reflexivity. Qed.

Lemma lookup_single_other n m (v : V) : n <> m -> lookup n [(m, v)] = None.
Proof. intros H. simpl. apply String.eqb_neq in H. rewrite H. reflexivity. Qed.
End LookupFacts.

Section StepProofs.
Variables V G : Type.
Variable k : V -> G -> V.
Variables origin target : string.
Notation named := (named V).
Notation step := (step k origin target).

(* an existing target is fetched: nothing changes *)
Lemma step_fetches (cs : named) g v : lookup target cs = Some v -> step cs g = cs.
Proof. intros H. unfold ModelH.step. rewrite H. reflexivity. Qed.

(* a fresh target is computed from the origin coordinate with the dense kernel *)
Lemma step_computes (cs : named) g c :
  lookup target cs = None -> lookup origin cs = Some c -> lookup target (step cs g) = Some (k c g).
Proof.
  intros Ht Ho. unfold ModelH.step. rewrite Ht, Ho.
  rewrite lookup_app_none by exact Ht. apply lookup_single_same.
Qed.

(* every coordinate the event had is still there, with its value (the target too, if it existed) *)
Lemma step_keeps (cs : named) g n v : lookup n cs = Some v -> lookup n (step cs g) = Some v.
Proof.
  intros H. unfold ModelH.step.
  destruct (lookup target cs); [exact H|].
  destruct (lookup origin cs); [|exact H].
  apply lookup_app_some. exact H.
Qed.

(* no coordinate other than the target appears *)
Lemma step_adds_only_target (cs : named) g n : n <> target -> lookup n (step cs g) = lookup n cs.
Proof.
  intros Hn. unfold ModelH.step.
  destruct (lookup target cs); [reflexivity|].
  destruct (lookup origin cs); [|reflexivity].
  destruct (lookup n cs) eqn:E.
  - apply lookup_app_some. exact E.
  - rewrite lookup_app_none by exact E. apply lookup_single_other. exact Hn.
Qed.

Lemma step_idempotent (cs : named) g : step (step cs g) g = step cs g.
Proof.
  unfold ModelH.step at 2 3.
  destruct (lookup target cs) eqn:Et.
  - exact (step_fetches cs g v Et).
  - destruct (lookup origin cs) eqn:Eo.
    + apply step_fetches with (v := k v g).
      rewrite lookup_app_none by exact Et. apply lookup_single_same.
    + unfold ModelH.step. rewrite Et, Eo. reflexivity.
Qed.
End StepProofs.

Section NamedProofs.
Variables V W G : Type.
Notation named := (named V).
Notation binned := (binned named W G).

Lemma mapi_from_compose (A B C : Type) (f : nat -> B -> C) (g : nat -> A -> B) n l :
  mapi_from f n (mapi_from g n l) = mapi_from (fun i x => f i (g i x)) n l.
Proof. revert n; induction l as [|x l IH]; intros n; simpl; [reflexivity|]. f_equal. apply IH. Qed.

Lemma mapi_from_ext2 (A B : Type) (f g : nat -> A -> B) n l :
  (forall i x, f i x = g i x) -> mapi_from f n l = mapi_from g n l.
Proof. intros H. revert n; induction l as [|x l IH]; intros n; simpl; [reflexivity|]. rewrite H, IH. reflexivity. Qed.

Lemma map_weight_named k o t (b : binned) n l :
  map (@weight _ _) (mapi_from (named_event k o t b) n l) = map (@weight _ _) l.
Proof. revert n; induction l; simpl; intros; f_equal; auto. Qed.
Lemma map_variance_named k o t (b : binned) n l :
  map (@variance _ _) (mapi_from (named_event k o t b) n l) = map (@variance _ _) l.
Proof. revert n; induction l; simpl; intros; f_equal; auto. Qed.

(* the layout is untouched, so which operand meets which is the same question before and after *)
Lemma bin_of_named k o t (b : binned) j : bin_of (convert_named k o t b) j = bin_of b j.
Proof. reflexivity. Qed.
Lemma geom_of_named k o t (b : binned) i : geom_of (convert_named k o t b) i = geom_of b i.
Proof. reflexivity. Qed.
Lemma in_bin_named k o t (b : binned) i j : in_bin (convert_named k o t b) i j <-> in_bin b i j.
Proof. reflexivity. Qed.
Lemma non_overlapping_named k o t (b : binned) : non_overlapping b -> non_overlapping (convert_named k o t b).
Proof. intros H i i' j Hi Hi'. exact (H i i' j Hi Hi'). Qed.

(* event j of bin i (geometry g): one [step] with the bin's geometry; weight and variance carried over *)
Theorem named_pointwise k o t (b : binned) i j e g :
  non_overlapping b ->
  nth_error (buffer b) j = Some e -> in_bin b i j -> geom_of b i = Some g ->
  nth_error (buffer (convert_named k o t b)) j = Some (mkE (step k o t (coord e) g) (weight e) (variance e)).
Proof.
  intros Hno He Hi Hg. simpl. rewrite nth_error_mapi_from, He. simpl.
  unfold named_event, conv_coord. rewrite (bin_of_correct Hno Hi), Hg. reflexivity.
Qed.

(* converting the result of the same conversion again changes nothing at all *)
Theorem reconvert_idempotent k o t (b : binned) :
  convert_named k o t (convert_named k o t b) = convert_named k o t b.
Proof.
  unfold convert_named at 1. simpl. rewrite mapi_from_compose.
  unfold convert_named at 2. f_equal. apply mapi_from_ext2. intros idx e.
  unfold named_event at 1. unfold conv_coord. rewrite bin_of_named.
  unfold named_event, conv_coord. simpl.
  destruct (bin_of b idx) as [i|]; [|reflexivity].
  change (geom_of (convert_named k o t b) i) with (geom_of b i).
  destruct (geom_of b i) as [g|]; simpl; [|reflexivity].
  rewrite step_idempotent. reflexivity.
Qed.

(* layout, geometry, weights, variances, membership: as for a first conversion *)
Theorem named_preserves k o t (b : binned) :
  let b' := convert_named k o t b in
  begin_ b' = begin_ b /\ end_ b' = end_ b /\ geom b' = geom b /\ shape b' = shape b /\
  List.length (buffer b') = List.length (buffer b) /\
  map (@weight _ _) (buffer b') = map (@weight _ _) (buffer b) /\
  map (@variance _ _) (buffer b') = map (@variance _ _) (buffer b) /\
  (forall i j, in_bin b' i j <-> in_bin b i j).
Proof.
  simpl. repeat split; try reflexivity; try tauto.
  - apply mapi_from_length.
  - apply map_weight_named.
  - apply map_variance_named.
Qed.

(* every coordinate an event carried before the call it carries afterwards, with the same value: the
   unrelated ones, the origin, and an already existing target (which is NOT recomputed) *)
Theorem named_keeps_coordinates k o t (b : binned) j e n v :
  nth_error (buffer b) j = Some e -> lookup n (coord e) = Some v ->
  exists e', nth_error (buffer (convert_named k o t b)) j = Some e' /\ lookup n (coord e') = Some v /\
             weight e' = weight e /\ variance e' = variance e.
Proof.
  intros He Hn. simpl. rewrite nth_error_mapi_from, He. simpl.
  eexists; split; [reflexivity|]. simpl. split; [|split; reflexivity].
  unfold conv_coord. destruct (bin_of b j) as [i|]; [|exact Hn].
  destruct (geom_of b i) as [g|]; simpl; [|exact Hn].
  apply step_keeps. exact Hn.
Qed.

(* RE-CONVERSION gives every event the dense value again: if the first call computed the target, the event
   of the twice converted object carries exactly k (origin coordinate) (geometry of its bin) *)
Theorem reconvert_dense_value k o t (b : binned) i j e g c :
  non_overlapping b ->
  nth_error (buffer b) j = Some e -> in_bin b i j -> geom_of b i = Some g ->
  lookup t (coord e) = None -> lookup o (coord e) = Some c ->
  exists e', nth_error (buffer (convert_named k o t (convert_named k o t b))) j = Some e' /\
             lookup t (coord e') = Some (k c g) /\ lookup o (coord e') = Some c /\
             weight e' = weight e /\ variance e' = variance e.
Proof.
  intros Hno He Hi Hg Ht Ho. rewrite reconvert_idempotent.
  rewrite (named_pointwise k o t b i j e g Hno He Hi Hg).
  eexists; split; [reflexivity|]. simpl.
  split; [apply step_computes; assumption|].
  split; [apply step_keeps; exact Ho | split; reflexivity].
Qed.

(* an event coordinate named like the target that was ALREADY there (an earlier conversion, a file with a
   precomputed coordinate) is what the event has afterwards *)
Theorem existing_target_kept k o t (b : binned) i j e g v :
  non_overlapping b ->
  nth_error (buffer b) j = Some e -> in_bin b i j -> geom_of b i = Some g ->
  lookup t (coord e) = Some v ->
  nth_error (buffer (convert_named k o t b)) j = Some e.
Proof.
  intros Hno He Hi Hg Ht. rewrite (named_pointwise k o t b i j e g Hno He Hi Hg).
  erewrite step_fetches by exact Ht. destruct e; reflexivity.
Qed.

(* CHAINS  o1 -> t1 (kernel k1), then t1 -> t2 (kernel k2):  the event ends up with k2 (k1 c g) g, the
   intermediate t1 = k1 c g and the origin c are still there *)
Theorem chain_pointwise k1 k2 o1 t1 t2 (b : binned) i j e g c :
  non_overlapping b ->
  nth_error (buffer b) j = Some e -> in_bin b i j -> geom_of b i = Some g ->
  t1 <> t2 -> o1 <> t2 ->
  lookup o1 (coord e) = Some c -> lookup t1 (coord e) = None -> lookup t2 (coord e) = None ->
  exists e', nth_error (buffer (convert_named k2 t1 t2 (convert_named k1 o1 t1 b))) j = Some e' /\
             lookup t2 (coord e') = Some (k2 (k1 c g) g) /\
             lookup t1 (coord e') = Some (k1 c g) /\ lookup o1 (coord e') = Some c /\
             weight e' = weight e /\ variance e' = variance e.
Proof.
  intros Hno He Hi Hg H12 Ho2 Ho Ht1 Ht2.
  pose proof (named_pointwise k1 o1 t1 b i j e g Hno He Hi Hg) as H1.
  pose proof (non_overlapping_named k1 o1 t1 b Hno) as Hno'.
  assert (Hi' : in_bin (convert_named k1 o1 t1 b) i j) by exact Hi.
  assert (Hg' : geom_of (convert_named k1 o1 t1 b) i = Some g) by exact Hg.
  rewrite (named_pointwise k2 t1 t2 _ i j _ g Hno' H1 Hi' Hg').
  eexists; split; [reflexivity|]. simpl.
  assert (A1 : lookup t1 (step k1 o1 t1 (coord e) g) = Some (k1 c g)) by (apply step_computes; assumption).
  assert (A2 : lookup t2 (step k1 o1 t1 (coord e) g) = None).
  { rewrite step_adds_only_target by (intro E; apply H12; symmetry; exact E). exact Ht2. }
  split; [apply step_computes; assumption|].
  split; [apply step_keeps; exact A1|].
  split; [apply step_keeps, step_keeps; exact Ho | split; reflexivity].
Qed.

(* the same from ONE origin (tof -> t1, then tof -> t2 on the result): t2 is computed from the origin, the
   left-over t1 does not disturb it *)
Theorem fork_pointwise k1 k2 o t1 t2 (b : binned) i j e g c :
  non_overlapping b ->
  nth_error (buffer b) j = Some e -> in_bin b i j -> geom_of b i = Some g ->
  t1 <> t2 ->
  lookup o (coord e) = Some c -> lookup t2 (coord e) = None ->
  exists e', nth_error (buffer (convert_named k2 o t2 (convert_named k1 o t1 b))) j = Some e' /\
             lookup t2 (coord e') = Some (k2 c g) /\ lookup o (coord e') = Some c.
Proof.
  intros Hno He Hi Hg H12 Ho Ht2.
  pose proof (named_pointwise k1 o t1 b i j e g Hno He Hi Hg) as H1.
  pose proof (non_overlapping_named k1 o t1 b Hno) as Hno'.
  assert (Hi' : in_bin (convert_named k1 o t1 b) i j) by exact Hi.
  assert (Hg' : geom_of (convert_named k1 o t1 b) i = Some g) by exact Hg.
  rewrite (named_pointwise k2 o t2 _ i j _ g Hno' H1 Hi' Hg').
  eexists; split; [reflexivity|]. simpl.
  assert (A0 : lookup o (step k1 o t1 (coord e) g) = Some c) by (apply step_keeps; exact Ho).
  assert (A2 : lookup t2 (step k1 o t1 (coord e) g) = None).
  { rewrite step_adds_only_target by (intro E; apply H12; symmetry; exact E). exact Ht2. }
  split; [apply step_computes; assumption | apply step_keeps; exact A0].
Qed.
End NamedProofs.

(* ---------------------------------------------------------------- satisfiable *)
Local Open Scope string_scope.
(* the 7-event example of Proofs.v with named coordinates; event 5 (bin 3, geometry 200) *)
Definition ex_named : binned (named nat) nat nat :=
  mkB (map (fun e => mkE [("tof", coord e)] (weight e) (variance e)) (buffer ex_b))
      (begin_ ex_b) (end_ ex_b) (geom ex_b) (shape ex_b).
Definition ex_k1 (c g : nat) : nat := c + g.
Definition ex_k2 (c g : nat) : nat := c * g.

Example ex_reconvert :
  convert_named ex_k1 "tof" "wavelength" (convert_named ex_k1 "tof" "wavelength" ex_named)
  = convert_named ex_k1 "tof" "wavelength" ex_named /\
  option_map (fun e => lookup "wavelength" (coord e))
             (nth_error (buffer (convert_named ex_k1 "tof" "wavelength" ex_named)) 5)
  = option_map (fun e => option_map (fun c => ex_k1 c 200) (lookup "tof" (coord e))) (nth_error (buffer ex_named) 5).
Proof. split; reflexivity. Qed.

Example ex_chain :
  option_map (fun e => (lookup "tof" (coord e), lookup "wavelength" (coord e), lookup "energy" (coord e)))
             (nth_error (buffer (convert_named ex_k2 "wavelength" "energy"
                                               (convert_named ex_k1 "tof" "wavelength" ex_named))) 5)
  = option_map (fun e => match lookup "tof" (coord e) with
                         | Some c => (Some c, Some (ex_k1 c 200), Some (ex_k2 (ex_k1 c 200) 200))
                         | None => (None, None, None)
                         end) (nth_error (buffer ex_named) 5).
Proof. reflexivity. Qed.
