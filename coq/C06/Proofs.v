(* C06/Proofs.v — structural theorems about the binned-data model (C06/Model.v).
   Everything here is about lists and index arithmetic: axiom-free. *)
From Coq Require Import List Arith Bool Lia.
From Verif.C06 Require Import Model.
Import ListNotations.

Set Implicit Arguments.

(* ---------------------------------------------------------------- lists *)
Section ListFacts.
Variables A B : Type.

Lemma nth_error_map' (f : A -> B) l n : nth_error (map f l) n = option_map f (nth_error l n).
Proof. revert n; induction l; destruct n; simpl; auto. Qed.

Lemma nth_error_combine (l : list A) (l' : list B) n x y :
  nth_error l n = Some x -> nth_error l' n = Some y -> nth_error (combine l l') n = Some (x, y).
Proof.
  revert l' n; induction l as [|a l IH]; intros [|b l'] [|n]; simpl; try discriminate; intros H1 H2.
  - inversion H1; inversion H2; reflexivity.
  - auto.
Qed.

Lemma nth_error_combine_inv (l : list A) (l' : list B) n x y :
  nth_error (combine l l') n = Some (x, y) -> nth_error l n = Some x /\ nth_error l' n = Some y.
Proof.
  revert l' n; induction l as [|a l IH]; intros [|b l'] [|n]; simpl; try discriminate; intros H.
  - inversion H; auto.
  - auto.
Qed.

Lemma nth_error_firstn_lt (l : list A) m t x : nth_error (firstn m l) t = Some x -> t < m.
Proof.
  intros H. assert (Hs : nth_error (firstn m l) t <> None) by (rewrite H; discriminate).
  apply nth_error_Some in Hs. rewrite firstn_length in Hs. lia.
Qed.

Lemma nth_error_firstn_some (l : list A) m t x : nth_error (firstn m l) t = Some x -> nth_error l t = Some x.
Proof.
  revert m t; induction l as [|a l IH]; intros [|m] [|t]; simpl; try discriminate; auto.
  apply IH.
Qed.

Lemma nth_error_skipn (l : list A) s t : nth_error (skipn s l) t = nth_error l (s + t).
Proof.
  revert s; induction l as [|a l IH]; intros [|s]; simpl; auto. destruct t; reflexivity.
Qed.

Lemma map_seq_nth_error (f : option A -> B) (l : list A) :
  map (fun i => f (nth_error l i)) (seq 0 (length l)) = map (fun x => f (Some x)) l.
Proof.
  induction l as [|a l IH]; simpl; [reflexivity|]. f_equal.
  rewrite <- seq_shift, map_map. exact IH.
Qed.
End ListFacts.

(* ---------------------------------------------------------------- bin_of *)
Section LayoutProofs.
Variables C W G : Type.
Notation binned := (binned C W G).

Lemma in_range_iff r j : in_range r j = true <-> fst r <= j < snd r.
Proof. unfold in_range. rewrite andb_true_iff, Nat.leb_le, Nat.ltb_lt. tauto. Qed.

Lemma find_bin_sound rs j o i :
  find_bin rs j o = Some i ->
  o <= i /\ exists r, nth_error rs (i - o) = Some r /\ in_range r j = true.
Proof.
  revert o; induction rs as [|r rs IH]; simpl; intros o H; [discriminate|].
  destruct (in_range r j) eqn:E.
  - inversion H; subst. split; [lia|]. exists r. rewrite Nat.sub_diag. auto.
  - apply IH in H. destruct H as [Hle (r' & Hn & Hr)]. split; [lia|].
    exists r'. replace (i - o) with (S (i - S o)) by lia. auto.
Qed.

(* the search finds a bin whenever one contains j, and it finds the FIRST such bin *)
Lemma find_bin_complete rs j o t r :
  nth_error rs t = Some r -> in_range r j = true ->
  exists i, find_bin rs j o = Some i /\ o <= i <= o + t.
Proof.
  revert o t; induction rs as [|r0 rs IH]; intros o [|t]; simpl; try discriminate; intros Hn Hr.
  - inversion Hn; subst. rewrite Hr. exists o. split; [reflexivity | lia].
  - destruct (in_range r0 j).
    + exists o. split; [reflexivity | lia].
    + destruct (IH (S o) t Hn Hr) as (i & Hi & Hb). exists i. split; [assumption | lia].
Qed.

Lemma find_bin_none rs j o :
  find_bin rs j o = None -> forall t r, nth_error rs t = Some r -> in_range r j = false.
Proof.
  intros H t r Hn. destruct (in_range r j) eqn:E; [|reflexivity].
  destruct (find_bin_complete rs j o t Hn E) as (i & Hi & _). congruence.
Qed.

Lemma in_bin_iff (b : binned) i j :
  in_bin b i j <-> exists r, nth_error (ranges b) i = Some r /\ in_range r j = true.
Proof.
  unfold in_bin, bin_range. split.
  - intros (s & e & H & Hj). exists (s, e). split; [assumption|]. apply in_range_iff. simpl. lia.
  - intros ([s e] & H & Hj). apply in_range_iff in Hj. simpl in Hj. exists s, e. split; [assumption | lia].
Qed.

Lemma bin_of_sound (b : binned) j i : bin_of b j = Some i -> in_bin b i j.
Proof.
  unfold bin_of. intros H. apply find_bin_sound in H. destruct H as [_ (r & Hn & Hr)].
  rewrite Nat.sub_0_r in Hn. apply in_bin_iff. eauto.
Qed.

Lemma bin_of_lt (b : binned) j i : bin_of b j = Some i -> i < nbins b.
Proof.
  intros H. apply bin_of_sound, in_bin_iff in H. destruct H as (r & Hn & _).
  assert (Hs : nth_error (ranges b) i <> None) by (rewrite Hn; discriminate).
  apply nth_error_Some in Hs. unfold ranges in Hs. rewrite combine_length in Hs. unfold nbins. lia.
Qed.

(* bin_of is total: it answers for every layout and every index, and answers
   None exactly when no bin (empty or not) contains j *)
Theorem bin_of_none_iff (b : binned) j : bin_of b j = None <-> forall i, ~ in_bin b i j.
Proof.
  split.
  - intros H i Hi. apply in_bin_iff in Hi. destruct Hi as (r & Hn & Hr).
    rewrite (find_bin_none _ _ _ H _ Hn) in Hr. discriminate.
  - intros H. destruct (bin_of b j) as [i|] eqn:E; [|reflexivity].
    exfalso. exact (H i (bin_of_sound _ _ E)).
Qed.

Theorem bin_of_correct (b : binned) i j :
  non_overlapping b -> in_bin b i j -> bin_of b j = Some i.
Proof.
  intros Hno Hi. pose proof Hi as Hi0. apply in_bin_iff in Hi. destruct Hi as (r & Hn & Hr).
  destruct (find_bin_complete (ranges b) j 0 i Hn Hr) as (i' & Hf & _).
  unfold bin_of. rewrite Hf. f_equal.
  apply (Hno i' i j); [|assumption]. apply bin_of_sound. exact Hf.
Qed.

(* empty bins contain nothing, wherever their (equal) begin and end point *)
Lemma empty_bin_contains_nothing (b : binned) i s j : bin_range b i = Some (s, s) -> ~ in_bin b i j.
Proof. intros H (s' & e' & H' & Hj). rewrite H in H'. inversion H'; subst. lia. Qed.

(* ---- the decidable layout checks are sound *)
Lemma wfb_sound (b : binned) : wfb b = true -> wf b.
Proof.
  unfold wfb, wf. rewrite andb_true_iff, Nat.eqb_eq, forallb_forall. intros [Hl Hf]. split; [assumption|].
  apply Forall_forall. intros r Hr. specialize (Hf r Hr).
  rewrite andb_true_iff, !Nat.leb_le in Hf. exact Hf.
Qed.

Lemma wf_geomb_sound (b : binned) : wf_geomb b = true -> wf_geom b.
Proof.
  unfold wf_geomb, wf_geom. rewrite forallb_forall. intros H i Hi.
  apply Nat.ltb_lt, H, in_seq. lia.
Qed.

Lemma disjointb_excl r r' j : disjointb r r' = true -> in_range r j = true -> in_range r' j = true -> False.
Proof.
  unfold disjointb. rewrite !orb_true_iff, !Nat.leb_le, !in_range_iff. lia.
Qed.

Lemma pairwise_disjointb_sound rs :
  pairwise_disjointb rs = true ->
  forall i i' r r' j, nth_error rs i = Some r -> nth_error rs i' = Some r' ->
                      in_range r j = true -> in_range r' j = true -> i = i'.
Proof.
  induction rs as [|r0 rs IH]; simpl; intros H i i' r r' j Hi Hi' Hr Hr'.
  - destruct i; discriminate.
  - apply andb_true_iff in H. destruct H as [Hall Hrest]. rewrite forallb_forall in Hall.
    destruct i as [|i], i' as [|i']; simpl in *.
    + reflexivity.
    + inversion Hi; subst. exfalso. apply nth_error_In in Hi'.
      exact (disjointb_excl _ _ _ (Hall _ Hi') Hr Hr').
    + inversion Hi'; subst. exfalso. apply nth_error_In in Hi.
      exact (disjointb_excl _ _ _ (Hall _ Hi) Hr' Hr).
    + f_equal. exact (IH Hrest i i' r r' j Hi Hi' Hr Hr').
Qed.

Lemma non_overlappingb_sound (b : binned) : non_overlappingb b = true -> non_overlapping b.
Proof.
  intros H i i' j Hi Hi'. apply in_bin_iff in Hi, Hi'.
  destruct Hi as (r & Hn & Hr), Hi' as (r' & Hn' & Hr').
  exact (pairwise_disjointb_sound _ H _ _ _ Hn Hn' Hr Hr').
Qed.

(* ---- what the user sees: the view by bins *)
Lemma bins_view_length (b : binned) : length (bins_view b) = nbins b.
Proof. unfold bins_view. rewrite map_length, seq_length. reflexivity. Qed.

Lemma nth_error_bin_events (b : binned) i s e t x :
  bin_range b i = Some (s, e) -> nth_error (bin_events b i) t = Some x ->
  s + t < e /\ nth_error (buffer b) (s + t) = Some x.
Proof.
  unfold bin_events, slice. intros -> H. split.
  - apply nth_error_firstn_lt in H. lia.
  - apply nth_error_firstn_some in H. rewrite nth_error_skipn in H. exact H.
Qed.
End LayoutProofs.

(* ---------------------------------------------------------------- compaction *)
Section Compact.
Variables C W G : Type.
Notation binned := (binned C W G).

Definition views_of (A : Type) (buf : list A) (rs : list (nat * nat)) : list (list A) :=
  map (fun r => slice buf (fst r) (snd r)) rs.

Lemma offsets_length sizes from : length (offsets sizes from) = length sizes.
Proof. revert from; induction sizes; simpl; auto. Qed.

Lemma views_of_concat (A : Type) (v : list (list A)) (pre : list A) :
  views_of (pre ++ concat v)
           (map (fun p => (fst p, fst p + snd p))
                (combine (offsets (map (@length A) v) (length pre)) (map (@length A) v))) = v.
Proof.
  revert pre; induction v as [|x v IH]; intros pre; simpl; [reflexivity|]. f_equal.
  - unfold slice. simpl.
    rewrite skipn_app, Nat.sub_diag, skipn_all. simpl.
    replace (length pre + length x - length pre) with (length x) by lia.
    rewrite firstn_app, Nat.sub_diag, firstn_all. simpl. apply app_nil_r.
  - specialize (IH (pre ++ x)). rewrite app_length, <- app_assoc in IH. exact IH.
Qed.

(* a view by bins of a record given explicitly by its ranges *)
Lemma bins_view_ranges (b : binned) :
  length (begin_ b) = length (end_ b) ->
  bins_view b = views_of (buffer b) (ranges b).
Proof.
  intros Hl. unfold bins_view, views_of, bin_events, bin_range, nbins.
  assert (Hlen : length (begin_ b) = length (ranges b)).
  { unfold ranges. rewrite combine_length. lia. }
  rewrite Hlen.
  rewrite (map_seq_nth_error
             (fun o => match o with Some (s, e) => slice (buffer b) s e | None => [] end) (ranges b)).
  apply map_ext. intros [s e]. reflexivity.
Qed.

(* scipp's compaction of a non-contiguous binned array (what it returns for a
   slice, for bins with gaps, for bins stored out of order) is invisible in
   the view by bins *)
Theorem compact_view (b : binned) : bins_view (compact b) = bins_view b.
Proof.
  set (v := bins_view b).
  assert (Hl : length (begin_ (compact b)) = length (end_ (compact b))).
  { unfold compact. simpl. rewrite map_length, combine_length, offsets_length. lia. }
  rewrite (bins_view_ranges _ Hl). unfold compact, ranges. simpl. fold v.
  pose proof (views_of_concat v []) as H. simpl in H.
  set (bs := offsets (map (@length _) v) 0) in *.
  set (sz := map (@length _) v) in *.
  assert (E : combine bs (map (fun p : nat * nat => fst p + snd p) (combine bs sz))
              = map (fun p : nat * nat => (fst p, fst p + snd p)) (combine bs sz)).
  { clearbody bs sz. clear. revert sz; induction bs as [|x bs IH]; intros [|y sz]; simpl; try reflexivity.
    f_equal. apply IH. }
  rewrite E. exact H.
Qed.

Lemma compact_nbins (b : binned) : nbins (compact b) = nbins b.
Proof.
  unfold compact, nbins. simpl. rewrite offsets_length, map_length.
  apply bins_view_length.
Qed.
End Compact.

(* ---------------------------------------------------------------- conversion *)
Section ConvertProofs.
Variables C W G R : Type.
Variable k : C -> G -> R.
Notation binned := (binned C W G).

Lemma nth_error_mapi_from (A B : Type) (f : nat -> A -> B) n l t :
  nth_error (mapi_from f n l) t = option_map (f (n + t)) (nth_error l t).
Proof.
  revert n t; induction l as [|x l IH]; intros n [|t]; simpl; auto.
  - rewrite Nat.add_0_r. reflexivity.
  - rewrite IH. replace (S n + t) with (n + S t) by lia. reflexivity.
Qed.

Lemma mapi_from_length (A B : Type) (f : nat -> A -> B) n l : length (mapi_from f n l) = length l.
Proof. revert n; induction l; simpl; auto. Qed.

Lemma skipn_mapi_from (A B : Type) (f : nat -> A -> B) n l s :
  skipn s (mapi_from f n l) = mapi_from f (n + s) (skipn s l).
Proof.
  revert n s; induction l as [|x l IH]; intros n [|s]; simpl; auto.
  - rewrite Nat.add_0_r. reflexivity.
  - rewrite IH. replace (S n + s) with (n + S s) by lia. reflexivity.
Qed.

Lemma firstn_mapi_from (A B : Type) (f : nat -> A -> B) n l m :
  firstn m (mapi_from f n l) = mapi_from f n (firstn m l).
Proof. revert n m; induction l as [|x l IH]; intros n [|m]; simpl; auto. f_equal. apply IH. Qed.

Lemma mapi_from_ext (A B : Type) (f : nat -> A -> B) (g : A -> B) n l :
  (forall t x, nth_error l t = Some x -> f (n + t) x = g x) -> mapi_from f n l = map g l.
Proof.
  revert n; induction l as [|x l IH]; intros n H; simpl; [reflexivity|]. f_equal.
  - specialize (H 0 x eq_refl). rewrite Nat.add_0_r in H. exact H.
  - apply IH. intros t y Hy. specialize (H (S t) y Hy). replace (S n + t) with (n + S t) by lia. exact H.
Qed.

Lemma map_weight_mapi_from (b : binned) n l :
  map (@weight _ _) (mapi_from (conv_event k b) n l) = map (@weight _ _) l.
Proof. revert n; induction l; simpl; intros; f_equal; auto. Qed.
Lemma map_variance_mapi_from (b : binned) n l :
  map (@variance _ _) (mapi_from (conv_event k b) n l) = map (@variance _ _) l.
Proof. revert n; induction l; simpl; intros; f_equal; auto. Qed.

Lemma ranges_convert (b : binned) : ranges (convert_binned k b) = ranges b.
Proof. reflexivity. Qed.
Lemma in_bin_convert (b : binned) i j : in_bin (convert_binned k b) i j <-> in_bin b i j.
Proof. reflexivity. Qed.

(* "every event gets exactly the value the dense formula gives for that event's
   coordinate combined with its pixel's geometry" *)
Theorem binned_pointwise (b : binned) i j e g :
  non_overlapping b ->
  nth_error (buffer b) j = Some e -> in_bin b i j -> geom_of b i = Some g ->
  nth_error (buffer (convert_binned k b)) j
  = Some (mkE (Some (k (coord e) g)) (weight e) (variance e)).
Proof.
  intros Hno He Hi Hg. simpl. rewrite nth_error_mapi_from, He. simpl.
  unfold conv_event, conv_coord. rewrite (bin_of_correct Hno Hi), Hg. reflexivity.
Qed.

(* an event outside every bin has no observable coordinate *)
Theorem binned_outside (b : binned) j e :
  nth_error (buffer b) j = Some e -> (forall i, ~ in_bin b i j) ->
  nth_error (buffer (convert_binned k b)) j = Some (mkE None (weight e) (variance e)).
Proof.
  intros He Hn. simpl. rewrite nth_error_mapi_from, He. simpl.
  unfold conv_event, conv_coord. apply bin_of_none_iff in Hn. rewrite Hn. reflexivity.
Qed.

Lemma bin_events_convert (b : binned) i :
  bin_events (convert_binned k b) i
  = match bin_range b i with
    | Some (s, e) => mapi_from (conv_event k b) s (slice (buffer b) s e)
    | None => []
    end.
Proof.
  unfold bin_events, bin_range. rewrite ranges_convert.
  destruct (nth_error (ranges b) i) as [[s e]|]; [|reflexivity].
  unfold slice. simpl. rewrite skipn_mapi_from, firstn_mapi_from. reflexivity.
Qed.

(* the same, as the user sees it: the content of bin i after the conversion is
   the dense kernel mapped over the content of bin i, with bin i's geometry *)
Theorem binned_bin_view (b : binned) i g :
  non_overlapping b -> geom_of b i = Some g ->
  bin_events (convert_binned k b) i
  = map (fun e => mkE (Some (k (coord e) g)) (weight e) (variance e)) (bin_events b i).
Proof.
  intros Hno Hg. rewrite bin_events_convert. unfold bin_events.
  destruct (bin_range b i) as [[s e]|] eqn:Hr; [|reflexivity].
  apply mapi_from_ext. intros t x Hx.
  assert (Hx' : nth_error (bin_events b i) t = Some x) by (unfold bin_events; rewrite Hr; exact Hx).
  destruct (nth_error_bin_events _ _ _ Hr Hx') as [Hlt _].
  assert (Hi : in_bin b i (s + t)) by (exists s, e; split; [assumption | lia]).
  unfold conv_event, conv_coord. rewrite (bin_of_correct Hno Hi), Hg. reflexivity.
Qed.

(* weights, variances, order, begin/end, geometry, grid shape: all as in the
   input (the model is functional, so the input itself is the same value before
   and after: non-modification holds of the model by construction) *)
Theorem binned_preserves (b : binned) :
  let b' := convert_binned k b in
  begin_ b' = begin_ b /\ end_ b' = end_ b /\ geom b' = geom b /\ shape b' = shape b /\
  length (buffer b') = length (buffer b) /\
  map (@weight _ _) (buffer b') = map (@weight _ _) (buffer b) /\
  map (@variance _ _) (buffer b') = map (@variance _ _) (buffer b) /\
  (forall i j, in_bin b' i j <-> in_bin b i j) /\
  (forall i, map (@weight _ _) (bin_events b' i) = map (@weight _ _) (bin_events b i)) /\
  (forall i, map (@variance _ _) (bin_events b' i) = map (@variance _ _) (bin_events b i)) /\
  (forall i, length (bin_events b' i) = length (bin_events b i)).
Proof.
  simpl. repeat split; try reflexivity.
  - apply mapi_from_length.
  - apply map_weight_mapi_from.
  - apply map_variance_mapi_from.
  - apply in_bin_convert.
  - apply in_bin_convert.
  - intros i. rewrite bin_events_convert. unfold bin_events.
    destruct (bin_range b i) as [[s e]|]; [apply map_weight_mapi_from | reflexivity].
  - intros i. rewrite bin_events_convert. unfold bin_events.
    destruct (bin_range b i) as [[s e]|]; [apply map_variance_mapi_from | reflexivity].
  - intros i. rewrite bin_events_convert. unfold bin_events.
    destruct (bin_range b i) as [[s e]|]; [apply mapi_from_length | reflexivity].
Qed.

(* ---- the accompanying bin-edge coordinate *)
Theorem edges_same_function (edges : list (list C)) (gs : list G) p es g :
  nth_error edges p = Some es -> nth_error gs p = Some g ->
  nth_error (convert_edges k edges gs) p = Some (map (fun c => k c g) es).
Proof.
  intros He Hg. unfold convert_edges. rewrite nth_error_map'.
  rewrite (nth_error_combine _ _ _ He Hg). reflexivity.
Qed.

Theorem edges_shared_same_function (edges : list C) (gs : list G) p g :
  nth_error gs p = Some g ->
  nth_error (convert_edges_shared k edges gs) p = Some (map (fun c => k c g) edges).
Proof. intros Hg. unfold convert_edges_shared. rewrite nth_error_map', Hg. reflexivity. Qed.

(* events and edges are converted by the SAME function of the SAME geometry:
   an event whose coordinate equals edge t of its pixel ends up exactly on the
   converted edge t of that pixel *)
Theorem event_on_edge (b : binned) (edges : list (list C)) i j e g es t :
  non_overlapping b ->
  nth_error (buffer b) j = Some e -> in_bin b i j -> geom_of b i = Some g ->
  nth_error edges (gidx (shape b) i) = Some es -> nth_error es t = Some (coord e) ->
  exists r es',
    option_map (@coord _ _) (nth_error (buffer (convert_binned k b)) j) = Some (Some r) /\
    nth_error (convert_edges k edges (geom b)) (gidx (shape b) i) = Some es' /\
    nth_error es' t = Some r.
Proof.
  intros Hno He Hi Hg Hes Ht.
  exists (k (coord e) g), (map (fun c => k c g) es). repeat split.
  - rewrite (binned_pointwise Hno He Hi Hg). reflexivity.
  - apply edges_same_function; assumption.
  - rewrite nth_error_map', Ht. reflexivity.
Qed.
End ConvertProofs.

(* if the kernel is monotone in the event coordinate (every elastic kernel is,
   increasing or decreasing), an event between two edges of its pixel stays
   between the two converted edges *)
Section Bracket.
Variables C W G R : Type.
Variable k : C -> G -> R.
Variable leC : C -> C -> Prop.
Variable leR : R -> R -> Prop.
Hypothesis k_monotone : forall g x y, leC x y -> leR (k x g) (k y g).

Theorem edges_bracket (b : binned C W G) (edges : list (list C)) i j e g es t lo hi :
  non_overlapping b ->
  nth_error (buffer b) j = Some e -> in_bin b i j -> geom_of b i = Some g ->
  nth_error edges (gidx (shape b) i) = Some es ->
  nth_error es t = Some lo -> nth_error es (S t) = Some hi ->
  leC lo (coord e) -> leC (coord e) hi ->
  exists r es' lo' hi',
    option_map (@coord _ _) (nth_error (buffer (convert_binned k b)) j) = Some (Some r) /\
    nth_error (convert_edges k edges (geom b)) (gidx (shape b) i) = Some es' /\
    nth_error es' t = Some lo' /\ nth_error es' (S t) = Some hi' /\ leR lo' r /\ leR r hi'.
Proof using k_monotone.
  intros Hno He Hi Hg Hes Hlo Hhi H1 H2.
  exists (k (coord e) g), (map (fun c => k c g) es), (k lo g), (k hi g). repeat split.
  - rewrite (binned_pointwise k Hno He Hi Hg). reflexivity.
  - apply edges_same_function; assumption.
  - rewrite nth_error_map', Hlo. reflexivity.
  - rewrite nth_error_map', Hhi. reflexivity.
  - apply k_monotone; assumption.
  - apply k_monotone; assumption.
Qed.
End Bracket.

(* ---------------------------------------------------------------- the hypotheses are satisfiable *)
(* 7 events; a 2 x 3 grid (geometry on the outer dim) stored out of order, with
   an empty bin and a gap (buffer index 2 belongs to no bin) *)
Definition ex_b : binned nat nat nat :=
  mkB (map (fun n => mkE (10 * n) n (n + 1)) (seq 0 7))
      [3; 0; 5; 5; 6; 7] [5; 2; 5; 6; 7; 7] [100; 200] (GridOuter 3).

Example ex_wf : wf ex_b /\ wf_geom ex_b /\ non_overlapping ex_b.
Proof.
  split; [|split].
  - apply wfb_sound. reflexivity.
  - apply wf_geomb_sound. reflexivity.
  - apply non_overlappingb_sound. reflexivity.
Qed.

Example ex_bin_of : map (bin_of ex_b) (seq 0 8)
                    = [Some 1; Some 1; None; Some 0; Some 0; Some 3; Some 4; None].
Proof. reflexivity. Qed.

Example ex_convert :
  map (@coord _ _) (buffer (convert_binned (fun c g => c + g) ex_b))
  = [Some 100; Some 110; None; Some 130; Some 140; Some 250; Some 260].
Proof. reflexivity. Qed.

Example ex_view_after_compaction : bins_view (compact ex_b) = bins_view ex_b /\ begin_ (compact ex_b) = [0; 2; 4; 4; 5; 6].
Proof. split; reflexivity. Qed.
