(* C06/Check.v — how one observation of the implementation (a binned input, the
   result of scippneutron.convert on it, and the dense kernel evaluated
   separately on every event) is written down as Coq data, and the comparison
   of it with the executable model of C06/Model.v.  Definitions only.

   Floats are compared for BIT IDENTITY (the property is about exact equality:
   same kernel, same operands), so they are written as bit patterns in
   primitive 63-bit integers (sign kept in the constructor), NaNs canonicalised.

   The dense kernel [k] of the model is instantiated by the TABLE of dense
   evaluations the harness made: the "coordinate" of event j is (j, the
   geometry cell c_j the harness combined it with, the dense result v_j), and
   [k (j, c_j, v_j) g] is [v_j] if [g = c_j] and undefined otherwise.  The
   model then decides, by its own index arithmetic ([bin_of], [gidx]), which
   geometry cell meets which event; a disagreement with the pairing the
   harness took from scipp shows up as an undefined value. *)
From Coq Require Import List Arith Bool String ZArith Uint63.
From Verif.C06 Require Import Model ModelH.
Import ListNotations.
Open Scope string_scope.

Inductive fb := P (m : int) | M (m : int) | NaNb | NoV.
Definition fb_eqb (x y : fb) : bool :=
  match x, y with
  | P a, P b | M a, M b => Uint63.eqb a b
  | NaNb, NaNb | NoV, NoV => true
  | _, _ => false
  end.
Definition n_ (x : int) : nat := Z.to_nat (Uint63.to_Z x).

Fixpoint list_eqb {A B} (eqb : A -> B -> bool) (l : list A) (l' : list B) : bool :=
  match l, l' with
  | [], [] => true
  | x :: t, y :: t' => eqb x y && list_eqb eqb t t'
  | _, _ => false
  end.
Definition nats_eqb := list_eqb Nat.eqb.
Definition fbs_eqb := list_eqb fb_eqb.

Inductive lgrid := LG1 | LGO (n_inner : int) | LGI (n_inner : int).
Definition to_grid (g : lgrid) : grid :=
  match g with LG1 => Grid1 | LGO n => GridOuter (n_ n) | LGI n => GridInner (n_ n) end.

Record layout := mkL {
  l_nbuf : int;                (* events in the buffer (for a slice: the parent's whole buffer) *)
  l_begin : list int;
  l_end : list int;            (* row-major over the bin grid *)
  l_grid : lgrid;
  l_ncells : int;              (* geometry cells *)
  l_assign : list int;         (* per buffer index, from scipp's own binned broadcast: 0 = in no bin, i+1 = bin i *)
  l_cell : list int;           (* per buffer index, scipp's broadcast of the geometry-cell number: 0 / c+1 *)
  l_w : list fb;
  l_v : list fb                (* weights and variances of the input buffer *)
}.

Record program := mkP {
  p_tag : string;              (* target / scatter *)
  p_dense : list (list fb);    (* channels (1, or 3 for vectors): dense kernel value per buffer index *)
  p_obegin : list int;
  p_oend : list int;           (* the result's bins *)
  p_oid : list int;            (* the result buffer's event-id coordinate (= input buffer index) *)
  p_oval : list (list fb);     (* channels: the result buffer's target coordinate *)
  p_ow : list fb;
  p_ov : list fb;
  p_egrid : lgrid;             (* layout of the flattened bin-edge coordinate *)
  p_ecell : list int;          (* per edge element, scipp's dense broadcast of the cell number (c+1) *)
  p_eout : list (list fb);     (* converted edges *)
  p_edense : list (list fb);   (* dense kernel on (edge, cell) *)
  p_flags : list string;       (* harness-side sc.identical checks that failed *)
  p_prev : list (list fb)      (* call histories: channels of an event coordinate named like the target that the
                                  INPUT of the observed call already carries, per input buffer index ([] = none) *)
}.
Record c06case := mkC { c_l : layout; c_ps : list program }.

(* rows of a channel table *)
Fixpoint rows (chs : list (list fb)) (n : nat) : list (list fb) :=
  match n with
  | 0 => []
  | S n' => map (hd NoV) chs :: rows (map (@tl fb) chs) n'
  end.

Definition dcoord := (nat * nat * list fb)%type.      (* id, cell+1 used by the dense evaluation (0: none), value *)
Definition ktab (c : dcoord) (g : nat) : option (list fb) :=
  match c with (_, c1, v) => if Nat.eqb c1 (S g) then Some v else None end.

Fixpoint zip_events {C} (cs : list C) (ws vs : list fb) : list (event C fb) :=
  match cs, ws, vs with
  | c :: cs', w :: ws', v :: vs' => mkE c w v :: zip_events cs' ws' vs'
  | _, _, _ => []
  end.
Fixpoint zip3 {A B C} (l1 : list A) (l2 : list B) (l3 : list C) : list (A * B * C) :=
  match l1, l2, l3 with
  | a :: t1, b :: t2, c :: t3 => (a, b, c) :: zip3 t1 t2 t3
  | _, _, _ => []
  end.

Definition input_of (l : layout) (dense : list (list fb)) : binned dcoord fb nat :=
  let nb := n_ (l_nbuf l) in
  mkB (zip_events (zip3 (seq 0 nb) (map n_ (l_cell l)) (rows dense nb)) (l_w l) (l_v l))
      (map n_ (l_begin l)) (map n_ (l_end l)) (seq 0 (n_ (l_ncells l))) (to_grid (l_grid l)).

Definition output_of (l : layout) (p : program) : binned (nat * list fb) fb nat :=
  let no := List.length (p_oid p) in
  mkB (zip_events (combine (map n_ (p_oid p)) (rows (p_oval p) no)) (p_ow p) (p_ov p))
      (map n_ (p_obegin p)) (map n_ (p_oend p)) (seq 0 (n_ (l_ncells l))) (to_grid (l_grid l)).

Definition first_fail (l : list string) : string :=
  match filter (fun s => negb (String.eqb s "")) l with [] => "" | s :: _ => s end.

Definition check_layout (l : layout) : string :=
  let nb := n_ (l_nbuf l) in
  let b := input_of l [] in
  if negb (Nat.eqb (List.length (l_assign l)) nb && Nat.eqb (List.length (l_cell l)) nb
           && Nat.eqb (List.length (l_w l)) nb && Nat.eqb (List.length (l_v l)) nb) then "harness-shape"
  else if negb (wfb b) then "layout-not-wf"
  else if negb (non_overlappingb b) then "layout-overlap"
  else if negb (wf_geomb b) then "layout-geometry"
  else if negb (nats_eqb (map (fun j => match bin_of b j with Some i => S i | None => 0 end) (seq 0 nb))
                         (map n_ (l_assign l))) then "bin-assignment"
  else if negb (nats_eqb (map (fun j => match bin_of b j with Some i => S (gidx (shape b) i) | None => 0 end) (seq 0 nb))
                         (map n_ (l_cell l))) then "geometry-index"
  else "".

(* one bin: the model's content against the implementation's *)
Definition check_bin (mi : list (event (option (option (list fb))) fb)) (oi : list (event (nat * list fb) fb))
                     (ids : list nat) : string :=
  if negb (Nat.eqb (List.length mi) (List.length oi)) then "bin-size"
  else if negb (nats_eqb ids (map (fun e => fst (coord e)) oi)) then "event-order"
  else if negb (fbs_eqb (map (@weight _ _) mi) (map (@weight _ _) oi)) then "weights"
  else if negb (fbs_eqb (map (@variance _ _) mi) (map (@variance _ _) oi)) then "variances"
  else if negb (forallb (fun e => match coord e with Some (Some _) => true | _ => false end) mi) then "operand-pairing"
  else if negb (list_eqb (fun m o => match coord m with Some (Some v) => fbs_eqb v (snd (coord o)) | _ => false end) mi oi)
       then "value"
  else "".

(* call histories (ModelH.v): the input's events carry NAMED coordinates — "o" (the origin, instantiated as in
   [input_of] by the table of dense evaluations) and, when the input is the result of an earlier conversion or
   was loaded with a precomputed coordinate, "t" (the value already stored under the target's name).  The
   model's re-conversion [convert_named] then says what every event must carry under "t" afterwards. *)
Open Scope string_scope.
Definition knamed (c : dcoord) (g : nat) : dcoord :=
  match ktab c g with
  | Some v => (fst (fst c), 0, v)
  | None => (fst (fst c), 0, [NoV])       (* operand pairing differs from the model's: equal to no value *)
  end.

Definition input_named (l : layout) (dense prev : list (list fb)) : binned (named dcoord) fb nat :=
  let nb := n_ (l_nbuf l) in
  let os := zip3 (seq 0 nb) (map n_ (l_cell l)) (rows dense nb) in
  let ts := zip3 (seq 0 nb) (repeat 0 nb) (rows prev nb) in
  mkB (zip_events (map (fun ot => [("o", fst ot); ("t", snd ot)]) (combine os ts)) (l_w l) (l_v l))
      (map n_ (l_begin l)) (map n_ (l_end l)) (seq 0 (n_ (l_ncells l))) (to_grid (l_grid l)).

Definition check_prev (l : layout) (p : program) : string :=
  match p_prev p with
  | [] => ""
  | prev =>
    let nb := n_ (l_nbuf l) in
    if negb (forallb (fun ch => Nat.eqb (List.length ch) nb) prev
             && Nat.eqb (List.length prev) (List.length (p_oval p))) then "harness-shape-prev"
    else
      let b := input_named l (p_dense p) prev in
      let m := convert_named knamed "o" "t" b in
      let o := output_of l p in
      first_fail (map (fun i =>
                         if list_eqb (fun me oe => match lookup "t" (coord me) with
                                                   | Some c => fbs_eqb (snd c) (snd (coord oe))
                                                   | None => false
                                                   end) (bin_events m i) (bin_events o i)
                         then "" else "existing-coordinate-not-kept")
                      (seq 0 (nbins b)))
  end.

Definition check_program (l : layout) (p : program) : string :=
  let nb := n_ (l_nbuf l) in
  let b := input_of l (p_dense p) in
  let o := output_of l p in
  let no := List.length (p_oid p) in
  let r :=
    if negb (forallb (fun ch => Nat.eqb (List.length ch) nb) (p_dense p)
             && forallb (fun ch => Nat.eqb (List.length ch) no) (p_oval p)
             && Nat.eqb (List.length (p_ow p)) no && Nat.eqb (List.length (p_ov p)) no
             && Nat.eqb (List.length (p_dense p)) (List.length (p_oval p))) then "harness-shape"
    else if negb (wfb o && non_overlappingb o) then "out-layout"
    else if negb (Nat.eqb (nbins o) (nbins b)) then "bin-count"
    else
      let m := convert_binned ktab b in
      let per_bin := map (fun i =>
                            check_bin (bin_events m i) (bin_events o i)
                                      (map (fun e => fst (fst (coord e))) (bin_events b i)))
                         (seq 0 (nbins b)) in
      let rb := first_fail per_bin in
      if negb (String.eqb rb "") then rb
      else
      let rp := check_prev l p in
      if negb (String.eqb rp "") then rp
      else
        let ne := List.length (p_ecell p) in
        if negb (nats_eqb (map (fun t => S (gidx (to_grid (p_egrid p)) t)) (seq 0 ne)) (map n_ (p_ecell p)))
        then "edge-index"
        else if negb (list_eqb fbs_eqb (p_eout p) (p_edense p)
                      && forallb (fun ch => Nat.eqb (List.length ch) ne) (p_eout p)) then "edge-value"
        else match p_flags p with
             | [] => ""
             | f :: _ => "flag-" ++ f
             end in
  if String.eqb r "" then "" else p_tag p ++ "/" ++ r.

Fixpoint join (sep : string) (l : list string) : string :=
  match l with
  | [] => ""
  | [s] => s
  | s :: t => s ++ sep ++ join sep t
  end.

(* "" = the implementation behaved as the model says *)
Definition check (c : c06case) : string :=
  let rl := check_layout (c_l c) in
  if negb (String.eqb rl "") then "layout/" ++ rl
  else join "|" (filter (fun s => negb (String.eqb s "")) (map (check_program (c_l c)) (c_ps c))).

(* how many events were compared (for the coverage counters) *)
Definition events_in_bins (c : c06case) : nat :=
  List.length (filter (fun a => negb (Nat.eqb (n_ a) 0)) (l_assign (c_l c))).
