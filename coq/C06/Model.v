(* C06/Model.v — hand-written executable model of scipp's binned ("event") data
   and of what a coordinate conversion does to it.  DEFINITIONS ONLY (the
   proofs are in C06/Proofs.v).

   scipp's binned-data engine is C++ and is MODELLED here, in a few lines:

   * a binned array is an event buffer plus, for every bin of a (row-major
     flattened) 1-d or 2-d bin grid, a half-open index range
     [begin_i, end_i) into the buffer, plus the per-pixel geometry the bins carry;
   * bins may be empty, uneven, stored in any order, and need not cover the
     buffer (gaps: a slice of a binned array keeps the whole buffer and only
     narrows begin/end);
   * an element-wise ("broadcasting-only") kernel [k] applied to an event
     coordinate and bin-level geometry acts on event number [idx] of the buffer
     as [k (coord e) (geom (bin_of idx))]; weights, variances, the order of the
     buffer and the index ranges are carried over.

   The kernel [k] is a Section variable: what it computes is the business of
   C01 / C05; this file is about WHICH operands meet. *)
From Coq Require Import List Arith Bool.
Import ListNotations.

Set Implicit Arguments.

(* ---------------------------------------------------------------- data *)
Record event (C W : Type) := mkE { coord : C; weight : W; variance : W }.

(* which dimension of the bin grid carries the geometry.
   Grid1        every bin has its own geometry cell (1-d grid of pixels, or a
                grid whose geometry depends on all of its dims): cell = i
   GridOuter n  2-d grid (outer, inner) flattened row-major with n inner bins,
                geometry depends on the OUTER dim only (spectrum, tof): cell = i / n
   GridInner n  geometry depends on the INNER dim only (tof, spectrum): cell = i mod n *)
Inductive grid := Grid1 | GridOuter (n_inner : nat) | GridInner (n_inner : nat).

Definition gidx (g : grid) (i : nat) : nat :=
  match g with
  | Grid1 => i
  | GridOuter n => i / n
  | GridInner n => i mod n
  end.

Record binned (C W G : Type) := mkB {
  buffer : list (event C W);
  begin_ : list nat;
  end_ : list nat;
  geom : list G;
  shape : grid
}.

Section Layout.
Variables C W G : Type.
Notation binned := (binned C W G).

Definition nbins (b : binned) : nat := length (begin_ b).
Definition ranges (b : binned) : list (nat * nat) := combine (begin_ b) (end_ b).
Definition bin_range (b : binned) (i : nat) : option (nat * nat) := nth_error (ranges b) i.

(* buffer index j lies in bin i *)
Definition in_bin (b : binned) (i j : nat) : Prop :=
  exists s e, bin_range b i = Some (s, e) /\ s <= j < e.

Definition in_range (r : nat * nat) (j : nat) : bool := (fst r <=? j) && (j <? snd r).

Fixpoint find_bin (rs : list (nat * nat)) (j : nat) (i : nat) : option nat :=
  match rs with
  | [] => None
  | r :: rs' => if in_range r j then Some i else find_bin rs' j (S i)
  end.

(* the bin that contains buffer index j (None: j belongs to no bin) *)
Definition bin_of (b : binned) (j : nat) : option nat := find_bin (ranges b) j 0.

(* well-formedness: begin_i <= end_i <= |buffer| *)
Definition wf (b : binned) : Prop :=
  length (begin_ b) = length (end_ b) /\
  Forall (fun r => fst r <= snd r /\ snd r <= length (buffer b)) (ranges b).
(* every bin has a geometry cell *)
Definition wf_geom (b : binned) : Prop :=
  forall i, i < nbins b -> gidx (shape b) i < length (geom b).
(* no buffer index belongs to two bins (empty bins overlap nothing) *)
Definition non_overlapping (b : binned) : Prop :=
  forall i i' j, in_bin b i j -> in_bin b i' j -> i = i'.

(* decidable versions, run on every correspondence case *)
Definition wfb (b : binned) : bool :=
  Nat.eqb (length (begin_ b)) (length (end_ b)) &&
  forallb (fun r => (fst r <=? snd r) && (snd r <=? length (buffer b))) (ranges b).
Definition disjointb (r r' : nat * nat) : bool :=
  (snd r <=? fst r') || (snd r' <=? fst r) || (snd r <=? fst r) || (snd r' <=? fst r').
Fixpoint pairwise_disjointb (rs : list (nat * nat)) : bool :=
  match rs with
  | [] => true
  | r :: rs' => forallb (disjointb r) rs' && pairwise_disjointb rs'
  end.
Definition non_overlappingb (b : binned) : bool := pairwise_disjointb (ranges b).
Definition wf_geomb (b : binned) : bool :=
  forallb (fun i => gidx (shape b) i <? length (geom b)) (seq 0 (nbins b)).

Definition geom_of (b : binned) (i : nat) : option G := nth_error (geom b) (gidx (shape b) i).

(* what a user sees of bin i: its events, in buffer order *)
Definition slice {A} (l : list A) (s e : nat) : list A := firstn (e - s) (skipn s l).
Definition bin_events (b : binned) (i : nat) : list (event C W) :=
  match bin_range b i with
  | Some (s, e) => slice (buffer b) s e
  | None => []
  end.
Definition bins_view (b : binned) : list (list (event C W)) :=
  map (bin_events b) (seq 0 (nbins b)).

(* scipp copies a non-contiguous binned array (a slice, bins with gaps or in a
   different order) into a compact one: bins back to back in grid order *)
Fixpoint offsets (sizes : list nat) (from : nat) : list nat :=
  match sizes with
  | [] => []
  | n :: t => from :: offsets t (from + n)
  end.
Definition compact (b : binned) : binned :=
  let v := bins_view b in
  let sizes := map (@length _) v in
  let bs := offsets sizes 0 in
  mkB (concat v) bs (map (fun p => fst p + snd p) (combine bs sizes)) (geom b) (shape b).
End Layout.

(* ---------------------------------------------------------------- conversion *)
Section Convert.
Variables C W G R : Type.
Variable k : C -> G -> R.        (* the dense kernel: event coordinate, pixel geometry |-> new coordinate *)

Fixpoint mapi_from {A B} (f : nat -> A -> B) (n : nat) (l : list A) : list B :=
  match l with
  | [] => []
  | x :: t => f n x :: mapi_from f (S n) t
  end.

(* the converted coordinate of the event stored at buffer index idx;
   None = the event belongs to no bin, its coordinate is not observable *)
Definition conv_coord (b : binned C W G) (idx : nat) (e : event C W) : option R :=
  match bin_of b idx with
  | Some i => option_map (k (coord e)) (geom_of b i)
  | None => None
  end.
Definition conv_event (b : binned C W G) (idx : nat) (e : event C W) : event (option R) W :=
  mkE (conv_coord b idx e) (weight e) (variance e).

Definition convert_binned (b : binned C W G) : binned (option R) W G :=
  mkB (mapi_from (conv_event b) 0 (buffer b)) (begin_ b) (end_ b) (geom b) (shape b).

(* the dense bin-edge coordinate that accompanies the events: one list of
   edges per geometry cell, or one list shared by all cells *)
Definition convert_edges (edges : list (list C)) (gs : list G) : list (list R) :=
  map (fun p => map (fun c => k c (snd p)) (fst p)) (combine edges gs).
Definition convert_edges_shared (edges : list C) (gs : list G) : list (list R) :=
  map (fun g => map (fun c => k c g) edges) gs.
End Convert.
