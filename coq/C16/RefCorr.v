(* C16/RefCorr.v — the correspondence comparison against the reference translation RefLeaf.v
   (fallback when the current model.py cannot be translated / compiled; see RefLeaf.v). *)
From Coq Require Import QArith ZArith String List.
From Verif.Sem Require Import Field Val QInst Corr.
From Verif.C16 Require Import SemExt Model CorrCore RefLeaf.

Definition run (c : pcase) : val O16 :=
  run16 (@ref_leaf O16 (QXc 0 0)) (@ref_fwhm O16 (QXc 0 0)) c.
Definition check (c : pcase) : string := cmp16 (run c) (pout c) (ptol c) (pfloor c).
