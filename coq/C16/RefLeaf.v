(* C16/RefLeaf.v — REFERENCE translation of the nine functions of
   src/scippneutron/peaks/model.py that C16 translates: the output of tools/py2coq.py on the
   committed (pinned) text of the file, kept here verbatim.  It is NOT used while the current
   source translates and compiles (then the correspondence runs the terms regenerated on that
   run, Run.GenModel).  When the current source can no longer be translated or the regenerated
   module no longer compiles (new syntax, a fast path using array indexing, ...), the
   correspondence run falls back to this reference (RefCorr.v), so that the implementation is
   still compared inside Coq, on the full generated input set, with what the documented code
   computes — and a behavioural difference is reported with a concrete input.  The proof
   obligations stay broken in that case (they are about the regenerated terms).
   Definitions only. *)
From Coq Require Import ZArith String List.
From Verif.Sem Require Import Field Val.
Require Import Verif.C16.SemExt.
Require Import Verif.C16.Model.
Import ListNotations.
Open Scope string_scope.
Open Scope Z_scope.

Section Gen.
Variable O : Fops.
Context {X : Xops O}.
Definition p_gaussian (x amplitude loc scale : val O) : val O :=
  (vbind O (sc_scalar_v O (py_max O (py_attr O scale "value") (VFloat O (fdec (1) (-15)))) (py_attr O scale "variance") (py_attr O scale "unit") (VNone O)) (fun scale =>
   (vbind O (vsub O x loc) (fun v_val =>
   (vbind O (vmul O v_val v_val) (fun v_val =>
   (vbind O (vdiv O v_val (vmul O (VInt O (-2)) (vpow O scale (VInt O (2))))) (fun v_val =>
   (vbind O (sc_exp_out O v_val v_val) (fun v_val =>
   (vbind O (vmul O v_val (vdiv O amplitude (vmul O (math_sqrt O (vmul O (VInt O (2)) (math_pi O))) scale))) (fun v_val =>
   v_val)))))))))))).

Definition p_lorentzian (x amplitude loc scale : val O) : val O :=
  (vbind O (sc_scalar_v O (py_max O (py_attr O scale "value") (VFloat O (fdec (1) (-15)))) (py_attr O scale "variance") (py_attr O scale "unit") (VNone O)) (fun scale =>
   (vbind O (vsub O x loc) (fun v_val =>
   (vbind O (vmul O v_val v_val) (fun v_val =>
   (vbind O (vadd O v_val (vpow O scale (VInt O (2)))) (fun v_val =>
   (vbind O (sc_reciprocal_out O v_val v_val) (fun v_val =>
   (vbind O (vmul O v_val (vdiv O (vmul O amplitude scale) (math_pi O))) (fun v_val =>
   v_val)))))))))))).

Definition GaussianModel__call (self x params : val O) : val O :=
  (vbind O (kw_check O params ["amplitude"; "loc"; "scale"]) (fun _ => (p_gaussian x (vindex O params (VStr O "amplitude")) (vindex O params (VStr O "loc")) (vindex O params (VStr O "scale"))))).

Definition GaussianModel_fwhm (self params : val O) : val O :=
  (vmul O (vmul O (VInt O (2)) (math_sqrt O (vmul O (VInt O (2)) (math_log O (VInt O (2)))))) (vindex O params (vadd O (py_attr O self "_prefix") (VStr O "scale")))).

Definition LorentzianModel__call (self x params : val O) : val O :=
  (vbind O (kw_check O params ["amplitude"; "loc"; "scale"]) (fun _ => (p_lorentzian x (vindex O params (VStr O "amplitude")) (vindex O params (VStr O "loc")) (vindex O params (VStr O "scale"))))).

Definition LorentzianModel_fwhm (self params : val O) : val O :=
  (vmul O (VInt O (2)) (vindex O params (vadd O (py_attr O self "_prefix") (VStr O "scale")))).

Definition PseudoVoigtModel__call (self x params : val O) : val O :=
  (vbind O (py_dict O (m_items O params)) (fun params =>
   (vbind O (pop_value O params (VStr O "fraction")) (fun fraction =>
   (vbind O (pop_rest O params (VStr O "fraction")) (fun params =>
   (vbind O (vbind O (kw_check O params ["amplitude"; "loc"; "scale"]) (fun _ => (p_lorentzian x (vindex O params (VStr O "amplitude")) (vindex O params (VStr O "loc")) (vindex O params (VStr O "scale"))))) (fun lorentzian =>
   (vbind O (vdiv O (vindex O params (VStr O "scale")) (math_sqrt O (vmul O (VInt O (2)) (math_log O (VInt O (2)))))) (fun scale_g =>
   (vbind O (p_gaussian x (vindex O params (VStr O "amplitude")) (vindex O params (VStr O "loc")) scale_g) (fun gaussian =>
   (vadd O (vmul O fraction lorentzian) (vmul O (vsub O (VInt O (1)) fraction) gaussian)))))))))))))).

Definition PseudoVoigtModel_fwhm (self params : val O) : val O :=
  (vmul O (VInt O (2)) (vindex O params (vadd O (py_attr O self "_prefix") (VStr O "scale")))).

Definition PolynomialModel__call (self x params : val O) : val O :=
  (vbind O (vindex O params (py_fstr O [(VStr O "a"); (py_attr O self "degree")])) (fun a_degree =>
   (vbind O (sc_full O (py_attr O a_degree "value") (py_attr O a_degree "unit") (py_attr O x "sizes")) (fun v_val =>
   (vbind O (py_for_range O (vsub O (py_attr O self "degree") (VInt O (1))) (VInt O (-1)) (VInt O (-1)) (fun i st307 =>
   (vbind O (vindex O st307 (VInt O 0)) (fun v_val =>
   (vbind O (vmul O v_val x) (fun v_val =>
   (vbind O (vadd O v_val (vindex O params (py_fstr O [(VStr O "a"); i]))) (fun v_val =>
   (VTuple O [v_val])))))))) (VTuple O [v_val]))
   (fun st307 => (vbind O (vindex O st307 (VInt O 0)) (fun v_val =>
   v_val)))))))).

End Gen.

Section Leaves.
Variable O : Fops.
Context {X : Xops O}.
Definition ref_leaf (k : kind) (self x params : val O) : val O :=
  match k with
  | KGauss => GaussianModel__call O self x params
  | KLorentz => LorentzianModel__call O self x params
  | KPVoigt => PseudoVoigtModel__call O self x params
  | KPoly _ => PolynomialModel__call O self x params
  end.
Definition ref_fwhm (k : kind) (self params : val O) : val O :=
  match k with
  | KGauss => GaussianModel_fwhm O self params
  | KLorentz => LorentzianModel_fwhm O self params
  | KPVoigt => PseudoVoigtModel_fwhm O self params
  | KPoly _ => VErr O "NotImplementedError"
  end.
End Leaves.
