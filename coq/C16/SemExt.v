(* C16/SemExt.v — extension of the semantic layer (coq/Sem/Val.v) for the
   translation of src/scippneutron/peaks/model.py.  Definitions only.

   * [Xops]: extra arithmetic next to [Fops] (natural logarithm), resolved as a
     type class; instances for R (ln) and Q (series approximation, used only by
     the correspondence run).
   * Python-level primitives the module uses: max, math.sqrt, math.log, dict(),
     .items(), .pop(), f( **d ), f-strings, `for i in range`, sc.full,
     sc.scalar(..., variance=...), sc.exp / sc.reciprocal with out=.
   * [py_attr] and [vadd] SHADOW the definitions of Val.v in the generated
     module (it imports this file after Val): they add `.value`, `.variance`,
     attribute access on objects (self is modelled as the dict of its
     attributes) and string concatenation, and otherwise defer to Val.v.

   Python floats that took part in arithmetic are represented as dimensionless
   0-d float64 variables (Val.coerce); [py_num] reads them back. *)
From Coq Require Import ZArith String List Bool QArith Qround Qabs Reals DecimalString.
From Verif.Sem Require Import Field Val RInst QInst.
Import ListNotations.
Open Scope string_scope.
Open Scope Z_scope.

(* fln: natural logarithm.  fexpx: exponential (same function as [fexp O]; the Q instance
   below is a cheaper approximation than QInst.qexp for the strongly negative arguments of
   Gaussian tails) *)
Class Xops (O : Fops) := { fln : F O -> F O; fexpx : F O -> F O }.

Section Ext.
Variable O : Fops.
Context {X : Xops O}.
Local Notation val := (val O).

(* ---------- Python numbers *)
Definition py_num (v : val) : option (F O) :=
  match v with
  | VFloat _ x => Some x
  | VInt _ z => Some (fofZ O z)
  | VVar _ (ENum _ x _) u d =>
      if deqb (ud O u) dzero && is_num d then Some (fmul O x (us O u)) else None
  | _ => None
  end.
Definition as_int (v : val) : option Z :=
  match v with
  | VInt _ n => Some n
  | VVar _ (ENum _ _ (Some n)) _ d => if is_int d then Some n else None
  | _ => None
  end.

Definition math_sqrt (x : val) : val :=
  match x with
  | VErr _ e => VErr O e
  | _ => match py_num x with Some v => VFloat O (fsqrt O v) | None => VErr O "TypeError" end
  end.
Definition math_log (x : val) : val :=
  match x with
  | VErr _ e => VErr O e
  | _ => match py_num x with Some v => VFloat O (fln v) | None => VErr O "TypeError" end
  end.
(* max(a, b) on Python floats:  b if b > a else a *)
Definition py_max (a b : val) : val :=
  match a, b with
  | VErr _ e, _ => VErr O e
  | _, VErr _ e => VErr O e
  | VFloat _ x, VFloat _ y => if fltb O x y then VFloat O y else VFloat O x
  | _, _ => VErr O "TypeError"
  end.

(* ---------- attributes: x.value, x.variance on 0-d variables; objects as dicts *)
Definition py_attr (v : val) (name : string) : val :=
  match v with
  | VDict _ l => match assoc name l with Some x => x | None => VErr O "AttributeError" end
  | VVar _ (ENum _ x iz) u d =>
      if String.eqb name "value" then
        (if is_float d then VFloat O x
         else match iz with Some n => VInt O n | None => VErr O "TypeError" end)
      else if String.eqb name "variance" then VNone O
      else Val.py_attr O v name
  | _ => Val.py_attr O v name
  end.
(* str + str *)
Definition vadd (a b : val) : val :=
  match a, b with
  | VStr _ s, VStr _ t => VStr O (s ++ t)
  | _, _ => Val.vadd O a b
  end.

(* ---------- scipp *)
(* sc.scalar(value, variance=None, unit=...): variances are not modelled *)
Definition sc_scalar_v (value variance unit dt : val) : val :=
  match variance with
  | VNone _ => sc_scalar O value unit dt
  | VErr _ e => VErr O e
  | _ => VErr O "variances-not-modelled"
  end.
(* sc.exp(x, out=x): scipp insists on the unit `dimensionless` (multiplier exactly 1; probed:
   exp of mm^2/m^2 raises UnitError).  Value semantics: out= only names the result buffer. *)
Definition sc_exp_out (x out : val) : val :=
  match x with
  | VErr _ e => VErr O e
  | VVar _ (ENum _ v _) u d =>
      if is_float d then
        if deqb (ud O u) dzero && fclose O (us O u) f1
        then VVar O (ENum O (fexpx v) None) (u_one O) d
        else VErr O "UnitError"
      else VErr O "DTypeError"
  | _ => VErr O "TypeError"
  end.
Definition sc_reciprocal_out (x out : val) : val := sc_reciprocal O x.
(* one element of sc.full(value=v, unit=u, sizes=...) *)
Definition sc_full (value unit sizes : val) : val := sc_scalar O value unit (VNone O).

(* ---------- dicts *)
Definition py_dict (x : val) : val :=
  match x with VDict _ _ | VErr _ _ => x | _ => VErr O "TypeError" end.
Definition m_items (x : val) : val :=
  match x with VDict _ _ | VErr _ _ => x | _ => VErr O "AttributeError" end.
Fixpoint remove_key (k : string) (l : list (string * val)) : list (string * val) :=
  match l with
  | [] => []
  | (k', v) :: r => if String.eqb k k' then remove_key k r else (k', v) :: remove_key k r
  end.
Definition pop_value (d k : val) : val :=
  match d, k with
  | VErr _ e, _ => VErr O e
  | VDict _ l, VStr _ s => match assoc s l with Some x => x | None => VErr O "KeyError" end
  | _, _ => VErr O "TypeError"
  end.
Definition pop_rest (d k : val) : val :=
  match d, k with
  | VErr _ e, _ => VErr O e
  | VDict _ l, VStr _ s => VDict O (remove_key s l)
  | _, _ => VErr O "TypeError"
  end.
(* f( **d ): d may only hold names of parameters of f (a missing one shows up as KeyError
   from the lookup; Python raises TypeError in both cases) *)
Definition kw_check (d : val) (names : list string) : val :=
  match d with
  | VErr _ e => VErr O e
  | VDict _ l =>
      if forallb (fun kv => existsb (String.eqb (fst kv)) names) l then VNone O else VErr O "TypeError"
  | _ => VErr O "TypeError"
  end.

(* ---------- f-strings of strings and ints *)
Definition z_str (z : Z) : string := NilZero.string_of_int (Z.to_int z).
Fixpoint fstr_parts (l : list val) : option string :=
  match l with
  | [] => Some ""
  | p :: r =>
      match (match p with
             | VStr _ s => Some s
             | _ => match as_int p with Some n => Some (z_str n) | None => None end
             end), fstr_parts r with
      | Some a, Some b => Some (a ++ b)
      | _, _ => None
      end
  end.
Definition py_fstr (l : list val) : val :=
  match fstr_parts l with Some s => VStr O s | None => VErr O "fstring-not-modelled" end.

(* ---------- for i in range(lo, hi, step): st = body(i, st) *)
Fixpoint for_loop (fuel : nat) (i step : Z) (f : val -> val -> val) (st : val) : val :=
  match fuel with
  | 0%nat => st
  | S n => match st with
           | VErr _ _ => st
           | _ => for_loop n (i + step) step f (f (VInt O i) st)
           end
  end.
Definition range_len (a b c : Z) : Z :=
  if 0 <? c then Z.max 0 ((b - a + c - 1) / c) else Z.max 0 ((a - b + (- c) - 1) / (- c)).
Definition py_for_range (lo hi step : val) (f : val -> val -> val) (init : val) : val :=
  match as_int lo, as_int hi, as_int step with
  | Some a, Some b, Some c =>
      if c =? 0 then VErr O "ValueError" else for_loop (Z.to_nat (range_len a b c)) a c f init
  | _, _, _ => VErr O "TypeError"
  end.
End Ext.

(* ---------- instances *)
Global Instance RX (h mn : R) : Xops (ROps h mn) := { fln := ln; fexpx := exp }.

(* ln over Q: ln x = 2 atanh((x-1)/(x+1)), fixed point 2^-140, 160 terms; accurate
   (1e-40) for x in about [1/3, 3] — the code only takes ln 2 *)
Fixpoint atanh_series (fuel : nat) (k : Z) (pow t2 acc : Z) : Z :=
  match fuel with
  | O => acc
  | S f => atanh_series f (k + 1) (fxmul pow t2) t2 (acc + pow / (2 * k + 1))
  end.
Definition qln (x : Q) : Q :=
  if Qle_bool x 0 then 0%Q
  else let t := to_fx ((x - 1) / (x + 1))%Q in
       of_fx (2 * atanh_series 160 0 t (fxmul t t) 0).
(* exp over Q by argument reduction x = n ln 2 + r, |r| <= 0.35: exp x = 2^n exp r with exp r
   from the fixed-point series of QInst (2^-140); dyadic result, no gcd.  Relative accuracy
   about 1e-40 for |x| <= 1e9 (ln 2 is given to 240 bits). *)
Definition LN2_240 : Z := 1224685061431752149387114016819916847747660333428801675508466606222838698.
Definition qln2 : Q := Qmake LN2_240 (Pos.pow 2 240).
Definition qexp2 (x : Q) : Q :=
  let n := Qfloor (x / qln2 + (1 # 2)) in
  let r := (x - (n # 1) * qln2)%Q in
  let m := exp_series 40 0 SH (to_fx r) 0 in
  if (0 <=? n)%Z then Qmake (m * Z.pow 2 n) PP
  else Qmake m (PP * Z.to_pos (Z.pow 2 (- n))).
Global Instance QX (h mn : Q) : Xops (QOps h mn) := { fln := qln; fexpx := qexp2 }.
