(* C16/Model.v — hand-written executable model of the object layer of
   src/scippneutron/peaks/model.py that the translator does not cover:
   Model.__init__ (parameter-name sets), Model.__call__ (parameter-set check,
   prefix stripping), Model.with_prefix, CompositeModel.__init__/_call
   (disjointness check, restriction of the parameter dict, left + right) and
   PolynomialModel.__init__ (names a0..an).  The numerical leaves (`_call` of the
   four concrete models) are a parameter [leaf]; the correspondence run plugs in
   the functions REGENERATED from the source.  Tied to the code by correspondence.
   Definitions only. *)
From Coq Require Import ZArith String List Bool.
From Verif.Sem Require Import Field Val.
From Verif.C16 Require Import SemExt.
Import ListNotations.
Open Scope string_scope.

Inductive kind := KGauss | KLorentz | KPVoigt | KPoly (degree : Z).
Inductive model :=
| Leaf (k : kind) (prefix : string)
| Comp (prefix : string) (l r : model).

Definition prefix_of (m : model) : string :=
  match m with Leaf _ p => p | Comp p _ _ => p end.
Definition with_prefix (p : string) (m : model) : model :=
  match m with Leaf k _ => Leaf k p | Comp _ l r => Comp p l r end.

Fixpoint upto (n : nat) : list nat := match n with O => [] | S k => upto k ++ [k] end.
Definition base_names (k : kind) : list string :=
  match k with
  | KGauss | KLorentz => ["amplitude"; "loc"; "scale"]
  | KPVoigt => ["amplitude"; "loc"; "scale"; "fraction"]
  | KPoly n => map (fun i => "a" ++ z_str (Z.of_nat i)) (upto (S (Z.to_nat n)))
  end.
(* self._param_names (without the model's own prefix) *)
Fixpoint names (m : model) : list string :=
  match m with
  | Leaf k _ => base_names k
  | Comp _ l r => map (append (prefix_of l)) (names l) ++ map (append (prefix_of r)) (names r)
  end.
(* self.param_names (with prefix) *)
Definition pnames (m : model) : list string := map (append (prefix_of m)) (names m).

(* a chain of re-prefixings m.with_prefix(p1).with_prefix(p2)... *)
Definition with_prefixes (ps : list string) (m : model) : model :=
  fold_left (fun m' p => with_prefix p m') ps m.

(* keys of _param_bounds() (without the model's own prefix) and of param_bounds *)
Definition bound_base (k : kind) : list string :=
  match k with
  | KGauss | KLorentz => ["scale"]
  | KPVoigt => ["scale"; "fraction"]
  | KPoly _ => []
  end.
Fixpoint bnames (m : model) : list string :=
  match m with
  | Leaf k _ => bound_base k
  | Comp _ l r => map (append (prefix_of l)) (bnames l) ++ map (append (prefix_of r)) (bnames r)
  end.
Definition pbnames (m : model) : list string := map (append (prefix_of m)) (bnames m).

Definition mem (s : string) (l : list string) : bool := existsb (String.eqb s) l.
Definition subset (a b : list string) : bool := forallb (fun s => mem s b) a.
Definition set_eqb (a b : list string) : bool := subset a b && subset b a.
Definition disjoint (a b : list string) : bool := forallb (fun s => negb (mem s b)) a.

(* constructor checks: PolynomialModel degree > 0; CompositeModel refuses overlapping names *)
Fixpoint constructible (m : model) : bool :=
  match m with
  | Leaf (KPoly n) _ => (0 <? n)%Z
  | Leaf _ _ => true
  | Comp _ l r => constructible l && constructible r && disjoint (pnames l) (pnames r)
  end.

(* name[len(prefix):] *)
Fixpoint drop (n : nat) (s : string) : string :=
  match n, s with
  | O, _ => s
  | S k, String _ r => drop k r
  | S _, EmptyString => EmptyString
  end.
(* a dict with every key prefixed *)
Definition pref {A} (p : string) (d : list (string * A)) : list (string * A) :=
  map (fun kv => (p ++ fst kv, snd kv)) d.

Section Call.
Variable O : Fops.
Local Notation val := (val O).
(* kind -> self (its attributes) -> x -> params (unprefixed) -> value *)
Variable leaf : kind -> val -> val -> val -> val.

Definition self_of (k : kind) (p : string) : val :=
  VDict O (("_prefix", VStr O p) ::
           match k with KPoly n => [("degree", VInt O n)] | _ => [] end).
Definition strip (p : string) (d : list (string * val)) : list (string * val) :=
  map (fun kv => (drop (String.length p) (fst kv), snd kv)) d.
(* {name: params[name] for name in names} *)
Fixpoint restrict (d : list (string * val)) (ns : list string) : list (string * val) :=
  match ns with
  | [] => []
  | n :: r => match assoc n d with Some v => (n, v) :: restrict d r | None => restrict d r end
  end.

(* Model.__call__ followed by the model's _call *)
Fixpoint call (m : model) (x : val) (params : list (string * val)) : val :=
  if negb (set_eqb (map fst params) (pnames m)) then VErr O "ValueError"
  else
    let d := strip (prefix_of m) params in
    match m with
    | Leaf k p => leaf k (self_of k p) x (VDict O d)
    | Comp _ l r =>
        vbind O (call l x (restrict d (pnames l))) (fun lv =>
        vbind O (call r x (restrict d (pnames r))) (fun rv =>
        Val.vadd O lv rv))
    end.
End Call.
