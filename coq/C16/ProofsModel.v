(* C16/ProofsModel.v — facts about the hand model of the object layer
   (Model.v): prefix handling is a string identity, wrong parameter sets are
   refused, a composite is the sum of its parts. *)
From Coq Require Import ZArith String List Bool Reals Lra.
From Verif.Sem Require Import Field Val RInst RLemmas.
From Verif.C16 Require Import SemExt Model.
Import ListNotations.
Open Scope string_scope.

(* ---------- strings *)
Lemma eqb_app_l p a b : String.eqb (p ++ a) (p ++ b) = String.eqb a b.
Proof.
  induction p as [|c p IH]; simpl; [reflexivity|].
  rewrite Ascii.eqb_refl. exact IH.
Qed.
(* prefix_irrelevant, string form: stripping len(p) characters from p ++ name gives name *)
Lemma drop_app p s : drop (String.length p) (p ++ s) = s.
Proof. induction p as [|c p IH]; simpl; [reflexivity | exact IH]. Qed.

Lemma assoc_pref {A} p k (d : list (string * A)) : assoc (p ++ k) (pref p d) = assoc k d.
Proof.
  induction d as [|[k' v] d IH]; simpl; [reflexivity|].
  rewrite eqb_app_l, IH. reflexivity.
Qed.
Lemma mem_pref p s l : mem (p ++ s) (map (append p) l) = mem s l.
Proof.
  unfold mem. induction l as [|t l IH]; simpl; [reflexivity|].
  rewrite eqb_app_l, IH. reflexivity.
Qed.
Lemma subset_pref p a b : subset (map (append p) a) (map (append p) b) = subset a b.
Proof.
  unfold subset. induction a as [|s a IH]; simpl; [reflexivity|].
  rewrite mem_pref, IH. reflexivity.
Qed.
Lemma set_eqb_pref p a b : set_eqb (map (append p) a) (map (append p) b) = set_eqb a b.
Proof. unfold set_eqb. rewrite !subset_pref. reflexivity. Qed.
Lemma keys_pref {A} p (d : list (string * A)) : map fst (pref p d) = map (append p) (map fst d).
Proof. unfold pref. rewrite !map_map. reflexivity. Qed.

Section P.
Variable O : Fops.
Local Notation val := (val O).
Variable leaf : kind -> val -> val -> val -> val.
(* the numerical leaves do not read self._prefix (proved for the regenerated _call methods
   in coq-run/C16/Tie.v) *)
Hypothesis leaf_prefix_indep : forall k p q x d, leaf k (self_of O k p) x d = leaf k (self_of O k q) x d.

Lemma strip_pref p (d : list (string * val)) : strip O p (pref p d) = d.
Proof.
  unfold strip, pref. rewrite map_map. simpl.
  induction d as [|[k v] d IH]; simpl; [reflexivity|].
  rewrite drop_app, IH. reflexivity.
Qed.
Lemma names_with_prefix p m : names (with_prefix p m) = names m.
Proof. destruct m; reflexivity. Qed.
Lemma pnames_with_prefix p m : pnames (with_prefix p m) = map (append p) (names m).
Proof. unfold pnames. rewrite names_with_prefix. destruct m; reflexivity. Qed.

(* prefix_irrelevant: evaluating the model renamed to prefix p on the parameters renamed to
   prefix p gives the same result for every p *)
Lemma call_prefix p m x d :
  call O leaf (with_prefix p m) x (pref p d) = call O leaf (with_prefix "" m) x d.
Proof using leaf_prefix_indep.
  destruct m as [k p0 | p0 l r]; simpl.
  - change (pnames (Leaf k p)) with (map (append p) (base_names k)).
    change (pnames (Leaf k "")) with (map (append "") (base_names k)).
    rewrite keys_pref, set_eqb_pref.
    rewrite <- (set_eqb_pref "" (map fst d) (base_names k)).
    replace (map (append "") (map fst d)) with (map fst d) by (rewrite map_ext with (g := fun s => s); [rewrite map_id|]; reflexivity).
    destruct (set_eqb (map fst d) (map (append "") (base_names k))); simpl; [|reflexivity].
    rewrite strip_pref. change (strip O "" d) with (map (fun kv : string * val => (fst kv, snd kv)) d).
    rewrite (leaf_prefix_indep k p "").
    f_equal. f_equal. symmetry. rewrite <- (map_id d) at 2. apply map_ext. intros [a b]; reflexivity.
  - change (pnames (Comp p l r)) with (map (append p) (names (Comp p0 l r))).
    change (pnames (Comp "" l r)) with (map (append "") (names (Comp p0 l r))).
    rewrite keys_pref, set_eqb_pref.
    rewrite <- (set_eqb_pref "" (map fst d) (names (Comp p0 l r))).
    replace (map (append "") (map fst d)) with (map fst d) by (rewrite map_ext with (g := fun s => s); [rewrite map_id|]; reflexivity).
    destruct (set_eqb (map fst d) (map (append "") (names (Comp p0 l r)))); simpl; [|reflexivity].
    rewrite strip_pref. change (strip O "" d) with (map (fun kv : string * val => (fst kv, snd kv)) d).
    replace (map (fun kv : string * val => (fst kv, snd kv)) d) with d; [reflexivity|].
    rewrite <- (map_id d) at 1. apply map_ext. intros [a b]; reflexivity.
Qed.
(* re-prefixing forgets every earlier prefix: a chain of with_prefix calls is the last one *)
Lemma with_prefix_idem p q m : with_prefix q (with_prefix p m) = with_prefix q m.
Proof using. destruct m; reflexivity. Qed.
Lemma with_prefixes_last ps p m : with_prefixes (ps ++ [p]) m = with_prefix p m.
Proof using.
  unfold with_prefixes. rewrite fold_left_app. simpl.
  revert m. induction ps as [|a ps IH]; intros m; simpl; [reflexivity|].
  rewrite IH. apply with_prefix_idem.
Qed.
Theorem prefix_irrelevant_chain ps p qs q m x d :
  call O leaf (with_prefixes (ps ++ [p]) m) x (pref p d) = call O leaf (with_prefixes (qs ++ [q]) m) x (pref q d).
Proof using leaf_prefix_indep. rewrite !with_prefixes_last, !call_prefix. reflexivity. Qed.
Theorem prefix_irrelevant p q m x d :
  call O leaf (with_prefix p m) x (pref p d) = call O leaf (with_prefix q m) x (pref q d).
Proof using leaf_prefix_indep. rewrite !call_prefix. reflexivity. Qed.

(* bad_params_refused *)
Lemma mem_In s l : mem s l = true <-> In s l.
Proof.
  unfold mem. rewrite existsb_exists. split.
  - intros (t & Ht & E). apply String.eqb_eq in E. subst; assumption.
  - intros H. exists s. split; [assumption | apply String.eqb_refl].
Qed.
Lemma subset_false_witness a b s : In s a -> ~ In s b -> subset a b = false.
Proof.
  intros Ha Hb. destruct (subset a b) eqn:E; [|reflexivity].
  unfold subset in E. rewrite forallb_forall in E. specialize (E s Ha).
  apply mem_In in E. contradiction.
Qed.
Theorem missing_param_refused m x params n :
  In n (pnames m) -> ~ In n (map fst params) -> call O leaf m x params = VErr O "ValueError".
Proof using.
  intros H1 H2. destruct m; simpl; unfold set_eqb;
    rewrite (subset_false_witness _ _ n H1 H2), andb_false_r; reflexivity.
Qed.
Theorem extra_param_refused m x params n :
  In n (map fst params) -> ~ In n (pnames m) -> call O leaf m x params = VErr O "ValueError".
Proof using.
  intros H1 H2. destruct m; simpl; unfold set_eqb;
    rewrite (subset_false_witness _ _ n H1 H2); reflexivity.
Qed.

(* composite_is_sum: with the right parameter set the composite evaluates both parts on their
   own parameters (looked up by their prefixed names after stripping the composite's prefix)
   and adds the results *)
Theorem composite_is_sum p l r x params :
  set_eqb (map fst params) (pnames (Comp p l r)) = true ->
  call O leaf (Comp p l r) x params =
    vbind O (call O leaf l x (restrict O (strip O p params) (pnames l))) (fun lv =>
    vbind O (call O leaf r x (restrict O (strip O p params) (pnames r))) (fun rv =>
    Val.vadd O lv rv)).
Proof using. intros H. simpl. rewrite H. reflexivity. Qed.
End P.

(* ... and over R the sum of two quantities in the same unit is the quantity of the sum *)
Lemma deqb_refl d : deqb d d = true.
Proof. induction d as [|z d IH]; simpl; [reflexivity|]. rewrite Z.eqb_refl, IH. reflexivity. Qed.
Lemma vadd_qty h mn a b pa pb s d :
  is_qty h mn a pa s d DF64 -> is_qty h mn b pb s d DF64 ->
  is_qty h mn (vbind (ROps h mn) a (fun lv => vbind (ROps h mn) b (fun rv => Val.vadd (ROps h mn) lv rv)))
         (pa + pb)%R s d DF64.
Proof.
  intros (x & u & -> & Hd & Hs & Hx) (y & u' & -> & Hd' & Hs' & Hy).
  simpl. unfold Val.vadd, vbin, ueqb. simpl. rewrite Hd, Hd', deqb_refl. simpl.
  exists (x + y)%R, u. repeat split; try assumption.
  rewrite <- Hx, <- Hy. simpl. ring.
Qed.
