(* C16/Spec.v — the analytic definitions the property names, over R, written
   independently of the code: Gaussian, Lorentzian, pseudo-Voigt (Gaussian part
   rescaled to the same FWHM), polynomial as the literal sum a_i x^i, their
   FWHM, and the elementary facts (symmetry, peak value, half maximum).
   Integrals are in Proofs.v. *)
From Coq Require Import Reals Lra List.
Import ListNotations.
Open Scope R_scope.

Definition gauss (A mu s x : R) : R :=
  A / (s * sqrt (2 * PI)) * exp (- ((x - mu) * (x - mu)) / (2 * (s * s))).
Definition lorentz (A mu s x : R) : R :=
  A / PI * (s / ((x - mu) * (x - mu) + s * s)).
(* the Gaussian width that has the same FWHM as a Lorentzian of width s *)
Definition sigma_g (s : R) : R := s / sqrt (2 * ln 2).
Definition pvoigt (A mu s f x : R) : R :=
  f * lorentz A mu s x + (1 - f) * gauss A mu (sigma_g s) x.

Definition fwhm_gauss (s : R) : R := 2 * sqrt (2 * ln 2) * s.
Definition fwhm_lorentz (s : R) : R := 2 * s.

(* sum_{i} a_i x^(i0+i) *)
Fixpoint psum (a : list R) (i : nat) (x : R) : R :=
  match a with
  | [] => 0
  | c :: r => c * x ^ i + psum r (S i) x
  end.
Definition poly_sum (a : list R) (x : R) : R := psum a 0 x.

(* ---- elementary facts *)
Lemma ln2_pos : 0 < ln 2.
Proof. rewrite <- ln_1. apply ln_increasing; lra. Qed.
Lemma k_pos : 0 < sqrt (2 * ln 2).
Proof. apply sqrt_lt_R0. pose proof ln2_pos. lra. Qed.
Lemma k_sq : sqrt (2 * ln 2) * sqrt (2 * ln 2) = 2 * ln 2.
Proof. apply sqrt_sqrt. pose proof ln2_pos. lra. Qed.
Lemma s2pi_pos : 0 < sqrt (2 * PI).
Proof. apply sqrt_lt_R0. pose proof PI_RGT_0. lra. Qed.
Lemma exp_neg_ln2 : exp (- ln 2) = / 2.
Proof. rewrite exp_Ropp, exp_ln by lra. reflexivity. Qed.

Lemma gauss_sym A mu s d : gauss A mu s (mu + d) = gauss A mu s (mu - d).
Proof. unfold gauss. do 2 f_equal. f_equal. f_equal. ring. Qed.
Lemma lorentz_sym A mu s d : lorentz A mu s (mu + d) = lorentz A mu s (mu - d).
Proof. unfold lorentz. do 2 f_equal. f_equal. ring. Qed.
Lemma pvoigt_sym A mu s f d : pvoigt A mu s f (mu + d) = pvoigt A mu s f (mu - d).
Proof. unfold pvoigt. rewrite gauss_sym, lorentz_sym. reflexivity. Qed.

Lemma gauss_peak A mu s : gauss A mu s mu = A / (s * sqrt (2 * PI)).
Proof.
  unfold gauss. replace (- ((mu - mu) * (mu - mu)) / (2 * (s * s))) with 0.
  - rewrite exp_0. ring.
  - unfold Rdiv. ring.
Qed.
Lemma lorentz_peak A mu s : s <> 0 -> lorentz A mu s mu = A / (PI * s).
Proof.
  intros Hs. pose proof PI_RGT_0. unfold lorentz.
  replace ((mu - mu) * (mu - mu) + s * s) with (s * s) by ring. field. split; lra.
Qed.

Lemma gauss_at A mu s d : s > 0 ->
  d * d = 2 * ln 2 * (s * s) -> gauss A mu s (mu + d) = gauss A mu s mu / 2.
Proof.
  intros Hs Hd. rewrite gauss_peak. unfold gauss.
  replace (- ((mu + d - mu) * (mu + d - mu)) / (2 * (s * s))) with (- ln 2).
  - rewrite exp_neg_ln2. pose proof s2pi_pos. field. lra.
  - replace ((mu + d - mu) * (mu + d - mu)) with (d * d) by ring. rewrite Hd. field. lra.
Qed.
Lemma gauss_half_max A mu s : s > 0 ->
  gauss A mu s (mu + fwhm_gauss s / 2) = gauss A mu s mu / 2
  /\ gauss A mu s (mu - fwhm_gauss s / 2) = gauss A mu s mu / 2.
Proof.
  intros Hs.
  assert (E : gauss A mu s (mu + fwhm_gauss s / 2) = gauss A mu s mu / 2).
  { apply gauss_at; [assumption|]. unfold fwhm_gauss.
    replace (2 * sqrt (2 * ln 2) * s / 2 * (2 * sqrt (2 * ln 2) * s / 2))
      with (sqrt (2 * ln 2) * sqrt (2 * ln 2) * (s * s)) by field.
    rewrite k_sq. ring. }
  split; [exact E | rewrite <- gauss_sym; exact E].
Qed.
Lemma lorentz_half_max A mu s : s > 0 ->
  lorentz A mu s (mu + fwhm_lorentz s / 2) = lorentz A mu s mu / 2
  /\ lorentz A mu s (mu - fwhm_lorentz s / 2) = lorentz A mu s mu / 2.
Proof.
  intros Hs. pose proof PI_RGT_0.
  split; unfold lorentz, fwhm_lorentz; field; split; try lra; nra.
Qed.
Lemma sigma_g_pos s : s > 0 -> sigma_g s > 0.
Proof. intros. unfold sigma_g. apply Rdiv_lt_0_compat; [lra | apply k_pos]. Qed.
Lemma fwhm_sigma_g s : fwhm_gauss (sigma_g s) = fwhm_lorentz s.
Proof. unfold fwhm_gauss, sigma_g, fwhm_lorentz. pose proof k_pos. field. lra. Qed.
(* both components are at half height at mu +- s, hence so is every mixture *)
Lemma pvoigt_half_max A mu s f : s > 0 ->
  pvoigt A mu s f (mu + fwhm_lorentz s / 2) = pvoigt A mu s f mu / 2
  /\ pvoigt A mu s f (mu - fwhm_lorentz s / 2) = pvoigt A mu s f mu / 2.
Proof.
  intros Hs. unfold pvoigt.
  destruct (lorentz_half_max A mu s Hs) as [L1 L2].
  destruct (gauss_half_max A mu (sigma_g s) (sigma_g_pos s Hs)) as [G1 G2].
  rewrite fwhm_sigma_g in G1, G2.
  rewrite L1, L2, G1, G2. split; field.
Qed.

(* Horner's scheme on a coefficient list (lowest degree first) *)
Fixpoint horner (a : list R) (x : R) : R :=
  match a with
  | [] => 0
  | c :: r => c + x * horner r x
  end.
Lemma psum_shift a i x : psum a (S i) x = x * psum a i x.
Proof.
  revert i; induction a as [|c r IH]; intros i; simpl; [ring|].
  rewrite IH. ring.
Qed.
Lemma horner_is_sum a x : horner a x = poly_sum a x.
Proof.
  unfold poly_sum. induction a as [|c r IH]; simpl; [reflexivity|].
  rewrite psum_shift, IH. ring.
Qed.
