(* C16/CorrCore.v — the comparison of the correspondence run, parametric in the numerical
   leaves: [run16 leaf fwhm c] evaluates the object layer of Verif.C16.Model with the given
   `_call` / `fwhm` functions at exact rationals (QInst; exp = ExpCut.qexp3, sqrt and ln are
   1e-30 approximations); [cmp16] compares it INSIDE Coq with what the implementation
   returned.  coq-run/C16/Corr.v plugs in the functions REGENERATED from model.py on this run;
   RefCorr.v plugs in the reference translation RefLeaf.v.  Definitions only. *)
From Coq Require Import QArith Qabs ZArith String List Bool.
From Verif.Sem Require Import Field Val QInst Corr.
From Verif.C16 Require Import SemExt Model.
Import ListNotations.
Open Scope string_scope.

(* exp for the correspondence run: 0 below -1000 (true value < 1e-434: ExpCut.exp_cut; float64 exp is
   exactly 0 below -745.2), SemExt.qexp2 above.  Keeps far Gaussian tails (exponents down to
   -5e7) cheap; the absolute floor of cmp16 covers the difference. *)
Definition qexp3 (x : Q) : Q :=
  if Qle_bool x (- (1000 # 1)) then 0%Q else qexp2 x.
(* the instance the correspondence run passes explicitly (QX stays the default instance) *)
Definition QXc (h mn : Q) : Xops (QOps h mn) := @Build_Xops (QOps h mn) qln qexp3.

Notation O16 := (QOps 0 0).
(* what: "call" (model(x, **params)), "fwhm" (model.fwhm(params)), "construct",
   "names" / "guess" / "bounds": the keys of model.param_names / model.guess(data) /
   model.param_bounds are handed over as the keys of pparams.
   A case is ONE element: px is the element of x (whatever the layout of the array it came
   from: 0-d, 1-d ascending / descending / unordered, 2-d, transposed), pout the element of
   the result at the same position. *)
Record pcase := mkp { pwhat : string; pmodel : model; pparams : list (string * inp); px : inp;
                      pout : outcome; ptol : Q; pfloor : Q }.

Section Run.
Variable leaf : kind -> val O16 -> val O16 -> val O16 -> val O16.
Variable fwhm : kind -> val O16 -> val O16 -> val O16.
Definition run16 (c : pcase) : val O16 :=
  let ps := map (fun kv => (fst kv, qv 0 0 (snd kv))) (pparams c) in
  if String.eqb (pwhat c) "call" then
    (if constructible (pmodel c) then call O16 leaf (pmodel c) (qv 0 0 (px c)) ps
     else VErr O16 "ValueError")
  else if String.eqb (pwhat c) "fwhm" then
    match pmodel c with
    | Leaf k p => fwhm k (self_of O16 k p) (VDict O16 ps)
    | Comp _ _ _ => VErr O16 "NotImplementedError"
    end
  else if String.eqb (pwhat c) "names" || String.eqb (pwhat c) "guess" then
    (if negb (constructible (pmodel c)) then VErr O16 "ValueError"
     else if set_eqb (map fst (pparams c)) (pnames (pmodel c)) then VNone O16 else VErr O16 "keys-differ")
  else if String.eqb (pwhat c) "bounds" then
    (if negb (constructible (pmodel c)) then VErr O16 "ValueError"
     else if set_eqb (map fst (pparams c)) (pbnames (pmodel c)) then VNone O16 else VErr O16 "keys-differ")
  else if String.eqb (pwhat c) "construct" then
    (if constructible (pmodel c) then VNone O16 else VErr O16 "ValueError")
  else VErr O16 "unknown-case".
End Run.

(* "" = agreement.  |impl - model| <= tol |model| + floor  (floor in the unit of the result) *)
Definition cmp16 (m : val O16) (o : outcome) (tol floor : Q) : string :=
  match m, o with
  | VVar _ (ENum _ x _) u d, OutVal v sc dm dt =>
      if negb (deqb (ud _ u) dm) then "unit-dimension"
      else if negb (rel_close (us _ u) sc (1 # 1000000000000)) then "unit-multiplier"
      else if negb (dtype_eqb d dt) then "dtype:model=" ++ dtype_name d ++ ",impl=" ++ dtype_name dt
      else if Qle_bool (Qabs (v * sc - x * us _ u)) (tol * Qabs (x * us _ u) + floor * sc) then "" else "value"
  | VErr _ e, OutErr cls => if String.eqb e cls then "" else "error-class:model=" ++ e ++ ",impl=" ++ cls
  | VNone _, OutErr cls => if String.eqb cls "ok" then "" else "impl-raises-" ++ cls
  | VErr _ e, _ => "model-raises-" ++ e
  | _, OutErr cls => "impl-raises-" ++ cls
  | _, OutNaN _ _ _ => "impl-NaN"
  | _, OutInf _ _ _ => "impl-infinite"
  | _, _ => "shape"
  end.
