(* C16/ExpCut.v — the exponential used by the correspondence run for far Gaussian tails.

   A Gaussian evaluated |x - loc| = 1e3 scale away from its location has the exponent -5e5;
   the exact dyadic value of exp(-5e5) has a 720 000-bit denominator and every later sum of a
   composite would take a gcd of numbers of that size.  [CorrCore.qexp3] returns 0 below -1000 instead:
   by [exp_cut] the true value is there below 1e-434, so that (the prefactor amplitude /
   (sqrt(2 pi) scale) being below 1e12 for the amplitudes <= 1e3 and scales >= 1e-7 of the
   generators) the model value moves by less than 1e-420 in the unit of the result — far below
   the absolute floor 1e-300 of the comparison (Corr.cmp16).  float64 exp itself is exactly 0
   below -745.2.  Above -1000 [qexp3] is SemExt.qexp2 (relative accuracy about 1e-40). *)
From Coq Require Import Reals Lra.
From Interval Require Import Tactic.

Open Scope R_scope.
Lemma exp_m1000 : exp (-1000) <= / 10 ^ 434.
Proof. interval with (i_prec 60). Qed.
(* what is dropped by the cut *)
Lemma exp_cut x : x <= -1000 -> 0 < exp x <= / 10 ^ 434.
Proof.
  intros H. split; [apply exp_pos|].
  eapply Rle_trans; [| exact exp_m1000].
  destruct H as [H|H]; [left; apply exp_increasing; exact H | right; rewrite H; reflexivity].
Qed.
(* ... times any prefactor below 1e12 it stays below 1e-420 *)
Lemma gauss_tail_cut c x : Rabs c <= 10 ^ 12 -> x <= -1000 -> Rabs (c * exp x - c * 0) <= / 10 ^ 420.
Proof.
  intros Hc Hx. destruct (exp_cut x Hx) as [H0 H1].
  rewrite Rmult_0_r, Rminus_0_r, Rabs_mult, (Rabs_pos_eq (exp x)) by lra.
  eapply Rle_trans; [apply Rmult_le_compat; [apply Rabs_pos | lra | exact Hc | exact H1]|].
  interval with (i_prec 60).
Qed.
