(* C16/Proofs.v — integrals of the analytic definitions of Spec.v
   (Coquelicot Riemann integral; one numeric constant certified by coq-interval). *)
From Coq Require Import Reals Lra List.
From Coquelicot Require Import Coquelicot.
From Interval Require Import Tactic.
From Verif.C16 Require Import Spec.
Open Scope R_scope.

(* ------------------------------------------------------------ Lorentzian *)
Lemma lorentz_den_pos mu s x : s > 0 -> 0 < (x - mu) * (x - mu) + s * s.
Proof.
  intros Hs. pose proof (Rle_0_sqr (x - mu)) as H1. unfold Rsqr in H1.
  assert (0 < s * s) by (apply Rmult_lt_0_compat; lra). lra.
Qed.

Lemma lorentz_continuous A mu s x : s > 0 -> continuous (lorentz A mu s) x.
Proof.
  intros Hs. apply (ex_derive_continuous (lorentz A mu s)).
  unfold lorentz. auto_derive. pose proof (lorentz_den_pos mu s x Hs). pose proof PI_RGT_0.
  repeat split; lra.
Qed.

Lemma lorentz_primitive A mu s x : s > 0 ->
  is_derive (fun t => A / PI * atan ((t - mu) / s)) x (lorentz A mu s x).
Proof.
  intros Hs. pose proof PI_RGT_0. pose proof (lorentz_den_pos mu s x Hs).
  unfold lorentz. auto_derive.
  - exact I.
  - field. repeat split; lra.
Qed.

Lemma lorentz_RInt A mu s a b : s > 0 ->
  is_RInt (lorentz A mu s) a b (A / PI * (atan ((b - mu) / s) - atan ((a - mu) / s))).
Proof.
  intros Hs.
  replace (A / PI * (atan ((b - mu) / s) - atan ((a - mu) / s)))
    with (minus (A / PI * atan ((b - mu) / s)) (A / PI * atan ((a - mu) / s)))
    by (unfold minus, plus, opp; simpl; ring).
  apply (is_RInt_derive (fun t => A / PI * atan ((t - mu) / s)) (lorentz A mu s)).
  - intros x _. apply lorentz_primitive; assumption.
  - intros x _. apply lorentz_continuous; assumption.
Qed.

Lemma atan_le_id y : 0 <= y -> atan y <= y.
Proof.
  intros Hy.
  destruct (MVT_gen atan 0 y (fun t => / (1 + t * t))) as (c & Hc & E).
  - intros x _. auto_derive; [exact I|]. field. nra.
  - intros x _. apply continuity_pt_filterlim. apply continuous_atan.
  - rewrite atan_0, Rminus_0_r, Rminus_0_r in E. rewrite E.
    assert (0 < / (1 + c * c) <= 1).
    { split; [apply Rinv_0_lt_compat; nra|]. rewrite <- Rinv_1. apply Rinv_le_contravar; nra. }
    nra.
Qed.

(* PI/2 - 1/T <= atan t <= PI/2  for  t >= T > 0 *)
Lemma atan_far T t : 0 < T -> T <= t -> PI / 2 - / T <= atan t < PI / 2.
Proof.
  intros HT Ht. split; [| apply atan_bound].
  assert (atan T <= atan t).
  { destruct (Req_dec T t) as [->|]; [lra|]. apply Rlt_le, atan_increasing; lra. }
  pose proof (atan_inv T HT) as E.
  assert (atan (/ T) <= / T) by (apply atan_le_id, Rlt_le, Rinv_0_lt_compat; lra).
  lra.
Qed.

Lemma lorentz_integral_tail A mu s a b T : s > 0 -> T > 0 ->
  a <= mu - s * T -> mu + s * T <= b ->
  Rabs (A / PI * (atan ((b - mu) / s) - atan ((a - mu) / s)) - A) <= Rabs A * (2 / (PI * T)).
Proof.
  intros Hs HT Ha Hb. pose proof PI_RGT_0 as Hpi.
  assert (Hb' : T <= (b - mu) / s).
  { apply Rmult_le_reg_r with s; [lra|]. unfold Rdiv. rewrite Rmult_assoc, Rinv_l by lra. lra. }
  assert (Ha' : T <= - ((a - mu) / s)).
  { apply Rmult_le_reg_r with s; [lra|]. unfold Rdiv.
    replace (- ((a - mu) * / s) * s) with (- (a - mu) * (/ s * s)) by ring.
    rewrite Rinv_l by lra. lra. }
  pose proof (atan_far T _ HT Hb') as [B1 B2].
  pose proof (atan_far T _ HT Ha') as [C1 C2].
  rewrite atan_opp in C1, C2.
  set (D := atan ((b - mu) / s) - atan ((a - mu) / s)) in *.
  assert (HD : PI - 2 / T <= D < PI).
  { unfold D. split; [| lra]. unfold Rdiv. lra. }
  replace (A / PI * D - A) with (A * ((D - PI) / PI)) by (field; lra).
  rewrite Rabs_mult. apply Rmult_le_compat_l; [apply Rabs_pos|].
  rewrite Rabs_left1.
  - replace (2 / (PI * T)) with ((2 / T) / PI) by (field; lra).
    unfold Rdiv at 1. rewrite Ropp_mult_distr_l. apply Rmult_le_compat_r.
    + apply Rlt_le, Rinv_0_lt_compat; lra.
    + lra.
  - assert (0 < / PI) by (apply Rinv_0_lt_compat; lra). unfold Rdiv. nra.
Qed.

(* epsilon form of "the integral over the whole line is A" *)
Lemma lorentz_integral_limit A mu s eps : s > 0 -> eps > 0 ->
  exists T0, T0 > 0 /\ forall a b, a <= mu - s * T0 -> mu + s * T0 <= b ->
    Rabs (A / PI * (atan ((b - mu) / s) - atan ((a - mu) / s)) - A) < eps.
Proof.
  intros Hs He. pose proof PI_RGT_0 as Hpi. pose proof (Rabs_pos A) as HA.
  set (T0 := 2 * Rabs A / (PI * eps) + 1).
  assert (HT : T0 > 0).
  { unfold T0. assert (0 <= 2 * Rabs A / (PI * eps)); [| lra].
    apply Rmult_le_pos; [lra|]. apply Rlt_le, Rinv_0_lt_compat. apply Rmult_lt_0_compat; lra. }
  exists T0. split; [assumption|]. intros a b Ha Hb.
  eapply Rle_lt_trans; [apply (lorentz_integral_tail A mu s a b T0); assumption|].
  replace (Rabs A * (2 / (PI * T0))) with ((2 * Rabs A / PI) / T0) by (field; lra).
  apply Rmult_lt_reg_r with T0; [assumption|].
  unfold Rdiv at 1. rewrite Rmult_assoc, Rinv_l, Rmult_1_r by lra.
  unfold T0. replace (eps * (2 * Rabs A / (PI * eps) + 1)) with (2 * Rabs A / PI + eps) by (field; lra).
  lra.
Qed.

(* ------------------------------------------------------------ Gaussian *)
Definition phi (u : R) : R := exp (- (u * u) / 2).
Definition I12 : R := RInt phi (-12) 12.
Lemma I12_close : Rabs (I12 - sqrt (2 * PI)) <= 1 / 1000000000.
Proof. unfold I12, phi. integral with (i_prec 60, i_fuel 2000). Qed.
Lemma phi_continuous u : continuous phi u.
Proof. apply (ex_derive_continuous phi). unfold phi. auto_derive. exact I. Qed.
Lemma phi_ex_RInt a b : ex_RInt phi a b.
Proof. apply (ex_RInt_continuous phi). intros; apply phi_continuous. Qed.

Lemma phi_even u : phi (- u) = phi u.
Proof. unfold phi. f_equal. field. Qed.
Lemma phi_pos u : 0 < phi u.
Proof. apply exp_pos. Qed.

Lemma e6_RInt c : is_RInt (fun u => exp (- 6 * u)) 12 c ((exp (- 72) - exp (- 6 * c)) / 6).
Proof.
  replace ((exp (- 72) - exp (- 6 * c)) / 6)
    with (minus (- exp (- 6 * c) / 6) (- exp (- 6 * 12) / 6)).
  2:{ unfold minus, plus, opp; simpl. replace (- 6 * 12) with (- 72) by ring. field. }
  apply (is_RInt_derive (fun u => - exp (- 6 * u) / 6) (fun u => exp (- 6 * u))).
  - intros x _. auto_derive; [exact I | field].
  - intros x _. apply (ex_derive_continuous (fun u => exp (- 6 * u))). auto_derive. exact I.
Qed.

Lemma phi_tail c : 12 <= c -> 0 <= RInt phi 12 c <= exp (- 72) / 6.
Proof.
  intros Hc. split.
  - apply RInt_ge_0; [assumption | apply phi_ex_RInt |]. intros; apply Rlt_le, phi_pos.
  - apply Rle_trans with (RInt (fun u => exp (- 6 * u)) 12 c).
    + apply RInt_le; [assumption | apply phi_ex_RInt | eexists; apply e6_RInt |].
      intros x Hx. unfold phi. destruct (Rle_dec (- (x * x) / 2) (- 6 * x)) as [L|N].
      * destruct L as [L| ->]; [apply Rlt_le, exp_increasing; assumption | apply Rle_refl].
      * exfalso. apply N. nra.
    + rewrite (is_RInt_unique _ _ _ _ (e6_RInt c)). pose proof (exp_pos (- 6 * c)). lra.
Qed.

Lemma phi_tail_neg c : RInt phi (- c) (- 12) = RInt phi 12 c.
Proof.
  symmetry. apply is_RInt_unique.
  assert (H : is_RInt phi (- c) (- 12) (RInt phi (- c) (- 12)))
    by apply (RInt_correct (V := R_CompleteNormedModule)), phi_ex_RInt.
  apply (is_RInt_comp_opp (V := R_NormedModule)) in H.
  apply (is_RInt_swap (V := R_NormedModule)) in H.
  apply (is_RInt_opp (V := R_NormedModule)) in H.
  rewrite opp_opp in H.
  eapply is_RInt_ext; [| exact H].
  intros x _. simpl. rewrite opp_opp. apply phi_even.
Qed.

Lemma e72 : exp (- 72) / 6 <= 1 / 20000000000.
Proof. interval with (i_prec 50). Qed.

(* the integral over any wider symmetric range stays within 2e-9 of sqrt(2 pi) *)
Lemma Iwide_close c : 12 <= c -> Rabs (RInt phi (- c) c - sqrt (2 * PI)) <= 2 / 1000000000.
Proof.
  intros Hc.
  rewrite <- (RInt_Chasles phi (- c) (- 12) c) by apply phi_ex_RInt.
  rewrite <- (RInt_Chasles phi (- 12) 12 c) by apply phi_ex_RInt.
  rewrite phi_tail_neg. fold I12.
  pose proof (phi_tail c Hc) as [T0 T1]. pose proof e72. pose proof I12_close as HI.
  unfold plus; simpl.
  apply Rabs_le. apply Rabs_le_between in HI. lra.
Qed.

Lemma gauss_as_phi A mu s x : s > 0 ->
  gauss A mu s x = A / sqrt (2 * PI) * (/ s * phi (/ s * x + - mu / s)).
Proof.
  intros Hs. pose proof s2pi_pos. unfold gauss, phi.
  replace (- ((/ s * x + - mu / s) * (/ s * x + - mu / s)) / 2)
    with (- ((x - mu) * (x - mu)) / (2 * (s * s))) by (field; lra).
  field; lra.
Qed.

(* change of variables u = (x - mu)/s *)
Lemma gauss_RInt A mu s c : s > 0 ->
  is_RInt (gauss A mu s) (mu - c * s) (mu + c * s) (A / sqrt (2 * PI) * RInt phi (- c) c).
Proof.
  intros Hs.
  apply is_RInt_ext with (f := fun x => scal (A / sqrt (2 * PI)) (scal (/ s) (phi (/ s * x + - mu / s)))).
  { intros x _. rewrite gauss_as_phi by assumption. reflexivity. }
  apply (is_RInt_scal (V := R_NormedModule)).
  replace (RInt phi (- c) c) with (RInt phi (/ s * (mu - c * s) + - mu / s) (/ s * (mu + c * s) + - mu / s)).
  2:{ f_equal; field; lra. }
  apply (is_RInt_comp_lin phi (/ s) (- mu / s)).
  apply (RInt_correct (V := R_CompleteNormedModule)), phi_ex_RInt.
Qed.

Lemma scaled_close A K e : 0 <= e ->
  Rabs (K - sqrt (2 * PI)) <= e -> Rabs (A / sqrt (2 * PI) * K - A) <= e * Rabs A.
Proof.
  intros He HK. pose proof s2pi_pos as Hp.
  assert (H1 : 1 <= sqrt (2 * PI)).
  { rewrite <- sqrt_1. apply sqrt_le_1_alt. pose proof PI2_1. lra. }
  replace (A / sqrt (2 * PI) * K - A) with (A * ((K - sqrt (2 * PI)) / sqrt (2 * PI))) by (field; lra).
  rewrite Rabs_mult, Rmult_comm. apply Rmult_le_compat_r; [apply Rabs_pos|].
  unfold Rdiv at 1. rewrite Rabs_mult, (Rabs_right (/ sqrt (2 * PI))).
  2:{ apply Rle_ge, Rlt_le, Rinv_0_lt_compat; lra. }
  assert (0 < / sqrt (2 * PI) <= 1).
  { split; [apply Rinv_0_lt_compat; lra|]. rewrite <- Rinv_1. apply Rinv_le_contravar; lra. }
  pose proof (Rabs_pos (K - sqrt (2 * PI))). nra.
Qed.

(* on +-12 sigma the Gaussian integrates to A within 1e-9 |A|, for all A, mu, sigma > 0 *)
Lemma gauss_integral_12 A mu s : s > 0 ->
  exists J, is_RInt (gauss A mu s) (mu - 12 * s) (mu + 12 * s) J
            /\ Rabs (J - A) <= 1 / 1000000000 * Rabs A.
Proof.
  intros Hs. exists (A / sqrt (2 * PI) * RInt phi (- 12) 12). split; [apply gauss_RInt; assumption|].
  apply scaled_close; [lra | apply I12_close].
Qed.
(* ... and on every wider symmetric range within 2e-9 |A| *)
Lemma gauss_integral_wide A mu s c : s > 0 -> 12 <= c ->
  exists J, is_RInt (gauss A mu s) (mu - c * s) (mu + c * s) J
            /\ Rabs (J - A) <= 2 / 1000000000 * Rabs A.
Proof.
  intros Hs Hc. exists (A / sqrt (2 * PI) * RInt phi (- c) c). split; [apply gauss_RInt; assumption|].
  apply scaled_close; [lra | apply Iwide_close; assumption].
Qed.

(* pointwise tail: beyond 12 sigma the Gaussian is below exp(-72) of its peak *)
Lemma gauss_tail_pointwise A mu s x : s > 0 -> 12 * s <= Rabs (x - mu) ->
  Rabs (gauss A mu s x) <= Rabs (gauss A mu s mu) * exp (- 72).
Proof.
  intros Hs Hx. rewrite gauss_peak. unfold gauss. rewrite Rabs_mult.
  apply Rmult_le_compat_l; [apply Rabs_pos|].
  rewrite Rabs_right by (apply Rle_ge, Rlt_le, exp_pos).
  assert (H : - ((x - mu) * (x - mu)) / (2 * (s * s)) <= - 72).
  { assert (144 * (s * s) <= (x - mu) * (x - mu)).
    { replace ((x - mu) * (x - mu)) with (Rabs (x - mu) * Rabs (x - mu)).
      - pose proof (Rabs_pos (x - mu)). nra.
      - rewrite <- Rabs_mult. apply Rabs_right. apply Rle_ge. pose proof (Rle_0_sqr (x - mu)) as Q; unfold Rsqr in Q; exact Q. }
    assert (0 < s * s) by (apply Rmult_lt_0_compat; lra).
    apply Rmult_le_reg_r with (2 * (s * s)); [lra|].
    unfold Rdiv. rewrite Rmult_assoc, Rinv_l by lra. lra. }
  destruct H as [H | ->]; [apply Rlt_le, exp_increasing; assumption | apply Rle_refl].
Qed.

(* ------------------------------------------------------------ pseudo-Voigt: linearity *)
Lemma pvoigt_RInt A mu s f a b IL IG :
  is_RInt (lorentz A mu s) a b IL -> is_RInt (gauss A mu (sigma_g s)) a b IG ->
  is_RInt (pvoigt A mu s f) a b (f * IL + (1 - f) * IG).
Proof.
  intros HL HG. unfold pvoigt.
  apply (is_RInt_plus (V := R_NormedModule) (fun x => f * lorentz A mu s x) (fun x => (1 - f) * gauss A mu (sigma_g s) x)).
  - apply (is_RInt_scal (V := R_NormedModule) _ _ _ f _ HL).
  - apply (is_RInt_scal (V := R_NormedModule) _ _ _ (1 - f) _ HG).
Qed.

Lemma k_ge_1 : 1 <= sqrt (2 * ln 2).
Proof. interval with (i_prec 50). Qed.
Lemma k_le : sqrt (2 * ln 2) <= 118 / 100.
Proof. interval with (i_prec 50). Qed.

(* on [mu - s T, mu + s T], T >= 12, the pseudo-Voigt integrates to A up to the Lorentzian
   tail 2/(pi T) and 2e-9, for every mixing fraction in [0,1] *)
Lemma pvoigt_integral A mu s f T : s > 0 -> 0 <= f <= 1 -> 12 <= T ->
  exists J, is_RInt (pvoigt A mu s f) (mu - T * s) (mu + T * s) J
    /\ Rabs (J - A) <= Rabs A * (f * (2 / (PI * T)) + (1 - f) * (2 / 1000000000)).
Proof.
  intros Hs Hf HT. pose proof k_pos as Hk. pose proof k_ge_1 as Hk1.
  pose proof (sigma_g_pos s Hs) as Hg.
  destruct (gauss_integral_wide A mu (sigma_g s) (T * sqrt (2 * ln 2)) Hg) as (JG & HG & BG).
  { nra. }
  replace (T * sqrt (2 * ln 2) * sigma_g s) with (T * s) in HG by (unfold sigma_g; field; lra).
  pose proof (lorentz_RInt A mu s (mu - T * s) (mu + T * s) Hs) as HL.
  pose proof (lorentz_integral_tail A mu s (mu - T * s) (mu + T * s) T Hs ltac:(lra) ltac:(lra) ltac:(lra)) as BL.
  eexists; split; [apply pvoigt_RInt; [exact HL | exact HG]|].
  set (IL := A / PI * _) in *.
  replace (f * IL + (1 - f) * JG - A) with (f * (IL - A) + (1 - f) * (JG - A)) by ring.
  eapply Rle_trans; [apply Rabs_triang|]. rewrite !Rabs_mult.
  rewrite (Rabs_right f), (Rabs_right (1 - f)) by lra.
  assert (f * Rabs (IL - A) <= f * (Rabs A * (2 / (PI * T)))) by (apply Rmult_le_compat_l; lra).
  assert ((1 - f) * Rabs (JG - A) <= (1 - f) * (2 / 1000000000 * Rabs A)) by (apply Rmult_le_compat_l; lra).
  lra.
Qed.

(* the clamp max(scale, 1e-15) inside the Gaussian part of the pseudo-Voigt is inactive
   for scale >= 2e-15 *)
Lemma clamp_pv s : s >= 2 / 1000000000000000 -> 1 / 1000000000000000 <= s / sqrt (2 * ln 2).
Proof.
  intros Hs. pose proof k_pos as Hk. pose proof k_le as Hk2.
  apply Rmult_le_reg_r with (sqrt (2 * ln 2)); [assumption|].
  unfold Rdiv at 2. rewrite Rmult_assoc, Rinv_l, Rmult_1_r by lra. nra.
Qed.
