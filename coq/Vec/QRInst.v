(* Vec/QRInst.v — a second executable instance of the arithmetic record: exact rationals whose
   + - * / results are rounded to ~220 significant bits (qrel2 below).  The vector kernels
   (normalise, subtract, norm, atan2) make exact rationals grow to ~10^4 bits, where Z.sqrt under
   vm_compute costs about a second per case; with 220-bit rounding every operation is cheap and the
   model value is still accurate to ~1e-60 relative per step — far below the 1e-15 tolerances of the
   correspondence runs (C03, C08).  Used for execution only, never in a proof.  Definitions only. *)
From Coq Require Import QArith ZArith Qabs List String Bool.
From Verif.Sem Require Import Field Val QInst Corr.
Import ListNotations.
Open Scope string_scope.

(* QInst.qrel with shifts instead of Z.pow / Qred: keep ~220 significant bits; the result is
   n' / 2^s (or an integer), so no gcd is needed and sizes stay bounded across operations *)
Definition qrel2 (q : Q) : Q :=
  let n := Qnum q in
  if (n =? 0)%Z then 0
  else let s := (220 - (Z.log2 (Z.abs n) - Z.log2 (Zpos (Qden q))))%Z in
       if (0 <=? s)%Z then Qmake (Z.shiftl n s / Zpos (Qden q)) (Pos.shiftl 1 (Z.to_N s))
       else Qmake (Z.shiftl (n / Z.shiftl (Zpos (Qden q)) (- s)) (- s)) 1.

(* dyadic fast path (almost every intermediate is n / 2^k): rounding is a shift of the numerator *)
Fixpoint pos_pow2 (p : positive) : bool :=
  match p with xH => true | xO p' => pos_pow2 p' | xI _ => false end.
Definition qrel3 (q : Q) : Q :=
  let n := Qnum q in
  if pos_pow2 (Qden q) then
    let L := Z.log2 (Z.abs n) in
    if (L <=? 220)%Z then q
    else let t := (L - 220)%Z in
         let k := Z.log2 (Zpos (Qden q)) in
         let n' := Z.shiftr n t in
         if (t <=? k)%Z then Qmake n' (Pos.shiftl 1 (Z.to_N (k - t))) else Qmake (Z.shiftl n' (t - k)) 1
  else qrel2 q.

Definition QROps (h mn : Q) : Fops :=
  mkFops Q (fun a b => qrel3 (a + b)) (fun a b => qrel3 (a - b)) (fun a b => qrel3 (a * b)) (fun a b => qrel3 (a / b))
         Qopp (fun z => z # 1) (fun a => qsqrt (qrel3 a)) qsin qcos qatan2 qasin qexp Qabs qpi
         qleb qltb qeqb qclose h mn qrint.

Section R.
Variables h mn : Q.
Notation O := (QROps h mn).
Definition rv (i : inp) : val O := mkv O i qid.
Definition rvec (x y z sc : Q) (dm : dims) : val O := VVar O (EVec O x y z) (mkU O sc dm) DVec3.
Definition rmat (a b c d e f g i j sc : Q) (dm : dims) : val O := VVar O (EMat O a b c d e f g i j) (mkU O sc dm) DMat3.

(* Sem.Corr.cmp_out for this instance; [ab] = compare a scalar value absolutely instead of relatively *)
Definition rcmp (ab : bool) (model : val O) (o : outcome) (tol : Q) : string :=
  match model, o with
  | VVar _ (ENum _ x0 _) u d, OutVal v sc dm dt =>
      let x : Q := x0 in
      if negb (deqb (ud _ u) dm) then "unit-dimension"
      else if negb (rel_close (us _ u) sc (1 # 1000000000000)) then "unit-multiplier"
      else if negb (dtype_eqb d dt) then "dtype:model=" ++ dtype_name d ++ ",impl=" ++ dtype_name dt
      else if (if ab then abs_close (v * sc) (x * us _ u) tol else rel_close (v * sc) (x * us _ u) tol) then "" else "value"
  | VVar _ (ENaN _) u d, OutNaN sc dm dt =>
      if negb (deqb (ud _ u) dm) then "unit-dimension"
      else if negb (rel_close (us _ u) sc (1 # 1000000000000)) then "unit-multiplier"
      else if negb (dtype_eqb d dt) then "dtype" else ""
  | VVar _ (EVec _ x0 y0 z0) u _, OutVec a b c sc dm =>
      let x : Q := x0 in let y : Q := y0 in let z : Q := z0 in
      if negb (deqb (ud _ u) dm) then "unit-dimension"
      else if negb (rel_close (us _ u) sc (1 # 1000000000000)) then "unit-multiplier"
      else
        let n := Qabs (x * us _ u) + Qabs (y * us _ u) + Qabs (z * us _ u) in
        if abs_close (a * sc) (x * us _ u) (tol * n) && abs_close (b * sc) (y * us _ u) (tol * n)
           && abs_close (c * sc) (z * us _ u) (tol * n) then "" else "value"
  | VErr _ e, OutErr cls => ""
  | VErr _ e, _ => "model-raises-" ++ e
  | _, OutErr cls => "impl-raises-" ++ cls
  | VVar _ (ENum _ _ _) _ _, OutNaN _ _ _ => "impl-NaN"
  | VVar _ (ENaN _) _ _, OutVal _ _ _ _ => "model-NaN"
  | _, OutInf _ _ _ => "impl-infinite"
  | _, _ => "shape"
  end.
End R.
