(* Vec/Vec3.v — Euclidean geometry of R^3 over Coq's reals (DESIGN.md 3.5).
   Vectors and 3x3 matrices as records of components; every algebraic lemma is
   closed by ring / field / nra on the components.  The angle between two
   vectors is acos of the normalised dot product; the two-argument arctangent
   RInst.atan2 is characterised (polar decomposition, range) and Kahan's
   formula 2*atan2(|u-v|, |u+v|) for unit vectors is proved equal to the angle.
   Shared by C03 (beamline geometry), C08 (Q vector / hkl), C04, C18. *)
From Coq Require Import Reals Lra Psatz.
From Verif.Sem Require Import RInst.
Open Scope R_scope.

(* ------------------------------------------------------------------ vectors *)
Record vec := mkV { vx : R; vy : R; vz : R }.
Definition v0 : vec := mkV 0 0 0.
Definition vplus (a b : vec) := mkV (vx a + vx b) (vy a + vy b) (vz a + vz b).
Definition vminus (a b : vec) := mkV (vx a - vx b) (vy a - vy b) (vz a - vz b).
Definition vopp (a : vec) := mkV (- vx a) (- vy a) (- vz a).
Definition vsc (k : R) (a : vec) := mkV (k * vx a) (k * vy a) (k * vz a).
Definition vdivs (a : vec) (k : R) := mkV (vx a / k) (vy a / k) (vz a / k).
Definition dot (a b : vec) := vx a * vx b + vy a * vy b + vz a * vz b.
Definition cross (a b : vec) :=
  mkV (vy a * vz b - vz a * vy b) (vz a * vx b - vx a * vz b) (vx a * vy b - vy a * vx b).
Definition norm (a : vec) := sqrt (dot a a).
(* the direction of a (a / |a|) *)
Definition dir (a : vec) := vdivs a (norm a).

Lemma vec_eq a b : vx a = vx b -> vy a = vy b -> vz a = vz b -> a = b.
Proof. destruct a, b; simpl; intros; subst; reflexivity. Qed.
Ltac vec_ring := apply vec_eq; simpl; ring.
Ltac vec_field := apply vec_eq; simpl; field.

Lemma dot_comm a b : dot a b = dot b a.
Proof. unfold dot; ring. Qed.
Lemma dot_self_nonneg a : 0 <= dot a a.
Proof. unfold dot; nra. Qed.
Lemma dot_self_zero a : dot a a = 0 -> a = v0.
Proof.
  destruct a as [x y z]; unfold dot, v0; simpl; intros H.
  assert (x = 0) by nra. assert (y = 0) by nra. assert (z = 0) by nra. subst; reflexivity.
Qed.
Lemma dot_self_pos a : a <> v0 -> 0 < dot a a.
Proof.
  intros Ha. destruct (Rle_lt_or_eq_dec _ _ (dot_self_nonneg a)) as [H|H]; [exact H|].
  exfalso; apply Ha, dot_self_zero; symmetry; exact H.
Qed.
Lemma norm_nonneg a : 0 <= norm a.
Proof. apply sqrt_pos. Qed.
Lemma norm_sq a : norm a * norm a = dot a a.
Proof. apply sqrt_sqrt, dot_self_nonneg. Qed.
Lemma norm_pos a : a <> v0 -> 0 < norm a.
Proof. intros Ha; apply sqrt_lt_R0, dot_self_pos, Ha. Qed.
Lemma norm_pos_nz a : 0 < norm a -> a <> v0.
Proof. intros H E; subst a. unfold norm, dot, v0 in H; simpl in H.
  replace (0 * 0 + 0 * 0 + 0 * 0) with 0 in H by ring. rewrite sqrt_0 in H; lra. Qed.
Lemma norm_vsc k a : norm (vsc k a) = Rabs k * norm a.
Proof.
  unfold norm. replace (dot (vsc k a) (vsc k a)) with (k * k * dot a a) by (unfold dot, vsc; simpl; ring).
  rewrite sqrt_mult by (try apply dot_self_nonneg; nra).
  f_equal. replace (k * k) with (Rsqr k) by (unfold Rsqr; ring). apply sqrt_Rsqr_abs.
Qed.
Lemma norm_vsc_pos k a : 0 < k -> norm (vsc k a) = k * norm a.
Proof. intros Hk; rewrite norm_vsc, Rabs_pos_eq by lra; reflexivity. Qed.
Lemma vsc_nz k a : k <> 0 -> a <> v0 -> vsc k a <> v0.
Proof.
  intros Hk Ha E. apply Ha. destruct a as [x y z]; unfold vsc, v0 in *; simpl in *.
  injection E as E1 E2 E3.
  assert (x = 0) by (apply Rmult_integral in E1; tauto).
  assert (y = 0) by (apply Rmult_integral in E2; tauto).
  assert (z = 0) by (apply Rmult_integral in E3; tauto). subst; reflexivity.
Qed.
Lemma norm_vopp a : norm (vopp a) = norm a.
Proof. unfold norm; f_equal; unfold dot, vopp; simpl; ring. Qed.
Lemma norm_vminus_sym a b : norm (vminus a b) = norm (vminus b a).
Proof. unfold norm; f_equal; unfold dot, vminus; simpl; ring. Qed.

(* Lagrange identity and Cauchy-Schwarz *)
Lemma lagrange a b : dot (cross a b) (cross a b) = dot a a * dot b b - dot a b * dot a b.
Proof. unfold dot, cross; simpl; ring. Qed.
Lemma cauchy_schwarz a b : dot a b * dot a b <= dot a a * dot b b.
Proof. pose proof (lagrange a b); pose proof (dot_self_nonneg (cross a b)); lra. Qed.
Lemma cross_orth_l a b : dot a (cross a b) = 0.
Proof. unfold dot, cross; simpl; ring. Qed.
Lemma cross_orth_r a b : dot b (cross a b) = 0.
Proof. unfold dot, cross; simpl; ring. Qed.

(* translation invariance of differences *)
Lemma vminus_translate a b t : vminus (vplus a t) (vplus b t) = vminus a b.
Proof. vec_ring. Qed.

(* the direction is a unit vector *)
Lemma dir_unit a : a <> v0 -> dot (dir a) (dir a) = 1.
Proof.
  intros Ha; pose proof (norm_pos a Ha) as Hn; pose proof (norm_sq a) as Hs.
  unfold dir. replace (dot (vdivs a (norm a)) (vdivs a (norm a))) with (dot a a / (norm a * norm a))
    by (unfold dot, vdivs; simpl; field; lra).
  rewrite Hs. field. rewrite <- Hs; nra.
Qed.
Lemma dir_vsc k a : 0 < k -> a <> v0 -> dir (vsc k a) = dir a.
Proof.
  intros Hk Ha; pose proof (norm_pos a Ha). unfold dir; rewrite norm_vsc_pos by assumption.
  apply vec_eq; simpl; field; lra.
Qed.

(* ------------------------------------------------------------------ matrices *)
Record mat := mkM { m11 : R; m12 : R; m13 : R; m21 : R; m22 : R; m23 : R; m31 : R; m32 : R; m33 : R }.
Definition mI : mat := mkM 1 0 0 0 1 0 0 0 1.
Definition mapp (M : mat) (v : vec) : vec :=
  mkV (m11 M * vx v + m12 M * vy v + m13 M * vz v)
      (m21 M * vx v + m22 M * vy v + m23 M * vz v)
      (m31 M * vx v + m32 M * vy v + m33 M * vz v).
Definition mmul (A B : mat) : mat :=
  mkM (m11 A * m11 B + m12 A * m21 B + m13 A * m31 B) (m11 A * m12 B + m12 A * m22 B + m13 A * m32 B) (m11 A * m13 B + m12 A * m23 B + m13 A * m33 B)
      (m21 A * m11 B + m22 A * m21 B + m23 A * m31 B) (m21 A * m12 B + m22 A * m22 B + m23 A * m32 B) (m21 A * m13 B + m22 A * m23 B + m23 A * m33 B)
      (m31 A * m11 B + m32 A * m21 B + m33 A * m31 B) (m31 A * m12 B + m32 A * m22 B + m33 A * m32 B) (m31 A * m13 B + m32 A * m23 B + m33 A * m33 B).
Definition mtr (A : mat) : mat := mkM (m11 A) (m21 A) (m31 A) (m12 A) (m22 A) (m32 A) (m13 A) (m23 A) (m33 A).
Definition msc (k : R) (A : mat) : mat :=
  mkM (k * m11 A) (k * m12 A) (k * m13 A) (k * m21 A) (k * m22 A) (k * m23 A) (k * m31 A) (k * m32 A) (k * m33 A).
Definition mdet (A : mat) : R :=
  m11 A * (m22 A * m33 A - m23 A * m32 A) - m12 A * (m21 A * m33 A - m23 A * m31 A)
  + m13 A * (m21 A * m32 A - m22 A * m31 A).
Definition madj (A : mat) : mat :=
  mkM (m22 A * m33 A - m23 A * m32 A) (m13 A * m32 A - m12 A * m33 A) (m12 A * m23 A - m13 A * m22 A)
      (m23 A * m31 A - m21 A * m33 A) (m11 A * m33 A - m13 A * m31 A) (m13 A * m21 A - m11 A * m23 A)
      (m21 A * m32 A - m22 A * m31 A) (m12 A * m31 A - m11 A * m32 A) (m11 A * m22 A - m12 A * m21 A).
(* adjugate inverse, entry-wise adj/det (the model of sc.spatial.inv in Sem/Val.v) *)
Definition minv (A : mat) : mat :=
  mkM (m11 (madj A) / mdet A) (m12 (madj A) / mdet A) (m13 (madj A) / mdet A)
      (m21 (madj A) / mdet A) (m22 (madj A) / mdet A) (m23 (madj A) / mdet A)
      (m31 (madj A) / mdet A) (m32 (madj A) / mdet A) (m33 (madj A) / mdet A).
Definition orthogonal (M : mat) : Prop := mmul (mtr M) M = mI.

Lemma mat_eq A B :
  m11 A = m11 B -> m12 A = m12 B -> m13 A = m13 B -> m21 A = m21 B -> m22 A = m22 B -> m23 A = m23 B ->
  m31 A = m31 B -> m32 A = m32 B -> m33 A = m33 B -> A = B.
Proof. destruct A, B; simpl; intros; subst; reflexivity. Qed.
Ltac mat_ring := apply mat_eq; simpl; ring.

Lemma mapp_I v : mapp mI v = v.
Proof. destruct v; vec_ring. Qed.
Lemma mapp_mmul A B v : mapp (mmul A B) v = mapp A (mapp B v).
Proof. vec_ring. Qed.
Lemma mmul_assoc A B C : mmul (mmul A B) C = mmul A (mmul B C).
Proof. mat_ring. Qed.
Lemma mapp_vplus M a b : mapp M (vplus a b) = vplus (mapp M a) (mapp M b).
Proof. vec_ring. Qed.
Lemma mapp_vminus M a b : mapp M (vminus a b) = vminus (mapp M a) (mapp M b).
Proof. vec_ring. Qed.
Lemma mapp_vsc M k a : mapp M (vsc k a) = vsc k (mapp M a).
Proof. vec_ring. Qed.
Lemma mapp_vdivs M a k : mapp M (vdivs a k) = vdivs (mapp M a) k.
Proof. apply vec_eq; simpl; unfold Rdiv; ring. Qed.
Lemma mdet_mmul A B : mdet (mmul A B) = mdet A * mdet B.
Proof. unfold mdet, mmul; simpl; ring. Qed.
Lemma mdet_I : mdet mI = 1.
Proof. unfold mdet, mI; simpl; ring. Qed.
Lemma mdet_mtr A : mdet (mtr A) = mdet A.
Proof. unfold mdet, mtr; simpl; ring. Qed.
(* M * adj(M) = adj(M) * M = det(M) * I *)
Lemma mmul_madj_r A : mmul A (madj A) = msc (mdet A) mI.
Proof. unfold mdet; mat_ring. Qed.
Lemma mmul_madj_l A : mmul (madj A) A = msc (mdet A) mI.
Proof. unfold mdet; mat_ring. Qed.
Lemma minv_r A : mdet A <> 0 -> mmul A (minv A) = mI.
Proof. destruct A; unfold minv, madj, mmul, mI, mdet; simpl; intros H; apply mat_eq; simpl; field; exact H. Qed.
Lemma minv_l A : mdet A <> 0 -> mmul (minv A) A = mI.
Proof. destruct A; unfold minv, madj, mmul, mI, mdet; simpl; intros H; apply mat_eq; simpl; field; exact H. Qed.
Lemma mapp_minv A v : mdet A <> 0 -> mapp A (mapp (minv A) v) = v.
Proof. intros H; rewrite <- mapp_mmul, minv_r by exact H; apply mapp_I. Qed.
Lemma minv_mapp A v : mdet A <> 0 -> mapp (minv A) (mapp A v) = v.
Proof. intros H; rewrite <- mapp_mmul, minv_l by exact H; apply mapp_I. Qed.

(* orthogonal maps preserve dot products, norms, differences *)
Lemma orthogonal_det M : orthogonal M -> mdet M * mdet M = 1.
Proof.
  intros H. rewrite <- (mdet_mtr M) at 1. rewrite <- mdet_mmul. unfold orthogonal in H; rewrite H. apply mdet_I.
Qed.
Lemma orthogonal_det_nz M : orthogonal M -> mdet M <> 0.
Proof. intros H E; apply orthogonal_det in H; rewrite E in H; lra. Qed.
Lemma dot_orth M a b : orthogonal M -> dot (mapp M a) (mapp M b) = dot a b.
Proof.
  intros H. unfold orthogonal in H.
  assert (E : dot (mapp M a) (mapp M b) = dot a (mapp (mmul (mtr M) M) b))
    by (unfold dot, mapp, mmul, mtr; simpl; ring).
  rewrite E, H, mapp_I; reflexivity.
Qed.
Lemma norm_orth M a : orthogonal M -> norm (mapp M a) = norm a.
Proof. intros H; unfold norm; rewrite dot_orth by exact H; reflexivity. Qed.
Lemma mapp_orth_nz M a : orthogonal M -> a <> v0 -> mapp M a <> v0.
Proof. intros H Ha; apply norm_pos_nz; rewrite norm_orth by exact H; apply norm_pos, Ha. Qed.
Lemma dir_orth M a : orthogonal M -> dir (mapp M a) = mapp M (dir a).
Proof. intros H; unfold dir; rewrite norm_orth by exact H; symmetry; apply mapp_vdivs. Qed.
Lemma orthogonal_I : orthogonal mI.
Proof. unfold orthogonal; mat_ring. Qed.
Lemma orthogonal_mmul A B : orthogonal A -> orthogonal B -> orthogonal (mmul A B).
Proof.
  unfold orthogonal; intros HA HB.
  replace (mmul (mtr (mmul A B)) (mmul A B)) with (mmul (mtr B) (mmul (mmul (mtr A) A) B)) by mat_ring.
  rewrite HA. replace (mmul mI B) with B by mat_ring. exact HB.
Qed.
(* rigid motions: p |-> M p + t *)
Lemma rigid_diff M t a b : vminus (vplus (mapp M a) t) (vplus (mapp M b) t) = mapp M (vminus a b).
Proof. vec_ring. Qed.

(* ------------------------------------------------------------------ angle *)
Definition cosang (a b : vec) := dot a b / (norm a * norm b).
Definition angle (a b : vec) := acos (cosang a b).

Lemma cosang_bound a b : a <> v0 -> b <> v0 -> -1 <= cosang a b <= 1.
Proof.
  intros Ha Hb; pose proof (norm_pos a Ha) as Na; pose proof (norm_pos b Hb) as Nb.
  pose proof (cauchy_schwarz a b) as CS. rewrite <- (norm_sq a), <- (norm_sq b) in CS.
  assert (P : 0 < norm a * norm b) by nra.
  unfold cosang. set (n := norm a * norm b) in *. set (d := dot a b) in *.
  assert (d * d <= n * n) by (unfold n; nra).
  assert (- n <= d <= n) by nra.
  split.
  - apply Rmult_le_reg_r with n; [exact P|]. unfold Rdiv; rewrite Rmult_assoc, Rinv_l by lra. lra.
  - apply Rmult_le_reg_r with n; [exact P|]. unfold Rdiv; rewrite Rmult_assoc, Rinv_l by lra. lra.
Qed.
Lemma cosang_dir a b : a <> v0 -> b <> v0 -> cosang a b = dot (dir a) (dir b).
Proof.
  intros Ha Hb; pose proof (norm_pos a Ha); pose proof (norm_pos b Hb).
  unfold cosang, dir, dot, vdivs; simpl; field; lra.
Qed.
Lemma angle_range a b : 0 <= angle a b <= PI.
Proof. apply acos_bound. Qed.
Lemma cos_angle a b : a <> v0 -> b <> v0 -> cos (angle a b) = dot a b / (norm a * norm b).
Proof. intros Ha Hb; unfold angle; rewrite cos_acos by (apply cosang_bound; assumption); reflexivity. Qed.
Lemma angle_sym a b : angle a b = angle b a.
Proof. unfold angle, cosang; rewrite dot_comm, (Rmult_comm (norm a)); reflexivity. Qed.
Lemma cosang_vsc_l k a b : 0 < k -> a <> v0 -> b <> v0 -> cosang (vsc k a) b = cosang a b.
Proof.
  intros Hk Ha Hb; pose proof (norm_pos a Ha); pose proof (norm_pos b Hb).
  unfold cosang; rewrite norm_vsc_pos by exact Hk.
  replace (dot (vsc k a) b) with (k * dot a b) by (unfold dot, vsc; simpl; ring). field; lra.
Qed.
Lemma angle_vsc_l k a b : 0 < k -> a <> v0 -> b <> v0 -> angle (vsc k a) b = angle a b.
Proof. intros; unfold angle; rewrite cosang_vsc_l by assumption; reflexivity. Qed.
Lemma angle_vsc_r k a b : 0 < k -> a <> v0 -> b <> v0 -> angle a (vsc k b) = angle a b.
Proof. intros; rewrite (angle_sym a), angle_vsc_l by assumption; apply angle_sym. Qed.
Lemma angle_orth M a b : orthogonal M -> angle (mapp M a) (mapp M b) = angle a b.
Proof. intros H; unfold angle, cosang; rewrite dot_orth, !norm_orth by exact H; reflexivity. Qed.
Lemma angle_rigid M t p q r s : orthogonal M ->
  angle (vminus (vplus (mapp M q) t) (vplus (mapp M p) t)) (vminus (vplus (mapp M s) t) (vplus (mapp M r) t))
  = angle (vminus q p) (vminus s r).
Proof. intros H; rewrite !rigid_diff; apply angle_orth, H. Qed.
Lemma angle_self a : a <> v0 -> angle a a = 0.
Proof.
  intros Ha; pose proof (norm_pos a Ha) as N; unfold angle, cosang.
  rewrite norm_sq. replace (dot a a / dot a a) with 1 by (field; pose proof (dot_self_pos a Ha); lra).
  apply acos_1.
Qed.
Lemma angle_opp a : a <> v0 -> angle a (vopp a) = PI.
Proof.
  intros Ha; pose proof (norm_pos a Ha) as N; unfold angle, cosang.
  rewrite norm_vopp, norm_sq. replace (dot a (vopp a)) with (- dot a a) by (unfold dot, vopp; simpl; ring).
  replace (- dot a a / dot a a) with (-1) by (field; pose proof (dot_self_pos a Ha); lra).
  unfold acos. destruct (Rle_dec (-1) (-1)); [reflexivity | lra].
Qed.

(* ------------------------------------------------------------------ atan2 *)
Lemma hyp_pos x y : x <> 0 \/ y <> 0 -> 0 < sqrt (x * x + y * y).
Proof. intros H; apply sqrt_lt_R0. destruct H; nra. Qed.

Lemma sqrt_1_ratio x y : 0 < x -> sqrt (1 + (y / x)²) = sqrt (x * x + y * y) / x.
Proof.
  intros Hx. apply sqrt_lem_1.
  - unfold Rsqr; assert (0 <= (y / x) * (y / x)) by nra; lra.
  - apply Rlt_le, Rdiv_lt_0_compat; [apply hyp_pos; left; lra | exact Hx].
  - replace (sqrt (x * x + y * y) / x * (sqrt (x * x + y * y) / x))
      with (sqrt (x * x + y * y) * sqrt (x * x + y * y) / (x * x)) by (field; lra).
    rewrite sqrt_sqrt by nra. unfold Rsqr; field; lra.
Qed.
Lemma sqrt_1_ratio_neg x y : x < 0 -> sqrt (1 + (y / x)²) = sqrt (x * x + y * y) / (- x).
Proof.
  intros Hx. replace (y / x) with ((- y) / (- x)) by (field; lra).
  rewrite sqrt_1_ratio by lra. do 2 f_equal. ring.
Qed.

(* polar decomposition: r cos(atan2 y x) = x, r sin(atan2 y x) = y *)
Lemma atan2_cos y x : x <> 0 \/ y <> 0 -> sqrt (x * x + y * y) * cos (atan2 y x) = x.
Proof.
  intros H; pose proof (hyp_pos x y H) as Hr. unfold atan2.
  destruct (Rlt_dec 0 x) as [Hx|Hx].
  { rewrite cos_atan, sqrt_1_ratio by exact Hx. field; lra. }
  destruct (Rlt_dec x 0) as [Hx'|Hx'].
  { destruct (Rle_dec 0 y).
    - rewrite neg_cos, cos_atan, sqrt_1_ratio_neg by exact Hx'. field; lra.
    - unfold Rminus; rewrite <- (cos_period _ 1). replace (atan (y / x) + - PI + 2 * INR 1 * PI) with (atan (y / x) + PI) by (simpl; ring).
      rewrite neg_cos, cos_atan, sqrt_1_ratio_neg by exact Hx'. field; lra. }
  assert (x = 0) by lra; subst x.
  destruct (Rlt_dec 0 y); [rewrite cos_PI2; ring|].
  destruct (Rlt_dec y 0); [|exfalso; destruct H; lra].
  replace (- PI / 2) with (- (PI / 2)) by field. rewrite cos_neg, cos_PI2; ring.
Qed.
Lemma atan2_sin y x : x <> 0 \/ y <> 0 -> sqrt (x * x + y * y) * sin (atan2 y x) = y.
Proof.
  intros H; pose proof (hyp_pos x y H) as Hr. unfold atan2.
  destruct (Rlt_dec 0 x) as [Hx|Hx].
  { rewrite sin_atan, sqrt_1_ratio by exact Hx. field; lra. }
  destruct (Rlt_dec x 0) as [Hx'|Hx'].
  { destruct (Rle_dec 0 y).
    - rewrite neg_sin, sin_atan, sqrt_1_ratio_neg by exact Hx'. field; lra.
    - unfold Rminus; rewrite <- (sin_period _ 1). replace (atan (y / x) + - PI + 2 * INR 1 * PI) with (atan (y / x) + PI) by (simpl; ring).
      rewrite neg_sin, sin_atan, sqrt_1_ratio_neg by exact Hx'. field; lra. }
  assert (x = 0) by lra; subst x.
  destruct (Rlt_dec 0 y) as [Hy|Hy].
  { rewrite sin_PI2. replace (0 * 0 + y * y) with (Rsqr y) by (unfold Rsqr; ring). rewrite sqrt_Rsqr by lra; ring. }
  destruct (Rlt_dec y 0) as [Hy'|Hy']; [|exfalso; destruct H; lra].
  replace (- PI / 2) with (- (PI / 2)) by field. rewrite sin_neg, sin_PI2.
  replace (0 * 0 + y * y) with (Rsqr (- y)) by (unfold Rsqr; ring). rewrite sqrt_Rsqr by lra; ring.
Qed.
Lemma atan_sign_pos t : 0 <= t -> 0 <= atan t.
Proof.
  intros [H|H]; [|subst; rewrite atan_0; lra].
  rewrite <- atan_0; apply Rlt_le, atan_increasing, H.
Qed.
Lemma atan_sign_neg t : t <= 0 -> atan t <= 0.
Proof.
  intros [H|H]; [|subst; rewrite atan_0; lra].
  rewrite <- atan_0; apply Rlt_le, atan_increasing, H.
Qed.
(* range (-PI, PI] *)
Lemma atan2_range y x : - PI < atan2 y x <= PI.
Proof.
  pose proof PI_RGT_0 as HP. unfold atan2.
  destruct (Rlt_dec 0 x) as [Hx|Hx]; [pose proof (atan_bound (y / x)); lra|].
  destruct (Rlt_dec x 0) as [Hx'|Hx'].
  { destruct (Rle_dec 0 y) as [Hy|Hy].
    - assert (y / x <= 0) by (apply Rmult_le_reg_r with (- x); [lra|]; replace (y / x * - x) with (- y) by (field; lra); lra).
      pose proof (atan_sign_neg _ H); pose proof (atan_bound (y / x)); lra.
    - assert (0 < y / x) by (apply Rmult_lt_reg_r with (- x); [lra|]; replace (y / x * - x) with (- y) by (field; lra); lra).
      pose proof (atan_increasing _ _ H) as Hi; rewrite atan_0 in Hi; pose proof (atan_bound (y / x)); lra. }
  destruct (Rlt_dec 0 y); [lra|]. destruct (Rlt_dec y 0); lra.
Qed.
(* first quadrant: both coordinates non-negative *)
Lemma atan2_quadrant1 y x : 0 <= x -> 0 <= y -> 0 <= atan2 y x <= PI / 2.
Proof.
  intros Hx Hy; pose proof PI_RGT_0 as HP. unfold atan2.
  destruct (Rlt_dec 0 x) as [Hx'|Hx'].
  { assert (0 <= y / x) by (apply Rmult_le_reg_r with x; [lra|]; replace (y / x * x) with y by (field; lra); lra).
    pose proof (atan_sign_pos _ H); pose proof (atan_bound (y / x)); lra. }
  destruct (Rlt_dec x 0); [lra|].
  destruct (Rlt_dec 0 y); [lra|]. destruct (Rlt_dec y 0); lra.
Qed.
(* positive rescaling of both arguments *)
Lemma atan2_scale k y x : 0 < k -> atan2 (k * y) (k * x) = atan2 y x.
Proof.
  intros Hk. unfold atan2.
  destruct (Rlt_dec 0 x) as [Hx|Hx].
  { destruct (Rlt_dec 0 (k * x)); [|exfalso; nra]. f_equal; field; lra. }
  destruct (Rlt_dec 0 (k * x)); [exfalso; nra|].
  destruct (Rlt_dec x 0) as [Hx'|Hx'].
  { destruct (Rlt_dec (k * x) 0); [|exfalso; nra].
    replace (k * y / (k * x)) with (y / x) by (field; lra).
    destruct (Rle_dec 0 y), (Rle_dec 0 (k * y)); try reflexivity; exfalso; nra. }
  destruct (Rlt_dec (k * x) 0); [exfalso; nra|].
  destruct (Rlt_dec 0 y), (Rlt_dec 0 (k * y)); try reflexivity; try (exfalso; nra).
  destruct (Rlt_dec y 0), (Rlt_dec (k * y) 0); try reflexivity; exfalso; nra.
Qed.

(* ------------------------------------------------------------------ Kahan's formula *)
(* for unit vectors u, v with c = u.v :  |u+v|^2 = 2+2c, |u-v|^2 = 2-2c *)
Lemma unit_sum_sq u v : dot u u = 1 -> dot v v = 1 -> dot (vplus u v) (vplus u v) = 2 + 2 * dot u v.
Proof. unfold dot, vplus; simpl; intros; nra. Qed.
Lemma unit_diff_sq u v : dot u u = 1 -> dot v v = 1 -> dot (vminus u v) (vminus u v) = 2 - 2 * dot u v.
Proof. unfold dot, vminus; simpl; intros; nra. Qed.

(* the core: X = |u+v|^2, Y = |u-v|^2 for unit u, v  ==>  2 atan2(sqrt Y, sqrt X) = acos(u.v) *)
Lemma kahan_core c X Y : -1 <= c <= 1 -> X = 2 + 2 * c -> Y = 2 - 2 * c ->
  2 * atan2 (sqrt Y) (sqrt X) = acos c.
Proof.
  intros Hc HX HY.
  assert (X0 : 0 <= X) by lra. assert (Y0 : 0 <= Y) by lra.
  pose proof (sqrt_pos X) as SX. pose proof (sqrt_pos Y) as SY.
  assert (NZ : sqrt X <> 0 \/ sqrt Y <> 0).
  { destruct (Req_dec (sqrt X) 0) as [E|E]; [right|left; exact E].
    intros E'. apply sqrt_eq_0 in E; [|exact X0]. apply sqrt_eq_0 in E'; [|exact Y0]. lra. }
  pose proof (atan2_cos _ _ NZ) as HC. pose proof (atan2_sin _ _ NZ) as HS.
  rewrite !sqrt_sqrt in HC, HS by assumption.
  replace (X + Y) with (2 * 2) in HC, HS by lra. rewrite sqrt_square in HC, HS by lra.
  pose proof (atan2_quadrant1 _ _ SX SY) as HQ.
  set (t := atan2 (sqrt Y) (sqrt X)) in *.
  assert (E : cos (2 * t) = c).
  { rewrite cos_2a.
    assert (EX : (2 * cos t) * (2 * cos t) = X) by (rewrite HC; apply sqrt_sqrt, X0).
    assert (EY : (2 * sin t) * (2 * sin t) = Y) by (rewrite HS; apply sqrt_sqrt, Y0).
    nra. }
  rewrite <- E. symmetry; apply acos_cos. lra.
Qed.

(* Kahan's angle formula for arbitrary non-zero a, b, stated so that the tie to
   regenerated code only has to show two polynomial identities (by field):
   X is the squared norm of dir a + dir b, Y that of dir a - dir b. *)
Lemma kahan_angle a b X Y : a <> v0 -> b <> v0 ->
  X = dot (vplus (dir a) (dir b)) (vplus (dir a) (dir b)) ->
  Y = dot (vminus (dir a) (dir b)) (vminus (dir a) (dir b)) ->
  2 * atan2 (sqrt Y) (sqrt X) = angle a b.
Proof.
  intros Ha Hb HX HY. unfold angle. rewrite cosang_dir by assumption.
  pose proof (dir_unit a Ha) as Ua. pose proof (dir_unit b Hb) as Ub.
  apply kahan_core.
  - rewrite <- cosang_dir by assumption. apply cosang_bound; assumption.
  - rewrite HX; apply unit_sum_sq; assumption.
  - rewrite HY; apply unit_diff_sq; assumption.
Qed.
Lemma kahan_norm a b : a <> v0 -> b <> v0 ->
  2 * atan2 (norm (vminus (dir a) (dir b))) (norm (vplus (dir a) (dir b))) = angle a b.
Proof. intros Ha Hb; unfold norm at 1 2; apply kahan_angle; auto. Qed.

(* |e_a - e_b| = 2 sin(theta), 2 theta = angle a b  (used by C08: |Q| = 4 pi sin(theta) / lambda) *)
Lemma dir_diff_norm a b : a <> v0 -> b <> v0 ->
  norm (vminus (dir a) (dir b)) = 2 * sin (angle a b / 2).
Proof.
  intros Ha Hb.
  pose proof (dir_unit a Ha) as Ua. pose proof (dir_unit b Hb) as Ub.
  pose proof (angle_range a b) as [R0 R1]. pose proof PI_RGT_0.
  assert (S0 : 0 <= sin (angle a b / 2)) by (apply sin_ge_0; lra).
  unfold norm. apply sqrt_lem_1; [apply dot_self_nonneg | lra |].
  rewrite unit_diff_sq by assumption. rewrite <- cosang_dir by assumption.
  assert (E : cosang a b = cos (2 * (angle a b / 2))).
  { replace (2 * (angle a b / 2)) with (angle a b) by field.
    unfold angle; rewrite cos_acos; [reflexivity | apply cosang_bound; assumption]. }
  rewrite E, cos_2a_sin. ring.
Qed.

(* ------------------------------------------------------------------ conditioning *)
(* atan is 1-Lipschitz, with the sharper mean-value form *)
Lemma atan_mvt a b : a < b -> exists c, a < c < b /\ atan b - atan a = (b - a) / (1 + c * c).
Proof.
  intros Hab.
  destruct (MVT_cor2 atan (fun x => / (1 + x ^ 2)) a b Hab) as (c & E & Hc).
  { intros x _. apply derivable_pt_lim_atan. }
  exists c; split; [exact Hc|]. rewrite E. unfold Rdiv. simpl. rewrite Rmult_1_r. ring.
Qed.

(* relative perturbations of x = |e1+e2| and y = |e1-e2| by at most eps change the
   Kahan angle 2*atan2(y,x) by at most 2 eps/(1 - 3 eps), whatever the angle is *)
Lemma kahan_conditioning_lemma x y dx dy eps :
  0 <= x -> 0 <= y -> (x <> 0 \/ y <> 0) -> 0 <= eps < 1 / 4 -> Rabs dx <= eps -> Rabs dy <= eps ->
  Rabs (2 * atan2 (y * (1 + dy)) (x * (1 + dx)) - 2 * atan2 y x) <= 2 * eps * (1 + eps) / ((1 - eps) * (1 - eps)).
Proof.
  intros Hx Hy NZ He Hdx Hdy.
  assert (Hdx' : - eps <= dx <= eps) by (unfold Rabs in Hdx; destruct (Rcase_abs dx); lra).
  assert (Hdy' : - eps <= dy <= eps) by (unfold Rabs in Hdy; destruct (Rcase_abs dy); lra).
  clear Hdx Hdy.
  assert (B0 : 0 <= 2 * eps * (1 + eps) / ((1 - eps) * (1 - eps))) by (apply Rmult_le_pos; [nra | apply Rlt_le, Rinv_0_lt_compat; nra]).
  destruct (Req_dec x 0) as [Ex|Ex].
  { (* antiparallel: x = 0 stays 0, the angle is PI on both sides *)
    subst x. assert (0 < y) by (destruct NZ; lra).
    rewrite Rmult_0_l. unfold atan2.
    destruct (Rlt_dec 0 0); [lra|].
    destruct (Rlt_dec 0 (y * (1 + dy))); [|exfalso; nra].
    destruct (Rlt_dec 0 y); [|lra].
    replace (2 * (PI / 2) - 2 * (PI / 2)) with 0 by ring. rewrite Rabs_R0; exact B0. }
  assert (Hx' : 0 < x) by lra.
  assert (Hx1 : 0 < x * (1 + dx)) by nra.
  unfold atan2. destruct (Rlt_dec 0 (x * (1 + dx))); [|lra]. destruct (Rlt_dec 0 x); [|lra].
  set (rho := y / x). assert (Hr : 0 <= rho) by (apply Rmult_le_pos; [lra | apply Rlt_le, Rinv_0_lt_compat; lra]).
  set (q := (1 + dy) / (1 + dx)).
  replace (y * (1 + dy) / (x * (1 + dx))) with (rho * q) by (unfold rho, q; field; lra).
  assert (Hq : (1 - eps) / (1 + eps) <= q <= (1 + eps) / (1 - eps)).
  { unfold q; split.
    - apply Rmult_le_reg_r with ((1 + eps) * (1 + dx)); [nra|].
      replace ((1 - eps) / (1 + eps) * ((1 + eps) * (1 + dx))) with ((1 - eps) * (1 + dx)) by (field; lra).
      replace ((1 + dy) / (1 + dx) * ((1 + eps) * (1 + dx))) with ((1 + dy) * (1 + eps)) by (field; lra). nra.
    - apply Rmult_le_reg_r with ((1 - eps) * (1 + dx)); [nra|].
      replace ((1 + eps) / (1 - eps) * ((1 - eps) * (1 + dx))) with ((1 + eps) * (1 + dx)) by (field; lra).
      replace ((1 + dy) / (1 + dx) * ((1 - eps) * (1 + dx))) with ((1 + dy) * (1 - eps)) by (field; lra). nra. }
  set (lo := (1 - eps) / (1 + eps)) in *. set (hi := (1 + eps) / (1 - eps)) in *.
  assert (Hlo : 0 < lo) by (unfold lo; apply Rdiv_lt_0_compat; lra).
  assert (Hlo1 : lo <= 1) by (unfold lo; apply Rmult_le_reg_r with (1 + eps); [lra|]; replace ((1 - eps) / (1 + eps) * (1 + eps)) with (1 - eps) by (field; lra); lra).
  assert (Hlo2 : 1 - 2 * eps <= lo).
  { unfold lo; apply Rmult_le_reg_r with (1 + eps); [lra|]. replace ((1 - eps) / (1 + eps) * (1 + eps)) with (1 - eps) by (field; lra). nra. }
  assert (Hhi : hi - 1 <= 2 * eps / (1 - eps)) by (unfold hi; right; field; lra).
  assert (Hd : Rabs (q - 1) <= 2 * eps / (1 - eps)).
  { apply Rabs_le. split; [|lra].
    assert (2 * eps / (1 - eps) >= 2 * eps) by (apply Rle_ge, Rmult_le_reg_r with (1 - eps); [lra|]; replace (2 * eps / (1 - eps) * (1 - eps)) with (2 * eps) by (field; lra); nra).
    lra. }
  (* |atan (rho q) - atan rho| <= rho |q-1| / (1 + (rho lo)^2) <= |q-1| / (2 lo) *)
  assert (K : Rabs (atan (rho * q) - atan rho) <= Rabs (q - 1) / (2 * lo)).
  { assert (AM : forall c, rho * lo <= c -> rho / (1 + c * c) <= 1 / (2 * lo)).
    { intros c Hc. apply Rmult_le_reg_r with ((1 + c * c) * (2 * lo)); [nra|].
      replace (rho / (1 + c * c) * ((1 + c * c) * (2 * lo))) with (rho * (2 * lo)) by (field; nra).
      replace (1 / (2 * lo) * ((1 + c * c) * (2 * lo))) with (1 + c * c) by (field; lra).
      pose proof (Rle_0_sqr (1 - rho * lo)) as SQ; unfold Rsqr in SQ.
      assert (0 <= rho * lo) by (apply Rmult_le_pos; lra).
      assert ((rho * lo) * (rho * lo) <= c * c) by (apply Rmult_le_compat; lra). nra. }
    destruct (Rtotal_order q 1) as [Q|[Q|Q]].
    - destruct (Req_dec rho 0) as [R0|R0].
      { rewrite R0, Rmult_0_l, Rminus_diag_eq, Rabs_R0 by reflexivity.
        apply Rmult_le_pos; [apply Rabs_pos | apply Rlt_le, Rinv_0_lt_compat; lra]. }
      assert (rho * q < rho) by nra.
      destruct (atan_mvt _ _ H) as (c & Hc & E).
      rewrite Rabs_minus_sym, E, (Rabs_minus_sym q 1), (Rabs_pos_eq (1 - q)) by lra.
      rewrite Rabs_pos_eq by (apply Rmult_le_pos; [lra | apply Rlt_le, Rinv_0_lt_compat; nra]).
      replace ((rho - rho * q) / (1 + c * c)) with ((1 - q) * (rho / (1 + c * c))) by (field; nra).
      replace ((1 - q) / (2 * lo)) with ((1 - q) * (1 / (2 * lo))) by (field; lra).
      apply Rmult_le_compat_l; [lra|]. apply AM. nra.
    - rewrite Q, Rmult_1_r, !Rminus_diag_eq, Rabs_R0 by reflexivity. unfold Rdiv; rewrite Rmult_0_l; lra.
    - destruct (Req_dec rho 0) as [R0|R0].
      { rewrite R0, Rmult_0_l, Rminus_diag_eq, Rabs_R0 by reflexivity.
        apply Rmult_le_pos; [apply Rabs_pos | apply Rlt_le, Rinv_0_lt_compat; lra]. }
      assert (rho < rho * q) by nra.
      destruct (atan_mvt _ _ H) as (c & Hc & E).
      rewrite E, (Rabs_pos_eq (q - 1)) by lra.
      rewrite Rabs_pos_eq by (apply Rmult_le_pos; [lra | apply Rlt_le, Rinv_0_lt_compat; nra]).
      replace ((rho * q - rho) / (1 + c * c)) with ((q - 1) * (rho / (1 + c * c))) by (field; nra).
      replace ((q - 1) / (2 * lo)) with ((q - 1) * (1 / (2 * lo))) by (field; lra).
      apply Rmult_le_compat_l; [lra|]. apply AM. nra. }
  replace (2 * atan (rho * q) - 2 * atan rho) with (2 * (atan (rho * q) - atan rho)) by ring.
  rewrite Rabs_mult, (Rabs_pos_eq 2) by lra.
  apply Rle_trans with (2 * (Rabs (q - 1) / (2 * lo))); [lra|].
  replace (2 * (Rabs (q - 1) / (2 * lo))) with (Rabs (q - 1) / lo) by (field; lra).
  apply Rle_trans with ((2 * eps / (1 - eps)) / lo).
  { unfold Rdiv; apply Rmult_le_compat_r; [apply Rlt_le, Rinv_0_lt_compat; lra | exact Hd]. }
  unfold lo. right. field. lra.
Qed.
Lemma kahan_conditioning_3eps x y dx dy eps :
  0 <= x -> 0 <= y -> (x <> 0 \/ y <> 0) -> 0 <= eps <= 1 / 16 -> Rabs dx <= eps -> Rabs dy <= eps ->
  Rabs (2 * atan2 (y * (1 + dy)) (x * (1 + dx)) - 2 * atan2 y x) <= 3 * eps.
Proof.
  intros Hx Hy NZ He Hdx Hdy.
  eapply Rle_trans; [apply (kahan_conditioning_lemma x y dx dy eps); try assumption; lra|].
  apply Rmult_le_reg_r with ((1 - eps) * (1 - eps)); [nra|].
  replace (2 * eps * (1 + eps) / ((1 - eps) * (1 - eps)) * ((1 - eps) * (1 - eps))) with (2 * eps * (1 + eps)) by (field; lra).
  nra.
Qed.

(* acos is ill-conditioned at c = 1: a relative error eps in the cosine moves the angle by sqrt(2 eps) *)
Lemma one_minus_cos_le t : 0 <= t -> 1 - cos t <= t * t / 2.
Proof.
  intros Ht. replace t with (2 * (t / 2)) at 1 by field. rewrite cos_2a_sin.
  assert (S : Rabs (sin (t / 2)) <= t / 2).
  { destruct (Req_dec t 0) as [E|E]; [subst; replace (0 / 2) with 0 by field; rewrite sin_0, Rabs_R0; lra|].
    assert (0 < t / 2) by lra.
    apply Rabs_le; split.
    - pose proof (SIN_bound (t / 2)). destruct (Rle_dec (t / 2) 1); [|lra].
      assert (0 <= sin (t / 2)) by (apply sin_ge_0; [lra | pose proof PI2_1; pose proof PI_RGT_0; lra]). lra.
    - apply Rlt_le, sin_lt_x; lra. }
  apply Rabs_le_inv in S || (unfold Rabs in S; destruct (Rcase_abs (sin (t / 2)))).
  all: set (sn := sin (t / 2)) in *; set (hf := t / 2) in *.
  all: assert (0 <= (hf - sn) * (hf + sn)) by (apply Rmult_le_pos; lra).
  all: assert (t = 2 * hf) by (unfold hf; field).
  all: nra.
Qed.
Lemma acos_near_one eps : 0 <= eps <= 2 -> sqrt (2 * eps) <= acos (1 - eps).
Proof.
  intros He. pose proof (acos_bound (1 - eps)) as [A0 A1].
  pose proof (cos_acos (1 - eps) ltac:(lra)) as C.
  pose proof (one_minus_cos_le _ A0) as H. rewrite C in H.
  rewrite <- (sqrt_square (acos (1 - eps))) by exact A0.
  apply sqrt_le_1; [lra | nra | lra].
Qed.
