(* C19/ProofsAtt.v — what travels with a point stays with it.

   scipp's [group] moves whole rows of the data array: the value, its variance, every
   coordinate and every mask entry of a point.  In the model a point is an element of an
   arbitrary type X, so a row with attachments is simply a richer X; this file shows that
   the grouping commutes with every projection of the rows: the bins of the attachments
   (or of the bare points) are the projections of the bins of the full rows.  Hence
   "each bin holds its points unchanged" for the full rows is equivalent to the two
   comparisons made by the correspondence (bins of (coordinate, value) and bins of the
   attachments, each against [plateau_bins] with the same flags). *)
From Coq Require Import List ZArith Bool.
From Verif.C19 Require Import Carrier Model Spec Proofs.
Import ListNotations.

Theorem attachments_travel :
  forall (X Y : Type) (f : X -> Y) (fl : list bool) (min_n : Z) (rows : list X),
    length rows = S (length fl) ->
    plateau_bins fl min_n (map f rows) = map (map f) (plateau_bins fl min_n rows).
Proof.
  intros X Y f fl min_n rows Hl.
  rewrite (plateau_bins_runs Y) by (rewrite map_length; exact Hl).
  rewrite (plateau_bins_runs X) by exact Hl.
  rewrite runs_map. unfold size_filter. rewrite filter_map_comm.
  f_equal. apply filter_ext. intros b. rewrite map_length. reflexivity.
Qed.

(* rows = points together with their attachments: both projections of the bins of the rows
   are the bins computed separately, and every bin of rows is a slice of the input rows *)
Theorem rows_unchanged :
  forall (P A : Type) (fl : list bool) (min_n : Z) (pts : list P) (atts : list A),
    length pts = S (length fl) -> length atts = length pts ->
    exists L, plateaus_spec (fun k => nth k fl false) (length pts - 1) min_n L
              /\ plateau_bins fl min_n (combine pts atts) = map (slice (combine pts atts)) L
              /\ plateau_bins fl min_n pts = map (map fst) (map (slice (combine pts atts)) L)
              /\ plateau_bins fl min_n atts = map (map snd) (map (slice (combine pts atts)) L).
Proof.
  intros P A fl min_n pts atts Hl Ha.
  assert (Hc : length (combine pts atts) = S (length fl)).
  { rewrite combine_length, Ha, Nat.min_id. exact Hl. }
  destruct (plateaus_are_maximal_runs_flags (P * A) fl min_n (combine pts atts) Hc) as (L & HL & HB).
  exists L. rewrite combine_length, Ha, Nat.min_id in HL. split; [exact HL|]. split; [exact HB|].
  rewrite <- HB. split.
  - rewrite <- attachments_travel by exact Hc.
    f_equal. clear -Ha. revert atts Ha. induction pts as [|p ps IH]; intros [|a as_] H; try discriminate; [reflexivity|].
    cbn. f_equal. apply IH. injection H. auto.
  - rewrite <- attachments_travel by exact Hc.
    f_equal. clear -Ha. revert atts Ha. induction pts as [|p ps IH]; intros [|a as_] H; try discriminate; [reflexivity|].
    cbn. f_equal. apply IH. injection H. auto.
Qed.

Example rows_unchanged_sat :
  plateau_bins [false; true; false] 2 [(1, true); (2, false); (3, true); (4, true)]%Z
  = [[(1, true); (2, false)]; [(3, true); (4, true)]]%Z.
Proof. reflexivity. Qed.
