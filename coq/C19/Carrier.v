(* C19/Carrier.v — the arithmetic the plateau / in-phase code is written over.

   The functions of src/scippneutron/chopper/filtering.py only use a handful of
   element operations: differences of coordinates and of data values, a
   quotient, abs, comparisons, max/min, a sum, round-half-even, a reciprocal,
   "the next representable coordinate".  [ops] collects them; the model
   (Model.v) and the specification (Spec.v) are both written over an arbitrary
   [ops], so the structural theorems do not depend on the arithmetic at all.

   Instances (definitions only, no proofs in this file):
     QQ next : coordinates and values are exact rationals;
     FF      : coordinates and values are binary64 (Coq primitive floats: + - * /
               and comparisons are the IEEE-754 operations, bit for bit);
     ZF      : coordinates are integers (int64 / datetime64 ticks), values are
               binary64 — scipp subtracts the integers exactly and converts the
               difference to double for the division. *)
From Coq Require Import List ZArith QArith Qabs Qround Bool.
From Coq Require Import PrimFloat Uint63 FloatOps SpecFloat.
Import ListNotations.

Record ops := mkops {
  C : Type;                       (* coordinate *)
  V : Type;                       (* data value, slope, tolerance *)
  cdiff : C -> C -> V;            (* x1 - x0 as a number that can divide a V *)
  cleb : C -> C -> bool;          (* x0 <= x1 *)
  cnext : C -> C;                 (* _next_highest *)
  vadd : V -> V -> V;
  vsub : V -> V -> V;
  vmul : V -> V -> V;
  vdiv : V -> V -> V;
  vabs : V -> V;
  vltb : V -> V -> bool;          (* a < b  (false when unordered) *)
  vofZ : Z -> V;                  (* counts, the literal 2 *)
  vround : V -> V;                (* sc.round: to nearest integer, ties to even *)
  vrecip : V -> option V          (* sc.reciprocal; None = not a finite number *)
}.

Definition vgtb (o : ops) (a b : V o) : bool := vltb o b a.     (* a > b *)
Definition vmax (o : ops) (a b : V o) : V o := if vltb o a b then b else a.
Definition vmin (o : ops) (a b : V o) : V o := if vltb o b a then b else a.
Definition cmax (o : ops) (a b : C o) : C o := if cleb o a b then b else a.
Definition cmin (o : ops) (a b : C o) : C o := if cleb o a b then a else b.

(* ------------------------------------------------------------------ rationals *)
Definition Qltb (a b : Q) : bool := negb (Qle_bool b a).
(* round to nearest, ties to even *)
Definition Qrint (q : Q) : Q :=
  let f := Qfloor q in
  let d := q - inject_Z f in
  if Qltb d (1 # 2) then inject_Z f
  else if Qltb (1 # 2) d then inject_Z (f + 1)
  else if Z.even f then inject_Z f else inject_Z (f + 1).
Definition Qrecip (q : Q) : option Q := if Qeq_bool q 0 then None else Some (/ q).

Definition QQ (next : Q -> Q) : ops := {|
  C := Q; V := Q;
  cdiff := fun a b => a - b;
  cleb := Qle_bool;
  cnext := next;
  vadd := fun a b => Qred (a + b);
  vsub := Qminus; vmul := Qmult; vdiv := Qdiv; vabs := Qabs;
  vltb := Qltb;
  vofZ := inject_Z;
  vround := Qrint;
  vrecip := Qrecip |}.

(* ------------------------------------------------------------------ binary64 *)
Definition two52 : float := 0x1p+52%float.
(* rint in round-to-nearest-even arithmetic: (|x| + 2^52) - 2^52, sign restored *)
Definition Frint (x : float) : float :=
  let ax := PrimFloat.abs x in
  if PrimFloat.leb two52 ax then x
  else if PrimFloat.eqb x x then
    let r := PrimFloat.sub (PrimFloat.add ax two52) two52 in
    if PrimFloat.ltb x 0%float then PrimFloat.opp r
    else if PrimFloat.eqb x 0%float then x else r
  else x.
(* exact conversion of an integer of magnitude < 2^63 (correctly rounded) *)
Definition FofZ (z : Z) : float :=
  match z with
  | Z0 => 0%float
  | Zpos _ => PrimFloat.of_uint63 (Uint63.of_Z z)
  | Zneg p => PrimFloat.opp (PrimFloat.of_uint63 (Uint63.of_Z (Zpos p)))
  end.

Definition FF : ops := {|
  C := float; V := float;
  cdiff := PrimFloat.sub;
  cleb := PrimFloat.leb;
  cnext := PrimFloat.next_up;
  vadd := PrimFloat.add; vsub := PrimFloat.sub; vmul := PrimFloat.mul; vdiv := PrimFloat.div;
  vabs := PrimFloat.abs;
  vltb := PrimFloat.ltb;
  vofZ := FofZ;
  vround := Frint;
  vrecip := fun x => Some (PrimFloat.div 1%float x) |}.

Definition ZF : ops := {|
  C := Z; V := float;
  cdiff := fun a b => FofZ (a - b);
  cleb := Z.leb;
  cnext := fun z => (z + 1)%Z;
  vadd := PrimFloat.add; vsub := PrimFloat.sub; vmul := PrimFloat.mul; vdiv := PrimFloat.div;
  vabs := PrimFloat.abs;
  vltb := PrimFloat.ltb;
  vofZ := FofZ;
  vround := Frint;
  vrecip := fun x => Some (PrimFloat.div 1%float x) |}.

(* exact rational value of a finite binary64 *)
Definition f2q (x : float) : option Q :=
  match Prim2SF x with
  | S754_zero _ => Some 0
  | S754_finite s m e =>
      let zm := if s then Zneg m else Zpos m in
      Some (match e with
            | Z0 => inject_Z zm
            | Zpos p => inject_Z (zm * 2 ^ (Zpos p))
            | Zneg p => Qmake zm (Pos.shiftl 1 (Npos p))
            end)
  | _ => None
  end.
Definition f2q0 (x : float) : Q := match f2q x with Some q => q | None => 0 end.
Definition f_finite (x : float) : bool := match f2q x with Some _ => true | None => false end.
(* identity of two binary64 values as data: same class (so +0 / -0 differ) and IEEE-equal *)
Definition f_same (a b : float) : bool :=
  match PrimFloat.classify a, PrimFloat.classify b with
  | FloatClass.PZero, FloatClass.PZero | FloatClass.NZero, FloatClass.NZero
  | FloatClass.NaN, FloatClass.NaN => true
  | FloatClass.PZero, _ | FloatClass.NZero, _ | FloatClass.NaN, _
  | _, FloatClass.PZero | _, FloatClass.NZero | _, FloatClass.NaN => false
  | _, _ => PrimFloat.eqb a b
  end.
