(* C19/Spec.v — what the PROPERTY says, written without reference to the code
   or to Model.v (only the arithmetic carrier of Carrier.v is shared).

   Points are numbered 0 .. last.  [exc k] says that the slope between the
   points k and k+1 is NOT within the tolerance.  A plateau is a maximal run of
   consecutive points all of whose inner slopes are within the tolerance, of at
   least [min_n] points.  The specification of the result is the list of all
   such runs, in input order. *)
From Coq Require Import List ZArith QArith Qabs Bool Sorted Lia.
From Verif.C19 Require Import Carrier.
Import ListNotations.
Local Close Scope Q_scope.

Section Runs.
Variable exc : nat -> bool.

(* points i..j (inclusive) form a run: every slope strictly inside is within tolerance *)
Definition is_run (i j : nat) : Prop :=
  i <= j /\ forall k, i <= k < j -> exc k = false.

(* ... that cannot be extended to the left or to the right *)
Definition maximal_run (last i j : nat) : Prop :=
  j <= last /\ is_run i j /\ (i = 0 \/ exc (i - 1) = true) /\ (j = last \/ exc j = true).

Definition run_size (ij : nat * nat) : Z := Z.of_nat (S (snd ij - fst ij)).

(* the list of plateaus: exactly the maximal runs with >= min_n points (none missing,
   nothing else), pairwise disjoint and in input order *)
Definition plateaus_spec (last : nat) (min_n : Z) (L : list (nat * nat)) : Prop :=
  (forall i j, In (i, j) L <-> maximal_run last i j /\ (min_n <= run_size (i, j))%Z)
  /\ StronglySorted (fun a b => snd a < fst b) L.
End Runs.

(* the points i..j of the input, unchanged *)
Definition slice {X : Type} (pts : list X) (ij : nat * nat) : list X :=
  firstn (S (snd ij - fst ij)) (skipn (fst ij) pts).

(* ------------------------------------------------------------------ arithmetic *)
Section Arith.
Variable o : ops.
Notation pt := (C o * V o)%type.

(* the slope between point k and point k+1 *)
Definition slope_at (pts : list pt) (d : pt) (k : nat) : V o :=
  let p0 := nth k pts d in
  let p1 := nth (S k) pts d in
  vdiv o (vsub o (snd p1) (snd p0)) (cdiff o (fst p1) (fst p0)).
(* "stays within the tolerance" = not (|slope| > atol) *)
Definition exceeds_at (atol : V o) (pts : list pt) (d : pt) (k : nat) : bool :=
  vltb o atol (vabs o (slope_at pts d k)).

(* what find_plateaus has to return for the series pts (at least one point) *)
Definition find_plateaus_spec (atol : V o) (min_n : Z) (pts : list pt) (d : pt)
           (bins : list (list pt)) : Prop :=
  exists L, plateaus_spec (exceeds_at atol pts d) (length pts - 1) min_n L
            /\ bins = map (slice pts) L.

(* collapsing one plateau: its mean, and an interval [low, high) holding all its points *)
Definition interval_contains (low high : C o) (bin : list pt) : Prop :=
  forall p, In p bin -> cleb o low (fst p) = true /\ cleb o high (fst p) = false.
End Arith.

(* ------------------------------------------------------------------ in phase (exact) *)
(* f is within rtol (relative to ref) of an integer multiple n*ref, or ref is within
   rtol (relative to f) of an integer multiple n*f.  f = 0 is the multiple 0*ref. *)
Definition in_phase_spec (f ref rtol : Q) : Prop :=
  ((exists n : Z, Qabs (f / ref - inject_Z n) < rtol)
   \/ (~ f == 0 /\ exists n : Z, Qabs (ref / f - inject_Z n) < rtol))%Q.
