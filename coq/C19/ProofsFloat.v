(* C19/ProofsFloat.v — the binary64 instance of the collapse interval theorem:
   for finite float64 coordinates every point of a plateau lies in
   [min, nextafter(max, +inf)).  Uses Flocq's bridge between Coq's primitive
   floats and IEEE-754 binary64 (this brings the FloatAxioms specifications of
   the primitive operations and the real-number axioms into THIS theorem only). *)
From Coq Require Import ZArith Reals List Bool Floats Lra Lia.
From Flocq Require Import Core.Core Core.Ulp Core.FLT IEEE754.BinarySingleNaN IEEE754.PrimFloat.
From Verif.C19 Require Import Carrier Model Spec ProofsArith.
Import ListNotations.
Notation flt := Coq.Floats.PrimFloat.float.

Definition ffin (x : flt) : Prop := BinarySingleNaN.is_finite (Prim2B x) = true.
Definition f2r (x : flt) : R := B2R (Prim2B x).

Lemma leb_fin : forall a b, ffin a -> ffin b -> PrimFloat.leb a b = Rle_bool (f2r a) (f2r b).
Proof. intros a b Ha Hb. rewrite leb_equiv. apply Bleb_correct; assumption. Qed.

Lemma succ_above : forall x : R, (x < succ radix2 (SpecFloat.fexp prec emax) x)%R.
Proof.
  intros x. destruct (Req_dec x 0) as [->|Hx].
  - rewrite succ_0. change (SpecFloat.fexp prec emax) with (FLT_exp (3 - emax - prec) prec).
    rewrite ulp_FLT_0 by (unfold Prec_gt_0, prec; reflexivity || lia). apply bpow_gt_0.
  - apply succ_gt_id. exact Hx.
Qed.

Lemma next_up_above : forall a b, ffin a -> ffin b ->
  PrimFloat.leb b a = true -> PrimFloat.leb (next_up a) b = false.
Proof.
  intros a b Ha Hb Hba.
  rewrite leb_fin in Hba by assumption.
  assert (Hle : (f2r b <= f2r a)%R) by (revert Hba; case Rle_bool_spec; [auto|discriminate]).
  pose proof (Bsucc_correct prec emax eq_refl eq_refl (Prim2B a) Ha) as Hs.
  rewrite <- next_up_equiv in Hs.
  destruct (Rlt_bool (succ radix2 (SpecFloat.fexp prec emax) (B2R (Prim2B a))) (bpow radix2 emax)).
  - destruct Hs as (Hr & Hf & _).
    rewrite leb_fin by assumption. unfold f2r at 1. rewrite Hr.
    case Rle_bool_spec; [|reflexivity]. intros H.
    pose proof (succ_above (B2R (Prim2B a))) as Hgt. unfold f2r in *. lra.
  - rewrite leb_equiv. unfold Bleb. rewrite Hs.
    unfold ffin in Hb. destruct (Prim2B b) as [s|s| |s m e Hbd]; try discriminate; reflexivity.
Qed.

(* float64 coordinates: [low, high) = [min, nextafter(max, +inf)) contains every point *)
Theorem collapse_interval_float : forall (bin : list (flt * flt)) m low high,
  Forall (fun p => ffin (fst p)) bin ->
  collapse_bin FF bin = Some (m, low, high) ->
  (forall p, In p bin -> PrimFloat.leb low (fst p) = true /\ PrimFloat.leb high (fst p) = false)
  /\ (exists p, In p bin /\ low = fst p)
  /\ (exists p, In p bin /\ high = next_up (fst p)).
Proof.
  intros bin m low high D H.
  destruct (collapse_mean_and_interval FF ffin) with (6 := H)
    as (_ & Hc & (p & Hp1 & Hp2 & _) & (q & Hq1 & Hq2 & _)); try exact D; cbn.
  - intros a Ha. rewrite leb_fin by assumption. case Rle_bool_spec; [reflexivity|lra].
  - intros a b c Ha Hb Hc. rewrite !leb_fin by assumption.
    repeat case Rle_bool_spec; intros; try reflexivity; try discriminate; lra.
  - intros a b Ha Hb. rewrite !leb_fin by assumption.
    repeat case Rle_bool_spec; intros; auto; lra.
  - exact next_up_above.
  - split; [|split].
    + intros x Hx. exact (Hc x Hx).
    + exists p. auto.
    + exists q. auto.
Qed.
