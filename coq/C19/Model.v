(* C19/Model.v — executable model of src/scippneutron/chopper/filtering.py
   (definitions only; the proofs are in Proofs.v, the property-level
   specification, which does not mention anything defined here, in Spec.v).

   The model follows the CODE line by line:

     derivative = (y[1:] - y[:-1]) / (x[1:] - x[:-1])          slopes
     abs(derivative) > atol                                   flags
     cumsum(flags.to(int64)); concat([0, cumsum])             group_ids
     to_group.group(label)                                    group
     groups[groups.bins.size() >= min_n_points]               size_filter
     _check_total_tolerance                                   check_total / drift_exceeds
     collapse_plateaus / _next_highest                        collapse
     _is_approximate_multiple / _is_in_phase / filter_in_phase

   scipp's [group] (no explicit groups given) makes one bin per distinct label
   value, bins ordered by ascending label, the elements of a bin in their
   original order; boolean-mask indexing keeps the flagged elements in order. *)
From Coq Require Import List ZArith Bool.
From Verif.C19 Require Import Carrier.
Import ListNotations.

(* ------------------------------------------------------------------ grouping *)
Section Group.
Variable X : Type.

(* sc.cumsum of the 0/1 flags (inclusive), started at [acc] *)
Fixpoint cumsum (acc : Z) (fl : list bool) : list Z :=
  match fl with
  | [] => []
  | b :: r => let a := (acc + (if b then 1 else 0))%Z in a :: cumsum a r
  end.
(* "Prepend a 0 to align the groups with the data points" *)
Definition group_ids (fl : list bool) : list Z := 0%Z :: cumsum 0 fl.

(* put p at the FRONT of the bin labelled k, creating the bin at its sorted place *)
Fixpoint insert_front (k : Z) (p : X) (bins : list (Z * list X)) : list (Z * list X) :=
  match bins with
  | [] => [(k, [p])]
  | (k', l) :: r =>
      if (k =? k')%Z then (k', p :: l) :: r
      else if (k <? k')%Z then (k, [p]) :: bins
      else (k', l) :: insert_front k p r
  end.
(* group-by-label: labels ascending, elements of a bin in input order
   (the points are inserted last to first, each at the front of its bin) *)
Definition group (ids : list Z) (pts : list X) : list (Z * list X) :=
  fold_right (fun kp acc => insert_front (fst kp) (snd kp) acc) [] (combine ids pts).

(* groups[groups.bins.size().data >= min_n_points] *)
Definition size_filter (min_n : Z) (bins : list (list X)) : list (list X) :=
  filter (fun b => (min_n <=? Z.of_nat (length b))%Z) bins.

Definition plateau_bins (fl : list bool) (min_n : Z) (pts : list X) : list (list X) :=
  size_filter min_n (map snd (group (group_ids fl) pts)).
End Group.
Arguments insert_front {X}.
Arguments group {X}.
Arguments size_filter {X}.
Arguments plateau_bins {X}.

(* ------------------------------------------------------------------ arithmetic part *)
Inductive result (A : Type) :=
| Ret (a : A)
| Raise (which : list Z).          (* RuntimeError: "The following plateaus exceed the tolerance" *)
Arguments Ret {A}.
Arguments Raise {A}.

Section Arith.
Variable o : ops.
Notation pt := (C o * V o)%type.

(* _derive *)
Fixpoint slopes (pts : list pt) : list (V o) :=
  match pts with
  | p0 :: r =>
      match r with
      | p1 :: _ => vdiv o (vsub o (snd p1) (snd p0)) (cdiff o (fst p1) (fst p0)) :: slopes r
      | [] => []
      end
  | [] => []
  end.
(* abs(derivative) > atol *)
Definition exceeds (atol s : V o) : bool := vgtb o (vabs o s) atol.
Definition flags (atol : V o) (pts : list pt) : list bool := map (exceeds atol) (slopes pts).

(* coord[1:] - coord[:-1] *)
Fixpoint diffs (cs : list (C o)) : list (V o) :=
  match cs with
  | c0 :: r => match r with c1 :: _ => cdiff o c1 c0 :: diffs r | [] => [] end
  | [] => []
  end.
Definition vsum (l : list (V o)) : V o := fold_left (vadd o) l (vofZ o 0).
(* sc.mean: NaN (here None) on an empty selection *)
Definition vmean (l : list (V o)) : option (V o) :=
  match l with
  | [] => None
  | _ => Some (vdiv o (vsum l) (vofZ o (Z.of_nat (length l))))
  end.
Definition vmaximum (v : V o) (l : list (V o)) : V o := fold_left (vmax o) l v.
Definition vminimum (v : V o) (l : list (V o)) : V o := fold_left (vmin o) l v.
Definition cmaximum (c : C o) (l : list (C o)) : C o := fold_left (cmax o) l c.
Definition cminimum (c : C o) (l : list (C o)) : C o := fold_left (cmin o) l c.

(* the quantity compared in _check_total_tolerance: (max - min) / mean(step);
   None when it is NaN (a single point: mean of nothing) *)
Definition drift (bin : list pt) : option (V o) :=
  match bin with
  | [] => None
  | p :: r =>
      let ys := map snd r in
      let max_diff := vsub o (vmaximum (snd p) ys) (vminimum (snd p) ys) in
      match vmean (diffs (map fst bin)) with
      | None => None
      | Some average_step => Some (vdiv o max_diff average_step)
      end
  end.
(* slope > 2 * atol *)
Definition drift_exceeds (atol : V o) (bin : list pt) : bool :=
  match drift bin with
  | None => false
  | Some slope => vgtb o slope (vmul o (vofZ o 2) atol)
  end.
Fixpoint check_total_from (k : Z) (atol : V o) (bins : list (list pt)) : list Z :=
  match bins with
  | [] => []
  | b :: r => if drift_exceeds atol b then k :: check_total_from (k + 1) atol r
              else check_total_from (k + 1) atol r
  end.
Definition check_total (atol : V o) (bins : list (list pt)) : list Z := check_total_from 0 atol bins.

Definition find_plateaus (atol : V o) (min_n : Z) (pts : list pt) : result (list (list pt)) :=
  let plateaus := plateau_bins (flags atol pts) min_n pts in
  match check_total atol plateaus with
  | [] => Ret plateaus
  | l => Raise l
  end.

(* collapse_plateaus: (bins.mean, bins.min of the coordinate, _next_highest (bins.max)) *)
Definition collapse_bin (bin : list pt) : option (option (V o) * C o * C o) :=
  match bin with
  | [] => None
  | p :: r =>
      let cs := map fst r in
      Some (vmean (map snd bin), cminimum (fst p) cs, cnext o (cmaximum (fst p) cs))
  end.
Definition collapse_plateaus (bins : list (list pt)) := map collapse_bin bins.

(* abs(sc.round(quot) - quot) < rtol *)
Definition near_integer (rtol q : V o) : bool := vltb o (vabs o (vsub o (vround o q) q)) rtol.
Definition is_approximate_multiple (x ref rtol : V o) : bool :=
  let quot := vdiv o x ref in
  let a := near_integer rtol quot in
  let b := match vrecip o quot with Some quot' => near_integer rtol quot' | None => false end in
  a || b.
Definition is_in_phase (ref rtol : V o) (frequency : list (V o)) : list bool :=
  map (fun f => is_approximate_multiple f ref rtol) frequency.
(* frequency[in_phase]; K = whatever travels with the element (its coordinates / index) *)
Definition filter_in_phase {K : Type} (ref rtol : V o) (frequency : list (K * V o)) : list (K * V o) :=
  filter (fun kf => is_approximate_multiple (snd kf) ref rtol) frequency.
End Arith.
