(* C19/ProofsArith.v — the arithmetic side: the flags are the per-slope tolerance
   tests of the specification, find_plateaus returns iff the drift guard is
   silent, collapse gives the mean and an interval [low, high) holding every
   point, the in-phase predicate is "within rtol of an integer multiple / divisor". *)
From Coq Require Import List ZArith QArith Qabs Qround Bool Sorted Lia ZifyBool Arith Lqa.
From Verif.C19 Require Import Carrier Model Spec Proofs.
Import ListNotations.
Local Close Scope Q_scope.

Section A.
Variable o : ops.
Notation pt := (C o * V o)%type.

Lemma length_slopes : forall pts : list pt, length (slopes o pts) = length pts - 1.
Proof.
  induction pts as [|p0 r IH]; [reflexivity|].
  destruct r as [|p1 r]; [reflexivity|].
  change (slopes o (p0 :: p1 :: r)) with
    (vdiv o (vsub o (snd p1) (snd p0)) (cdiff o (fst p1) (fst p0)) :: slopes o (p1 :: r)).
  cbn [length] in *. rewrite IH. lia.
Qed.

Lemma slopes_nth : forall (pts : list pt) d dv k,
  k < length pts - 1 -> nth k (slopes o pts) dv = slope_at o pts d k.
Proof.
  induction pts as [|p0 r IH]; intros d dv k Hk; [cbn in Hk; lia|].
  destruct r as [|p1 r]; [cbn in Hk; lia|].
  change (slopes o (p0 :: p1 :: r)) with
    (vdiv o (vsub o (snd p1) (snd p0)) (cdiff o (fst p1) (fst p0)) :: slopes o (p1 :: r)).
  destruct k as [|k].
  - reflexivity.
  - cbn [nth]. rewrite (IH d dv k) by (cbn [length] in *; lia).
    unfold slope_at. reflexivity.
Qed.

Lemma flags_nth : forall atol (pts : list pt) d k,
  k < length pts - 1 -> nth k (flags o atol pts) false = exceeds_at o atol pts d k.
Proof.
  intros atol pts d k Hk. unfold flags.
  assert (Hd : false = exceeds o atol (vdiv o (snd d) (snd d)) \/ True) by (right; exact I).
  rewrite nth_indep with (d' := exceeds o atol (snd d)) by (rewrite map_length, length_slopes; exact Hk).
  rewrite map_nth. rewrite (slopes_nth pts d (snd d) k Hk). reflexivity.
Qed.

(* plateau finding = the maximal runs of the specification, whatever the arithmetic *)
Theorem plateau_bins_meet_spec : forall atol min_n (pts : list pt) d,
  pts <> [] ->
  find_plateaus_spec o atol min_n pts d (plateau_bins (flags o atol pts) min_n pts).
Proof.
  intros atol min_n pts d Hne.
  assert (Hl : length pts = S (length (flags o atol pts))).
  { unfold flags. rewrite map_length, length_slopes. destruct pts; [congruence|cbn; lia]. }
  destruct (plateaus_are_maximal_runs_flags _ (flags o atol pts) min_n pts Hl) as (L & HL & Hb).
  exists L. split; [|exact Hb].
  eapply plateaus_spec_ext; [|exact HL].
  intros k Hk. apply flags_nth. exact Hk.
Qed.

(* --- the drift guard --- *)
Lemma check_total_from_spec : forall atol (bins : list (list pt)) k0 k,
  In k (check_total_from o k0 atol bins) <->
  exists n b, k = (k0 + Z.of_nat n)%Z /\ nth_error bins n = Some b /\ drift_exceeds o atol b = true.
Proof.
  induction bins as [|b r IH]; intros k0 k.
  - cbn. split; [tauto|]. intros (n & b & _ & H & _). destruct n; discriminate.
  - cbn [check_total_from]. split.
    + intros H. destruct (drift_exceeds o atol b) eqn:E.
      * destruct H as [<-|H].
        -- exists 0, b. repeat split; auto. lia.
        -- apply IH in H. destruct H as (n & b' & -> & H1 & H2). exists (S n), b'. repeat split; auto. lia.
      * apply IH in H. destruct H as (n & b' & -> & H1 & H2). exists (S n), b'. repeat split; auto. lia.
    + intros (n & b' & -> & H1 & H2). destruct n as [|n].
      * cbn in H1. injection H1 as <-. rewrite H2. left. lia.
      * assert (In (k0 + 1 + Z.of_nat n)%Z (check_total_from o (k0 + 1) atol r)).
        { apply IH. exists n, b'. auto. }
        replace (k0 + Z.of_nat (S n))%Z with (k0 + 1 + Z.of_nat n)%Z by lia.
        destruct (drift_exceeds o atol b); [right|]; assumption.
Qed.

(* find_plateaus returns exactly when no selected plateau exceeds the total-drift bound,
   and then it returns the plateau bins; otherwise it raises, naming exactly the
   plateaus (numbered among the selected ones) that exceed it *)
Theorem raises_only_on_drift : forall atol min_n (pts : list pt),
  let bins := plateau_bins (flags o atol pts) min_n pts in
  (forall r, find_plateaus o atol min_n pts = Ret r <->
             r = bins /\ forall b, In b bins -> drift_exceeds o atol b = false)
  /\ (forall l, find_plateaus o atol min_n pts = Raise l <->
                l <> [] /\ l = check_total o atol bins)
  /\ (forall k, In k (check_total o atol bins) <->
                exists n b, k = Z.of_nat n /\ nth_error bins n = Some b /\ drift_exceeds o atol b = true).
Proof.
  intros atol min_n pts bins.
  assert (Hk : forall k, In k (check_total o atol bins) <->
                exists n b, k = Z.of_nat n /\ nth_error bins n = Some b /\ drift_exceeds o atol b = true).
  { intros k. unfold check_total. rewrite check_total_from_spec.
    split; intros (n & b & H1 & H2); exists n, b; (split; [lia|exact H2]). }
  assert (Hnil : check_total o atol bins = [] <-> forall b, In b bins -> drift_exceeds o atol b = false).
  { split.
    - intros E b Hb. destruct (drift_exceeds o atol b) eqn:Ed; [|reflexivity].
      apply In_nth_error in Hb. destruct Hb as (n & Hn).
      assert (In (Z.of_nat n) (check_total o atol bins)) by (apply Hk; exists n, b; auto).
      rewrite E in H. destruct H.
    - intros H. destruct (check_total o atol bins) as [|k l] eqn:E; [reflexivity|].
      assert (Hin : In k (k :: l)) by (left; reflexivity).
      apply Hk in Hin. destruct Hin as (n & b & _ & Hn & Hd).
      apply nth_error_In in Hn. rewrite (H b Hn) in Hd. discriminate. }
  split; [|split; [|exact Hk]].
  - intros r. unfold find_plateaus. fold bins.
    destruct (check_total o atol bins) as [|k l] eqn:E.
    + split.
      * intros H. injection H as <-. split; [reflexivity|]. apply Hnil. reflexivity.
      * intros (-> & _). reflexivity.
    + split; [discriminate|]. intros (_ & H). apply Hnil in H. discriminate.
  - intros l. unfold find_plateaus. fold bins.
    destruct (check_total o atol bins) as [|k l'] eqn:E.
    + split; [discriminate|]. intros (H & ->). congruence.
    + split.
      * intros H. injection H as <-. split; [discriminate|reflexivity].
      * intros (_ & ->). reflexivity.
Qed.

Theorem find_plateaus_returns_spec : forall atol min_n (pts : list pt) d bins,
  pts <> [] -> find_plateaus o atol min_n pts = Ret bins ->
  find_plateaus_spec o atol min_n pts d bins.
Proof.
  intros atol min_n pts d bins Hne H.
  destruct (raises_only_on_drift atol min_n pts) as (Hr & _).
  apply Hr in H. destruct H as (-> & _). apply plateau_bins_meet_spec. exact Hne.
Qed.
End A.

(* ------------------------------------------------------------------ collapse *)
Section Collapse.
Variable o : ops.
Notation pt := (C o * V o)%type.
(* the coordinates that can occur (all of them for integers / rationals; the finite
   ones for binary64, where NaN is not comparable and +inf has nothing above it) *)
Variable dom : C o -> Prop.
Hypothesis cle_refl : forall a, dom a -> cleb o a a = true.
Hypothesis cle_trans : forall a b c, dom a -> dom b -> dom c ->
  cleb o a b = true -> cleb o b c = true -> cleb o a c = true.
Hypothesis cle_total : forall a b, dom a -> dom b -> cleb o a b = true \/ cleb o b a = true.
(* _next_highest returns something strictly above its argument: nothing in dom that is
   <= the argument is >= the result *)
Hypothesis next_above : forall a b, dom a -> dom b -> cleb o b a = true -> cleb o (cnext o a) b = false.

Lemma cminimum_spec : forall l c, dom c -> Forall dom l ->
  dom (cminimum o c l)
  /\ cleb o (cminimum o c l) c = true
  /\ (forall x, In x l -> cleb o (cminimum o c l) x = true)
  /\ In (cminimum o c l) (c :: l).
Proof using cle_refl cle_trans cle_total.
  induction l as [|a l IH]; intros c Dc Dl.
  - cbn. auto.
  - inversion Dl as [|? ? Da Dl']; subst.
    unfold cminimum in *. cbn [fold_left].
    assert (Hc : dom (cmin o c a) /\ cleb o (cmin o c a) c = true /\ cleb o (cmin o c a) a = true
                 /\ (cmin o c a = c \/ cmin o c a = a)).
    { unfold cmin. destruct (cleb o c a) eqn:E; repeat split; auto.
      destruct (cle_total c a Dc Da) as [H|H]; congruence. }
    destruct Hc as (Dm & Hc1 & Hc2 & Hc3).
    destruct (IH (cmin o c a) Dm Dl') as (D1 & H1 & H2 & H3).
    assert (Dl'' : forall x, In x l -> dom x) by (rewrite Forall_forall in Dl'; exact Dl').
    split; [exact D1|]. split; [eapply (cle_trans _ (cmin o c a)); eauto|]. split.
    + intros x [<-|Hx]; [eapply (cle_trans _ (cmin o c a)); eauto|auto].
    + destruct H3 as [H3|H3]; [|right; right; exact H3].
      rewrite <- H3. destruct Hc3 as [->| ->]; [left|right; left]; reflexivity.
Qed.

Lemma cmaximum_spec : forall l c, dom c -> Forall dom l ->
  dom (cmaximum o c l)
  /\ cleb o c (cmaximum o c l) = true
  /\ (forall x, In x l -> cleb o x (cmaximum o c l) = true)
  /\ In (cmaximum o c l) (c :: l).
Proof using cle_refl cle_trans cle_total.
  induction l as [|a l IH]; intros c Dc Dl.
  - cbn. auto.
  - inversion Dl as [|? ? Da Dl']; subst.
    unfold cmaximum in *. cbn [fold_left].
    assert (Hc : dom (cmax o c a) /\ cleb o c (cmax o c a) = true /\ cleb o a (cmax o c a) = true
                 /\ (cmax o c a = c \/ cmax o c a = a)).
    { unfold cmax. destruct (cleb o c a) eqn:E; repeat split; auto.
      destruct (cle_total c a Dc Da) as [H|H]; congruence. }
    destruct Hc as (Dm & Hc1 & Hc2 & Hc3).
    destruct (IH (cmax o c a) Dm Dl') as (D1 & H1 & H2 & H3).
    assert (Dl'' : forall x, In x l -> dom x) by (rewrite Forall_forall in Dl'; exact Dl').
    split; [exact D1|]. split; [eapply (cle_trans _ (cmax o c a)); eauto|]. split.
    + intros x [<-|Hx]; [eapply (cle_trans _ (cmax o c a)); eauto|auto].
    + destruct H3 as [H3|H3]; [|right; right; exact H3].
      rewrite <- H3. destruct Hc3 as [->| ->]; [left|right; left]; reflexivity.
Qed.

(* each plateau gets its mean and a half-open interval [low, high) that contains every
   one of its points; low is the smallest coordinate of the plateau, high is
   _next_highest of the largest *)
Theorem collapse_mean_and_interval : forall (bin : list pt) m low high,
  Forall (fun p => dom (fst p)) bin ->
  collapse_bin o bin = Some (m, low, high) ->
  m = vmean o (map snd bin)
  /\ interval_contains o low high bin
  /\ (exists p, In p bin /\ low = fst p /\ forall q, In q bin -> cleb o low (fst q) = true)
  /\ (exists p, In p bin /\ high = cnext o (fst p) /\ forall q, In q bin -> cleb o (fst q) (fst p) = true).
Proof using cle_refl cle_trans cle_total next_above.
  intros bin m low high Dbin H. destruct bin as [|p r]; [discriminate|].
  cbn [collapse_bin] in H. injection H as <- <- <-.
  inversion Dbin as [|? ? Dp Dr]; subst.
  assert (Dr' : Forall dom (map fst r)).
  { rewrite Forall_forall in *. intros x Hx. apply in_map_iff in Hx. destruct Hx as (q & <- & Hq). auto. }
  assert (Dall : forall q, In q (p :: r) -> dom (fst q)) by (rewrite Forall_forall in Dbin; exact Dbin).
  destruct (cminimum_spec (map fst r) (fst p) Dp Dr') as (L0 & L1 & L2 & L3).
  destruct (cmaximum_spec (map fst r) (fst p) Dp Dr') as (M0 & M1 & M2 & M3).
  assert (Hlow : forall q, In q (p :: r) -> cleb o (cminimum o (fst p) (map fst r)) (fst q) = true).
  { intros q [<-|Hq]; [exact L1|]. apply L2. apply in_map. exact Hq. }
  assert (Hhigh : forall q, In q (p :: r) -> cleb o (fst q) (cmaximum o (fst p) (map fst r)) = true).
  { intros q [<-|Hq]; [exact M1|]. apply M2. apply in_map. exact Hq. }
  split; [reflexivity|]. split; [|split].
  - intros q Hq. split; [apply Hlow; exact Hq|].
    apply next_above; auto.
  - change (fst p :: map fst r) with (map fst (p :: r)) in L3.
    apply in_map_iff in L3. destruct L3 as (q & Hq1 & Hq2).
    exists q. split; [exact Hq2|]. split; [symmetry; exact Hq1|exact Hlow].
  - change (fst p :: map fst r) with (map fst (p :: r)) in M3.
    apply in_map_iff in M3. destruct M3 as (q & Hq1 & Hq2).
    exists q. split; [exact Hq2|]. split; [rewrite Hq1; reflexivity|].
    intros q' Hq'. rewrite Hq1. apply Hhigh. exact Hq'.
Qed.
End Collapse.

(* integer / datetime64 coordinates: the hypotheses hold, next = +1 is the LEAST value above *)
Theorem collapse_interval_int : forall (bin : list (Z * PrimFloat.float)) m low high,
  collapse_bin ZF bin = Some (m, low, high) ->
  (forall p, In p bin -> (low <= fst p < high)%Z)
  /\ (exists p, In p bin /\ low = fst p)
  /\ (exists p, In p bin /\ high = (fst p + 1)%Z).
Proof.
  intros bin m low high H.
  assert (D : Forall (fun p : Z * PrimFloat.float => (fun _ : Z => True) (fst p)) bin)
    by (rewrite Forall_forall; auto).
  destruct (collapse_mean_and_interval ZF (fun _ => True)) with (6 := H)
    as (_ & Hc & (p & Hp1 & Hp2 & _) & (q & Hq1 & Hq2 & _)); cbn; intros; try lia; try exact D.
  split; [|split].
  - intros x Hx. destruct (Hc x Hx) as (H1 & H2). cbn in H1, H2. lia.
  - exists p. auto.
  - exists q. auto.
Qed.

(* exact-rational coordinates with any strictly increasing "next" *)
Theorem collapse_interval_Q : forall (next : Q -> Q), (forall x, (x < next x)%Q) ->
  forall (bin : list (Q * Q)) m low high,
  collapse_bin (QQ next) bin = Some (m, low, high) ->
  forall p, In p bin -> (low <= fst p < high)%Q.
Proof.
  intros next Hn bin m low high H.
  assert (Hle : forall a b, Qle_bool a b = true <-> (a <= b)%Q) by (intros; apply Qle_bool_iff).
  assert (D : Forall (fun p : Q * Q => (fun _ : Q => True) (fst p)) bin)
    by (rewrite Forall_forall; auto).
  destruct (collapse_mean_and_interval (QQ next) (fun _ => True)) with (6 := H) as (_ & Hc & _); cbn; try exact D.
  - intros. apply Hle. apply Qle_refl.
  - intros a b c _ _ _. rewrite !Hle. apply Qle_trans.
  - intros a b _ _. rewrite !Hle. destruct (Qlt_le_dec a b) as [H1|H1]; [left; apply Qlt_le_weak|right]; assumption.
  - intros a b _ _ Hba. destruct (Qle_bool (next a) b) eqn:E; [|reflexivity].
    apply Hle in E. apply Hle in Hba. specialize (Hn a). exfalso.
    apply (Qlt_not_le _ _ Hn). eapply Qle_trans; eassumption.
  - intros p Hp. destruct (Hc p Hp) as (H1 & H2). cbn in H1, H2. split.
    + apply Hle. exact H1.
    + apply Qnot_le_lt. intros Hx. apply Hle in Hx. congruence.
Qed.

(* ------------------------------------------------------------------ the clauses of the property, one by one *)
Lemma nth_slice : forall (X : Type) (pts : list X) (d : X) i j k,
  j < length pts -> i <= j -> k <= j - i -> nth k (slice pts (i, j)) d = nth (i + k) pts d.
Proof.
  intros X pts d i j k Hj Hij Hk. unfold slice. cbn [fst snd].
  rewrite <- (map_nth_seq X d pts i (S (j - i))) by lia.
  set (f := fun k0 => nth k0 pts d).
  rewrite nth_indep with (d' := f 0) by (rewrite map_length, seq_length; lia).
  rewrite map_nth. rewrite seq_nth by lia. reflexivity.
Qed.

Section Clauses.
Variable o : ops.
Notation pt := (C o * V o)%type.

(* disjoint, in input order, none missing, nothing else *)
Theorem disjoint_ordered_complete : forall atol min_n (pts : list pt) d bins,
  pts <> [] -> find_plateaus o atol min_n pts = Ret bins ->
  exists L,
    bins = map (slice pts) L
    /\ StronglySorted (fun a b => snd a < fst b) L
    /\ Forall (fun ij => fst ij <= snd ij < length pts) L
    /\ (forall i j, maximal_run (exceeds_at o atol pts d) (length pts - 1) i j ->
                    (min_n <= Z.of_nat (S (j - i)))%Z -> In (i, j) L)
    /\ (forall i j, In (i, j) L ->
                    maximal_run (exceeds_at o atol pts d) (length pts - 1) i j /\ (min_n <= Z.of_nat (S (j - i)))%Z).
Proof.
  intros atol min_n pts d bins Hne H.
  destruct (find_plateaus_returns_spec o atol min_n pts d bins Hne H) as (L & (HL & HS) & Hb).
  exists L. split; [exact Hb|]. split; [exact HS|]. split; [|split].
  - rewrite Forall_forall. intros [i j] Hin. apply HL in Hin.
    destruct Hin as ((H1 & (H2 & _) & _) & _). cbn.
    destruct pts; [congruence|]. cbn [length] in *. lia.
  - intros i j Hm Hs. apply HL. split; [exact Hm|exact Hs].
  - intros i j Hin. apply HL in Hin. exact Hin.
Qed.

(* each bin holds its points and coordinates unchanged: bin number b is the contiguous
   piece i..j of the input, element for element *)
Theorem points_unchanged : forall atol min_n (pts : list pt) d bins,
  pts <> [] -> find_plateaus o atol min_n pts = Ret bins ->
  forall b bin, nth_error bins b = Some bin ->
    exists i j, i <= j < length pts /\ length bin = S (j - i)
                /\ forall k, k < length bin -> nth k bin d = nth (i + k) pts d.
Proof.
  intros atol min_n pts d bins Hne H b bin Hb.
  destruct (disjoint_ordered_complete atol min_n pts d bins Hne H) as (L & -> & _ & HF & _).
  rewrite nth_error_map in Hb. destruct (nth_error L b) as [[i j]|] eqn:E; [|discriminate].
  injection Hb as <-. apply nth_error_In in E. rewrite Forall_forall in HF. specialize (HF _ E). cbn in HF.
  exists i, j. split; [exact HF|].
  assert (Hlen : length (slice pts (i, j)) = S (j - i)) by (apply length_slice; cbn; lia).
  split; [exact Hlen|].
  intros k Hk. apply nth_slice; lia.
Qed.
End Clauses.
