(* C19/Carrier32.v — binary32 (float32) coordinates and data (definitions only).

   scipp keeps the dtype of its operands: with float32 coordinates AND float32 data
   every operation of _derive is the IEEE-754 binary32 one; when only one side is
   float32 that side's difference is formed in binary32 and the quotient in binary64;
   float32 data over int64 / datetime64 coordinates: the integer difference is
   converted to binary32 (round to nearest even) and the quotient is binary32.
   The comparison with the (binary64) tolerance is exact (promotion to binary64).
   _next_highest on a float32 coordinate is the successor IN binary32.

   binary32 is Flocq's [binary_float 24 128] (IEEE754.BinarySingleNaN) with its
   verified operations Bminus / Bdiv / Bleb / Bsucc; they compute (vm_compute).
   float32 DATA values travel as binary64 primitive floats that are representable
   in binary32 (the embedding is exact in both directions), so the model's value
   type stays [float]; float32 COORDINATES are kept as [b32] so that the interval
   theorem (ProofsFloat32.v) is stated directly on Flocq's order and successor. *)
From Coq Require Import ZArith QArith List Bool PrimFloat FloatOps SpecFloat.
From Flocq Require Import Core.Core IEEE754.BinarySingleNaN.
From Verif.C19 Require Import Carrier.
Notation float := PrimFloat.float.

Definition b32 : Type := binary_float 24 128.
#[global] Instance Hprec32 : Prec_gt_0 24 := eq_refl.
#[global] Instance Hemax32 : Prec_lt_emax 24 128 := eq_refl.
(* the binary32 value nearest to m * 2^e (exact whenever m * 2^e is representable) *)
Definition mk32 (m e : Z) : b32 := binary_normalize 24 128 Hprec32 Hemax32 mode_NE m e false.

(* binary64 -> binary32, round to nearest even (exact on representable values) *)
Definition of64 (x : float) : b32 :=
  match Prim2SF x with
  | S754_zero s => B754_zero s
  | S754_infinity s => B754_infinity s
  | S754_nan => B754_nan
  | S754_finite s m e => binary_normalize 24 128 Hprec32 Hemax32 mode_NE (cond_Zopp s (Zpos m)) e s
  end.
(* binary32 -> binary64, exact *)
Definition to64 (x : b32) : float :=
  match x with
  | B754_zero s => if s then (-0)%float else 0%float
  | B754_infinity s => if s then neg_infinity else infinity
  | B754_nan => nan
  | B754_finite s m e _ => SF2Prim (SpecFloat.binary_round 53 1024 s m e)
  end.

Definition add32 (a b : float) : float := to64 (Bplus mode_NE (of64 a) (of64 b)).
Definition sub32 (a b : float) : float := to64 (Bminus mode_NE (of64 a) (of64 b)).
Definition mul32 (a b : float) : float := to64 (Bmult mode_NE (of64 a) (of64 b)).
Definition div32 (a b : float) : float := to64 (Bdiv mode_NE (of64 a) (of64 b)).
(* int64 -> float32 *)
Definition ZtoF32 (z : Z) : float := to64 (mk32 z 0).

Definition b32_finite (x : b32) : bool := is_finite x.
Definition b32_same (a b : b32) : bool := f_same (to64 a) (to64 b).
Definition b32q (x : b32) : Q := f2q0 (to64 x).

(* float32 coordinates; data float64 (v32 = false) or float32 (v32 = true) *)
Definition S32 (v32 : bool) : ops := {|
  C := b32; V := float;
  cdiff := fun a b => to64 (Bminus mode_NE a b);
  cleb := Bleb;
  cnext := Bsucc;
  vadd := if v32 then add32 else PrimFloat.add;
  vsub := if v32 then sub32 else PrimFloat.sub;
  vmul := if v32 then mul32 else PrimFloat.mul;
  vdiv := if v32 then div32 else PrimFloat.div;
  vabs := PrimFloat.abs;
  vltb := PrimFloat.ltb;
  vofZ := if v32 then ZtoF32 else FofZ;
  vround := Frint;
  vrecip := fun x => Some (PrimFloat.div 1%float x) |}.

(* float64 coordinates, float32 data: y difference in binary32, quotient in binary64 *)
Definition FFv32 : ops := {|
  C := float; V := float;
  cdiff := PrimFloat.sub;
  cleb := PrimFloat.leb;
  cnext := PrimFloat.next_up;
  vadd := PrimFloat.add; vsub := sub32; vmul := PrimFloat.mul; vdiv := PrimFloat.div;
  vabs := PrimFloat.abs;
  vltb := PrimFloat.ltb;
  vofZ := FofZ;
  vround := Frint;
  vrecip := fun x => Some (PrimFloat.div 1%float x) |}.

(* int64 / datetime64 coordinates, float32 data: everything in binary32 *)
Definition ZFv32 : ops := {|
  C := Z; V := float;
  cdiff := fun a b => ZtoF32 (a - b);
  cleb := Z.leb;
  cnext := fun z => (z + 1)%Z;
  vadd := add32; vsub := sub32; vmul := mul32; vdiv := div32;
  vabs := PrimFloat.abs;
  vltb := PrimFloat.ltb;
  vofZ := ZtoF32;
  vround := Frint;
  vrecip := fun x => Some (PrimFloat.div 1%float x) |}.
