(* C19/ProofsFloat32.v — the binary32 (float32 coordinate) instance of the collapse
   interval theorem: for finite float32 coordinates every point of a plateau lies in
   [min, next(max)) where next is the successor IN BINARY32 (Flocq's Bsucc at
   precision 24, emax 128): the least binary32 value above — not the binary64
   successor rounded back, which would be the maximum itself.
   Uses Flocq's IEEE-754 formalisation (real-number axioms of the standard library). *)
From Coq Require Import ZArith Reals List Bool Lra Lia.
From Flocq Require Import Core.Core Core.Ulp Core.FLT IEEE754.BinarySingleNaN.
From Verif.C19 Require Import Carrier Model Spec ProofsArith Carrier32.
Import ListNotations.

Definition fin32 (x : b32) : Prop := is_finite x = true.
Definition r32 (x : b32) : R := B2R x.
Definition fexp32 : Z -> Z := SpecFloat.fexp 24 128.

Lemma leb32_fin : forall a b : b32, fin32 a -> fin32 b -> Bleb a b = Rle_bool (r32 a) (r32 b).
Proof. intros a b Ha Hb. apply Bleb_correct; assumption. Qed.

Lemma succ32_above : forall x : R, (x < succ radix2 fexp32 x)%R.
Proof.
  intros x. destruct (Req_dec x 0) as [->|Hx].
  - rewrite succ_0. change fexp32 with (FLT_exp (3 - 128 - 24) 24).
    rewrite ulp_FLT_0 by (unfold Prec_gt_0; lia). apply bpow_gt_0.
  - apply succ_gt_id. exact Hx.
Qed.

(* the binary32 successor of a finite value is above every point not above that value *)
Lemma Bsucc32_above : forall a b : b32, fin32 a -> fin32 b ->
  Bleb b a = true -> Bleb (Bsucc a) b = false.
Proof.
  intros a b Ha Hb Hba.
  rewrite leb32_fin in Hba by assumption.
  assert (Hle : (r32 b <= r32 a)%R) by (revert Hba; case Rle_bool_spec; [auto|discriminate]).
  pose proof (Bsucc_correct 24 128 Hprec32 Hemax32 a Ha) as Hs.
  destruct (Rlt_bool (succ radix2 (SpecFloat.fexp 24 128) (B2R a)) (bpow radix2 128)).
  - destruct Hs as (Hr & Hf & _).
    rewrite leb32_fin by assumption. unfold r32 at 1. rewrite Hr.
    case Rle_bool_spec; [|reflexivity]. intros H.
    pose proof (succ32_above (B2R a)) as Hgt. unfold r32, fexp32 in *. lra.
  - unfold Bleb. rewrite Hs.
    unfold fin32 in Hb. destruct b as [s|s| |s m e Hbd]; try discriminate; reflexivity.
Qed.

(* float32 coordinates (data float64 or float32):
   [low, high) = [min, succ_binary32(max)) contains every point *)
Theorem collapse_interval_float32 : forall (v32 : bool) (bin : list (b32 * PrimFloat.float)) m low high,
  Forall (fun p => fin32 (fst p)) bin ->
  collapse_bin (S32 v32) bin = Some (m, low, high) ->
  (forall p, In p bin -> Bleb low (fst p) = true /\ Bleb high (fst p) = false)
  /\ (exists p, In p bin /\ low = fst p)
  /\ (exists p, In p bin /\ high = Bsucc (fst p)
                /\ (is_finite high = true -> B2R high = succ radix2 fexp32 (B2R (fst p)))).
Proof.
  intros v32 bin m low high D H.
  destruct (collapse_mean_and_interval (S32 v32) fin32) with (6 := H)
    as (_ & Hc & (p & Hp1 & Hp2 & _) & (q & Hq1 & Hq2 & _)); try exact D; cbn.
  - intros a Ha. rewrite leb32_fin by assumption. case Rle_bool_spec; [reflexivity|lra].
  - intros a b c Ha Hb Hc. rewrite !leb32_fin by assumption.
    repeat case Rle_bool_spec; intros; try reflexivity; try discriminate; lra.
  - intros a b Ha Hb. rewrite !leb32_fin by assumption.
    repeat case Rle_bool_spec; intros; auto; lra.
  - exact Bsucc32_above.
  - split; [|split].
    + intros x Hx. exact (Hc x Hx).
    + exists p. auto.
    + exists q. split; [exact Hq1|]. split; [exact Hq2|].
      intros Hfin. subst high. cbn [cnext S32] in Hfin |- *.
      assert (Dq : fin32 (fst q)) by (rewrite Forall_forall in D; exact (D q Hq1)).
      pose proof (Bsucc_correct 24 128 Hprec32 Hemax32 (fst q) Dq) as Hs.
      destruct (Rlt_bool (succ radix2 (SpecFloat.fexp 24 128) (B2R (fst q))) (bpow radix2 128)).
      * destruct Hs as (Hr & _). exact Hr.
      * exfalso. destruct (Bsucc (fst q)) as [s|s| |s mm e Hbd]; cbn in Hs, Hfin; try discriminate.
Qed.

(* the binary64 successor of a binary32 value, rounded back to binary32, is NOT above it:
   the successor has to be taken in the coordinate's own format *)
Example succ64_rounds_back :
  let x := mk32 3 (-1) in
  b32_same (of64 (PrimFloat.next_up (to64 x))) x = true
  /\ Bleb (Bsucc x) x = false
  /\ B2SF (Bsucc x) = SpecFloat.S754_finite false 12582913 (-23).
Proof. vm_compute. repeat split. Qed.
