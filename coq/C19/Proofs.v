(* C19/Proofs.v — the group-id construction of find_plateaus is the list of
   maximal within-tolerance runs (for every series, any arithmetic). *)
From Coq Require Import List ZArith Bool Sorted Lia ZifyBool Arith.
From Verif.C19 Require Import Carrier Model Spec.
Import ListNotations.

(* ------------------------------------------------------------------ 1. group by cumulative ids = split at flags *)
Section G.
Variable X : Type.

(* split the points after every flagged slope *)
Fixpoint runs (fl : list bool) (pts : list X) {struct pts} : list (list X) :=
  match pts with
  | [] => []
  | p :: ps =>
      match fl with
      | [] => [[p]]
      | b :: fl' =>
          if b then [p] :: runs fl' ps
          else match runs fl' ps with
               | [] => [[p]]
               | r :: rs => (p :: r) :: rs
               end
      end
  end.

Lemma group_cons : forall a ids (p : X) ps,
  group (a :: ids) (p :: ps) = insert_front a p (group ids ps).
Proof. reflexivity. Qed.

Lemma group_cumsum : forall fl a pts,
  length pts = S (length fl) ->
  exists r rs, group (a :: cumsum a fl) pts = (a, r) :: rs /\ r :: map snd rs = runs fl pts.
Proof.
  induction fl as [|b fl IH]; intros a pts Hl.
  - destruct pts as [|p [|q ps]]; simpl in Hl; try discriminate.
    exists (p :: nil), nil. split; reflexivity.
  - destruct pts as [|p ps]; simpl in Hl; [discriminate|].
    injection Hl as Hl.
    cbn [cumsum]. rewrite group_cons.
    destruct (IH (a + (if b then 1 else 0))%Z ps Hl) as (r & rs & Hg & Hr).
    rewrite Hg. destruct b.
    + exists (p :: nil), (((a + 1)%Z, r) :: rs). split.
      * cbn [insert_front].
        replace (a =? a + 1)%Z with false by lia.
        replace (a <? a + 1)%Z with true by lia. reflexivity.
      * cbn [runs map snd]. rewrite <- Hr. reflexivity.
    + exists (p :: r), rs. split.
      * cbn [insert_front]. rewrite Z.add_0_r, Z.eqb_refl. reflexivity.
      * cbn [runs]. rewrite <- Hr. reflexivity.
Qed.

Lemma plateau_bins_runs : forall fl min_n pts,
  length pts = S (length fl) ->
  plateau_bins fl min_n pts = size_filter min_n (runs fl pts).
Proof.
  intros fl min_n pts Hl. unfold plateau_bins, group_ids.
  destruct (group_cumsum fl 0%Z pts Hl) as (r & rs & Hg & Hr).
  rewrite Hg, <- Hr. reflexivity.
Qed.

(* nothing is lost, duplicated or reordered by the grouping *)
Lemma concat_runs : forall pts fl, length pts = S (length fl) -> concat (runs fl pts) = pts.
Proof.
  induction pts as [|p ps IH]; intros fl Hl; [discriminate|].
  destruct fl as [|b fl].
  - destruct ps; [reflexivity|discriminate].
  - simpl in Hl. injection Hl as Hl. specialize (IH fl Hl).
    cbn [runs]. destruct b.
    + cbn [concat app]. rewrite IH. reflexivity.
    + destruct (runs fl ps) as [|r rs].
      * cbn in IH. subst ps. discriminate.
      * cbn [concat] in *. rewrite <- IH. reflexivity.
Qed.

Lemma runs_nonempty : forall pts fl, Forall (fun r => r <> []) (runs fl pts).
Proof.
  induction pts as [|p ps IH]; intros fl; cbn [runs]; [constructor|].
  destruct fl as [|b fl]; [repeat constructor; discriminate|].
  specialize (IH fl). destruct b.
  - constructor; [discriminate|exact IH].
  - destruct (runs fl ps); [repeat constructor; discriminate|].
    inversion IH; subst. constructor; [discriminate|assumption].
Qed.
End G.
Arguments runs {X}.

Lemma runs_map : forall (X Y : Type) (f : X -> Y) pts fl,
  runs fl (map f pts) = map (map f) (runs fl pts).
Proof.
  induction pts as [|p ps IH]; intros fl; [reflexivity|].
  cbn [map runs]. destruct fl as [|b fl]; [reflexivity|].
  rewrite IH. destruct b; [reflexivity|].
  destruct (runs fl ps); reflexivity.
Qed.

(* ------------------------------------------------------------------ 2. the runs of 0..m are the maximal runs *)
Section Idx.
Variable exc : nat -> bool.

Definition maximal_from (s last i j : nat) : Prop :=
  s <= i /\ j <= last /\ is_run exc i j /\ (i = s \/ exc (i - 1) = true) /\ (j = last \/ exc j = true).

Lemma maximal_from_0 : forall last i j, maximal_from 0 last i j <-> maximal_run exc last i j.
Proof.
  unfold maximal_from, maximal_run. intros. split.
  - intros (_ & H1 & H2 & H3 & H4). auto.
  - intros (H1 & H2 & H3 & H4). repeat split; auto; try lia; apply H2.
Qed.

Definition iv (ij : nat * nat) : list nat := seq (fst ij) (S (snd ij - fst ij)).
Definition before (a b : nat * nat) : Prop := snd a < fst b.

Lemma runs_seq : forall m s,
  exists j rs,
    runs (map exc (seq s m)) (seq s (S m)) = map iv ((s, j) :: rs)
    /\ (forall i j', In (i, j') ((s, j) :: rs) <-> maximal_from s (s + m) i j')
    /\ StronglySorted before ((s, j) :: rs).
Proof.
  induction m as [|m IH]; intros s.
  - exists s, nil. split; [|split].
    + cbn. unfold iv. cbn. rewrite Nat.sub_diag. reflexivity.
    + intros i j'. unfold maximal_from, is_run. cbn [In]. split.
      * intros [E|[]]. injection E as <- <-. repeat split; auto; lia.
      * intros (H1 & H2 & (H3 & _) & _). left. f_equal; lia.
    + repeat constructor.
  - destruct (IH (S s)) as (j0 & rs & Hr & Hin & Hs).
    assert (Hj0 : maximal_from (S s) (S s + m) (S s) j0) by (apply Hin; left; reflexivity).
    assert (Hrs : Forall (fun b => j0 < fst b) rs) by (inversion Hs; subst; assumption).
    replace (seq s (S (S m))) with (s :: seq (S s) (S m)) by reflexivity.
    replace (map exc (seq s (S m))) with (exc s :: map exc (seq (S s) m)) by reflexivity.
    cbn [runs]. rewrite Hr. replace (s + S m) with (S s + m) by lia.
    destruct (exc s) eqn:Es.
    + (* a new run starts after s *)
      exists s, ((S s, j0) :: rs). split; [|split].
      * cbn [map]. f_equal. unfold iv. cbn [fst snd]. rewrite Nat.sub_diag. reflexivity.
      * intros i j'. cbn [In]. split.
        -- intros [E|H].
           ++ injection E as <- <-. unfold maximal_from, is_run.
              repeat split; auto; try lia; try (right; exact Es).
           ++ apply (Hin i j') in H. destruct H as (H1 & H2 & H3 & H4 & H5).
              unfold maximal_from. repeat split; auto; try lia; try apply H3.
              destruct H4 as [->|H4]; right; auto.
              replace (S s - 1) with s by lia. exact Es.
        -- intros (H1 & H2 & H3 & H4 & H5).
           destruct (Nat.eq_dec i s) as [->|Hne].
           ++ left. f_equal. destruct H3 as (H3a & H3b).
              destruct (Nat.eq_dec j' s) as [->|Hne']; [reflexivity|].
              specialize (H3b s). rewrite Es in H3b. assert (false = true -> False) by discriminate.
              exfalso. apply H. symmetry. apply H3b. lia.
           ++ right. apply Hin. unfold maximal_from. repeat split; auto; try lia; try apply H3.
      * constructor; [exact Hs|].
        constructor; [unfold before; cbn; lia|].
        eapply Forall_impl; [|exact Hrs]. intros b Hb. unfold before. cbn in *.
        destruct Hj0 as (_ & _ & (Hle & _) & _). lia.
    + (* s joins the run that starts at s+1 *)
      destruct Hj0 as (_ & Hj0l & (Hj0a & Hj0b) & _ & Hj0e).
      exists j0, rs. split; [|split].
      * cbn [map]. f_equal. unfold iv. cbn [fst snd].
        replace (S (j0 - s)) with (S (S (j0 - S s))) by lia. reflexivity.
      * intros i j'. cbn [In]. split.
        -- intros [E|H].
           ++ injection E as <- <-. unfold maximal_from, is_run. repeat split; auto; try lia.
              intros k Hk. destruct (Nat.eq_dec k s) as [->|Hne]; [exact Es|]. apply Hj0b. lia.
           ++ assert (Hlt : j0 < i).
              { rewrite Forall_forall in Hrs. apply (Hrs (i, j')). exact H. }
              assert (H' : In (i, j') ((S s, j0) :: rs)) by (right; exact H).
              apply (Hin i j') in H'. destruct H' as (H1 & H2 & H3 & H4 & H5).
              unfold maximal_from. repeat split; auto; try lia; try apply H3.
        -- intros (H1 & H2 & (H3a & H3b) & H4 & H5).
           destruct (Nat.eq_dec i s) as [->|Hne].
           ++ left. f_equal.
              assert (Hj' : S s <= j').
              { destruct (Nat.eq_dec j' s) as [->|Hne']; [|lia].
                destruct H5 as [H5|H5]; [lia|]. rewrite Es in H5. discriminate. }
              assert (Hm : maximal_from (S s) (S s + m) (S s) j').
              { unfold maximal_from, is_run. repeat split; auto; try lia.
                intros k Hk. apply H3b. lia. }
              apply Hin in Hm. destruct Hm as [E|Hm]; [injection E as ->; reflexivity|].
              rewrite Forall_forall in Hrs. specialize (Hrs _ Hm). cbn in Hrs. lia.
           ++ right.
              destruct H4 as [->|H4]; [lia|].
              assert (Hi : i <> S s).
              { intros ->. replace (S s - 1) with s in H4 by lia. rewrite Es in H4. discriminate. }
              assert (Hm : maximal_from (S s) (S s + m) i j').
              { unfold maximal_from, is_run. repeat split; auto; try lia. }
              apply Hin in Hm. destruct Hm as [E|Hm]; [injection E as E1 E2; lia|exact Hm].
      * inversion Hs; subst. constructor; [assumption|].
        eapply Forall_impl; [|exact Hrs]. intros b Hb. unfold before. cbn in *. exact Hb.
Qed.
End Idx.

(* ------------------------------------------------------------------ 3. index lists and slices *)
Lemma map_nth_seq : forall (X : Type) (d : X) pts i n,
  i + n <= length pts -> map (fun k => nth k pts d) (seq i n) = firstn n (skipn i pts).
Proof.
  induction pts as [|p ps IH]; intros i n H.
  - cbn in H. assert (i = 0) by lia. assert (n = 0) by lia. subst. reflexivity.
  - destruct i as [|i].
    + destruct n as [|n]; [reflexivity|].
      cbn [seq map nth skipn firstn]. f_equal.
      rewrite <- seq_shift, map_map. cbn [nth].
      rewrite (IH 0 n) by (cbn in H; lia). reflexivity.
    + rewrite <- seq_shift, map_map. cbn [nth skipn]. apply IH. cbn in H. lia.
Qed.

Lemma list_as_map_nth : forall (X : Type) (d : X) pts,
  pts = map (fun k => nth k pts d) (seq 0 (length pts)).
Proof.
  intros. rewrite map_nth_seq by lia. cbn [skipn]. symmetry. apply firstn_all.
Qed.

Lemma length_slice : forall (X : Type) (pts : list X) ij,
  snd ij < length pts -> fst ij <= snd ij -> length (slice pts ij) = S (snd ij - fst ij).
Proof.
  intros X pts [i j] H1 H2. unfold slice. cbn [fst snd] in *.
  rewrite firstn_length, skipn_length. lia.
Qed.

Lemma filter_map_comm : forall (A B : Type) (f : B -> bool) (g : A -> B) l,
  filter f (map g l) = map g (filter (fun x => f (g x)) l).
Proof.
  induction l as [|a l IH]; [reflexivity|]. cbn. destruct (f (g a)); cbn; rewrite IH; reflexivity.
Qed.

Lemma StronglySorted_filter : forall (A : Type) (R : A -> A -> Prop) f l,
  StronglySorted R l -> StronglySorted R (filter f l).
Proof.
  induction l as [|a l IH]; intros H; [constructor|].
  inversion H; subst. cbn. destruct (f a); [|auto].
  constructor; [auto|]. rewrite Forall_forall in *. intros x Hx.
  apply filter_In in Hx. apply H3. tauto.
Qed.

(* ------------------------------------------------------------------ 4. the main structural theorem *)
Definition big_enough (min_n : Z) (ij : nat * nat) : bool := (min_n <=? run_size ij)%Z.

Theorem plateaus_are_maximal_runs_flags :
  forall (X : Type) (fl : list bool) (min_n : Z) (pts : list X),
    length pts = S (length fl) ->
    exists L, plateaus_spec (fun k => nth k fl false) (length pts - 1) min_n L
              /\ plateau_bins fl min_n pts = map (slice pts) L.
Proof.
  intros X fl min_n pts Hl.
  set (exc := fun k => nth k fl false).
  destruct (runs_seq exc (length fl) 0) as (j & rs & Hr & Hin & Hs).
  set (L0 := (0, j) :: rs) in *.
  assert (Hbound : forall ij, In ij L0 -> fst ij <= snd ij /\ snd ij < length pts).
  { intros [a b] H. apply Hin in H. destruct H as (_ & H2 & (H3 & _) & _). cbn. lia. }
  destruct pts as [|d ps] eqn:Epts; [discriminate|]. rewrite <- Epts in *.
  assert (Hruns : runs fl pts = map (slice pts) L0).
  { rewrite (list_as_map_nth _ d pts) at 1. rewrite Hl.
    rewrite (list_as_map_nth _ false fl) at 1. fold exc.
    rewrite runs_map, Hr, map_map. apply map_ext_in. intros ij Hij.
    destruct (Hbound ij Hij) as (Hb1 & Hb2).
    unfold iv, slice. apply map_nth_seq. lia. }
  exists (filter (big_enough min_n) L0). split.
  - split.
    + intros a b. rewrite filter_In. rewrite Hin, maximal_from_0.
      replace (length pts - 1) with (0 + length fl) by lia.
      unfold big_enough. rewrite Z.leb_le. tauto.
    + apply StronglySorted_filter. exact Hs.
  - rewrite plateau_bins_runs by exact Hl. rewrite Hruns.
    unfold size_filter. rewrite filter_map_comm. f_equal.
    apply filter_ext_in. intros ij Hij. destruct (Hbound ij Hij) as (Hb1 & Hb2).
    rewrite length_slice by assumption. reflexivity.
Qed.

(* the partition: with min_n <= 1 nothing is dropped and the bins concatenate to the input *)
Theorem bins_partition_input :
  forall (X : Type) (fl : list bool) (min_n : Z) (pts : list X),
    length pts = S (length fl) -> (min_n <= 1)%Z ->
    concat (plateau_bins fl min_n pts) = pts.
Proof.
  intros X fl min_n pts Hl Hm. rewrite plateau_bins_runs by exact Hl.
  unfold size_filter.
  assert (H : filter (fun b : list X => (min_n <=? Z.of_nat (length b))%Z) (runs fl pts) = runs fl pts).
  { pose proof (runs_nonempty X pts fl) as Hne.
    induction (runs fl pts) as [|r rs IH]; [reflexivity|].
    inversion Hne; subst. cbn [filter].
    destruct r as [|x r]; [congruence|]. cbn [length].
    replace (min_n <=? Z.of_nat (S (length r)))%Z with true by lia.
    f_equal. apply IH. assumption. }
  rewrite H. apply concat_runs. exact Hl.
Qed.

(* ------------------------------------------------------------------ 5. the specification determines the result *)
Lemma sorted_same_elements_eq : forall (l1 l2 : list (nat * nat)),
  Forall (fun a => fst a <= snd a) l1 -> Forall (fun a => fst a <= snd a) l2 ->
  StronglySorted before l1 -> StronglySorted before l2 ->
  (forall x, In x l1 <-> In x l2) -> l1 = l2.
Proof.
  induction l1 as [|a l1 IH]; intros l2 F1 F2 S1 S2 Hin.
  - destruct l2 as [|b l2]; [reflexivity|]. exfalso. apply (Hin b). left. reflexivity.
  - destruct l2 as [|b l2]; [exfalso; apply (Hin a); left; reflexivity|].
    inversion F1 as [|? ? Fa F1']; inversion F2 as [|? ? Fb F2']; subst.
    inversion S1 as [|? ? S1' Ha]; inversion S2 as [|? ? S2' Hb]; subst.
    rewrite Forall_forall in Ha, Hb.
    assert (Eab : a = b).
    { assert (Ia : In a (b :: l2)) by (apply Hin; left; reflexivity).
      assert (Ib : In b (a :: l1)) by (apply Hin; left; reflexivity).
      destruct Ia as [E|Ia]; [auto|]. destruct Ib as [E|Ib]; [auto|].
      apply Hb in Ia. apply Ha in Ib. unfold before in *. lia. }
    subst b. f_equal. apply IH; auto.
    intros x. split; intros Hx.
    + assert (Ix : In x (a :: l2)) by (apply Hin; right; exact Hx).
      destruct Ix as [E|Ix]; [|exact Ix]. subst x. apply Ha in Hx. unfold before in Hx. lia.
    + assert (Ix : In x (a :: l1)) by (apply Hin; right; exact Hx).
      destruct Ix as [E|Ix]; [|exact Ix]. subst x. apply Hb in Hx. unfold before in Hx. lia.
Qed.

Theorem plateaus_spec_unique : forall exc last min_n L1 L2,
  plateaus_spec exc last min_n L1 -> plateaus_spec exc last min_n L2 -> L1 = L2.
Proof.
  intros exc last min_n L1 L2 (H1 & S1) (H2 & S2).
  assert (F : forall L, (forall i j, In (i, j) L <-> maximal_run exc last i j /\ (min_n <= run_size (i, j))%Z) ->
                        Forall (fun a => fst a <= snd a) L).
  { intros L H. rewrite Forall_forall. intros [i j] Hx. apply H in Hx.
    destruct Hx as ((_ & (Hle & _) & _) & _). exact Hle. }
  apply sorted_same_elements_eq; auto.
  intros [i j]. rewrite H1, H2. tauto.
Qed.

Lemma maximal_run_ext : forall exc1 exc2 last i j,
  (forall k, k < last -> exc1 k = exc2 k) -> maximal_run exc1 last i j -> maximal_run exc2 last i j.
Proof.
  intros exc1 exc2 last i j He (H1 & (H2 & H3) & H4 & H5). unfold maximal_run, is_run.
  repeat split; auto.
  - intros k Hk. rewrite <- He by lia. apply H3. exact Hk.
  - destruct H4 as [H4|H4]; [left; exact H4|].
    destruct (Nat.eq_dec i 0) as [E|E]; [left; exact E|right]. rewrite <- He by lia. exact H4.
  - destruct H5 as [H5|H5]; [left; exact H5|].
    destruct (Nat.eq_dec j last) as [E|E]; [left; exact E|right]. rewrite <- He by lia. exact H5.
Qed.

Lemma plateaus_spec_ext : forall exc1 exc2 last min_n L,
  (forall k, k < last -> exc1 k = exc2 k) -> plateaus_spec exc1 last min_n L -> plateaus_spec exc2 last min_n L.
Proof.
  intros exc1 exc2 last min_n L He (H & S). split; [|exact S].
  intros i j. rewrite H. split; intros (Hm & Hs); split; auto.
  - eapply maximal_run_ext; [|exact Hm]. exact He.
  - eapply maximal_run_ext; [|exact Hm]. intros k Hk. symmetry. apply He. exact Hk.
Qed.
