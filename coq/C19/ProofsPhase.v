(* C19/ProofsPhase.v — filter_in_phase keeps f iff f is within rtol of an integer
   multiple of ref or ref is within rtol of an integer multiple of f (exact rationals). *)
From Coq Require Import List ZArith QArith Qabs Qround Bool Lia Lqa.
From Verif.C19 Require Import Carrier Model Spec.
Import ListNotations.
Local Open Scope Q_scope.

Lemma Qltb_lt : forall a b, Qltb a b = true <-> a < b.
Proof.
  intros a b. unfold Qltb. rewrite negb_true_iff. split.
  - intros H. apply Qnot_le_lt. intros Hle. apply Qle_bool_iff in Hle. congruence.
  - intros H. destruct (Qle_bool b a) eqn:E; [|reflexivity].
    apply Qle_bool_iff in E. exfalso. apply (Qlt_not_le _ _ H E).
Qed.

Lemma Qrint_cases : forall q,
  let f := Qfloor q in
  (Qrint q = inject_Z f /\ q - inject_Z f <= 1 # 2)
  \/ (Qrint q = inject_Z (f + 1) /\ 1 # 2 <= q - inject_Z f).
Proof.
  intros q f. unfold Qrint. fold f.
  destruct (Qltb (q - inject_Z f) (1 # 2)) eqn:E1.
  - left. split; [reflexivity|]. apply Qltb_lt in E1. apply Qlt_le_weak. exact E1.
  - destruct (Qltb (1 # 2) (q - inject_Z f)) eqn:E2.
    + right. split; [reflexivity|]. apply Qltb_lt in E2. apply Qlt_le_weak. exact E2.
    + assert (H1 : ~ q - inject_Z f < 1 # 2) by (rewrite <- Qltb_lt; congruence).
      assert (H2 : ~ (1 # 2) < q - inject_Z f) by (rewrite <- Qltb_lt; congruence).
      apply Qnot_lt_le in H1. apply Qnot_lt_le in H2.
      destruct (Z.even f); [left|right]; split; auto.
Qed.

(* sc.round returns a nearest integer: no integer is closer *)
Lemma Qrint_nearest : forall q n, Qabs (Qrint q - q) <= Qabs (q - inject_Z n).
Proof.
  intros q n.
  pose proof (Qfloor_le q) as Hlo. pose proof (Qlt_floor q) as Hhi.
  rewrite inject_Z_plus in Hhi. change (inject_Z 1) with 1 in Hhi.
  assert (Hn : (n <= Qfloor q)%Z \/ (Qfloor q + 1 <= n)%Z) by lia.
  assert (Hnq : inject_Z n <= inject_Z (Qfloor q) \/ inject_Z (Qfloor q) + 1 <= inject_Z n).
  { destruct Hn as [Hn|Hn]; [left|right].
    - rewrite <- Zle_Qle. exact Hn.
    - change 1 with (inject_Z 1). rewrite <- inject_Z_plus, <- Zle_Qle. exact Hn. }
  destruct (Qrint_cases q) as [(-> & Hd)|(-> & Hd)].
  - apply Qabs_case; intros ?; apply Qabs_case; intros ?; destruct Hnq; lra.
  - rewrite inject_Z_plus. change (inject_Z 1) with 1.
    apply Qabs_case; intros ?; apply Qabs_case; intros ?; destruct Hnq; lra.
Qed.

Lemma Qrint_integer : forall q, exists n, Qrint q = inject_Z n.
Proof.
  intros q. destruct (Qrint_cases q) as [(-> & _)|(-> & _)]; eexists; reflexivity.
Qed.

Lemma near_integer_iff : forall next (rtol q : Q),
  near_integer (QQ next) rtol q = true <-> exists n : Z, Qabs (q - inject_Z n) < rtol.
Proof.
  intros next rtol q. unfold near_integer. cbn. rewrite Qltb_lt. split.
  - intros H. destruct (Qrint_integer q) as (n & Hn). exists n.
    rewrite Hn in H.
    assert (E : Qabs (q - inject_Z n) == Qabs (inject_Z n - q)).
    { rewrite <- (Qabs_opp (inject_Z n - q)). apply Qabs_wd. ring. }
    eapply Qle_lt_trans; [|exact H]. apply Qle_lteq. right. exact E.
  - intros (n & H). eapply Qle_lt_trans; [apply (Qrint_nearest q n)|exact H].
Qed.

Theorem in_phase_iff : forall next (f ref rtol : Q),
  ~ ref == 0 ->
  (is_approximate_multiple (QQ next) f ref rtol = true <-> in_phase_spec f ref rtol).
Proof.
  intros next f ref rtol Href. unfold is_approximate_multiple, in_phase_spec.
  rewrite orb_true_iff, near_integer_iff.
  change (vdiv (QQ next) f ref) with (f / ref).
  change (vrecip (QQ next) (f / ref)) with (Qrecip (f / ref)).
  assert (Hz : f / ref == 0 <-> f == 0).
  { split; intros H.
    - assert (E : f == (f / ref) * ref) by (field; exact Href). rewrite E, H. ring.
    - rewrite H. field. exact Href. }
  unfold Qrecip. destruct (Qeq_bool (f / ref) 0) eqn:E.
  - apply Qeq_bool_iff in E. apply Hz in E. split.
    + intros [H|H]; [left; exact H|discriminate].
    + intros [H|(H & _)]; [left; exact H|contradiction].
  - assert (Hf : ~ f == 0).
    { intros H. apply Hz in H. apply Qeq_bool_iff in H. congruence. }
    rewrite near_integer_iff.
    assert (Einv : / (f / ref) == ref / f) by (field; split; assumption).
    split.
    + intros [H|(n & H)]; [left; exact H|right]. split; [exact Hf|].
      exists n. rewrite <- Einv. exact H.
    + intros [H|(_ & n & H)]; [left; exact H|right].
      exists n. rewrite Einv. exact H.
Qed.

(* the two degenerate members of the family, made explicit *)
(* f = 0 is kept (0 = 0 * ref); the reciprocal branch is not used (1/0 is not a number) *)
Corollary in_phase_zero : forall next (ref rtol : Q), ~ ref == 0 -> 0 < rtol ->
  is_approximate_multiple (QQ next) 0 ref rtol = true.
Proof.
  intros next ref rtol Href Hr. apply in_phase_iff; [exact Href|]. left. exists 0%Z.
  assert (E : 0 / ref - inject_Z 0 == 0) by (unfold inject_Z; field; exact Href).
  rewrite E. exact Hr.
Qed.

(* n = 0 on either side: |f| < rtol*|ref| (f ~ 0 * ref) and |f| > |ref|/rtol (ref ~ 0 * f) are kept *)
Corollary in_phase_n0 : forall next (f ref rtol : Q), ~ ref == 0 -> ~ f == 0 ->
  (Qabs (f / ref) < rtol \/ Qabs (ref / f) < rtol) ->
  is_approximate_multiple (QQ next) f ref rtol = true.
Proof.
  intros next f ref rtol Href Hf H. apply in_phase_iff; [exact Href|].
  destruct H as [H|H]; [left|right; split; [exact Hf|]]; exists 0%Z.
  - assert (E : f / ref - inject_Z 0 == f / ref) by (unfold inject_Z; field; exact Href).
    rewrite E. exact H.
  - assert (E : ref / f - inject_Z 0 == ref / f) by (unfold inject_Z; field; exact Hf).
    rewrite E. exact H.
Qed.

(* filter_in_phase keeps exactly the in-phase elements, in order, each unchanged *)
Theorem filter_in_phase_spec : forall (K : Type) next (ref rtol : Q) (freq : list (K * Q)),
  ~ ref == 0 ->
  (forall kf, In kf (filter_in_phase (QQ next) ref rtol freq) <-> In kf freq /\ in_phase_spec (snd kf) ref rtol)
  /\ exists mask, length mask = length freq
       /\ filter_in_phase (QQ next) ref rtol freq = map fst (filter snd (combine freq mask)).
Proof.
  intros K next ref rtol freq Href. split.
  - intros kf. unfold filter_in_phase. rewrite filter_In, in_phase_iff by exact Href. tauto.
  - exists (map (fun kf => is_approximate_multiple (QQ next) (snd kf) ref rtol) freq).
    split; [apply map_length|].
    unfold filter_in_phase. induction freq as [|a l IH]; [reflexivity|].
    cbn [map combine filter snd].
    rewrite IH. destruct (is_approximate_multiple _ _ _ _); reflexivity.
Qed.
