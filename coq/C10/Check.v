(* C10/Check.v — what the correspondence run evaluates for every observed case (vm_compute).
   For one DiskChopper (exact rational inputs, angles in turns, frequencies in Hz, times in s) and what
   the implementation did with it:
     - the validation decision against the SPECIFICATION (Oracle.slits_disjointb, proved equivalent to
       Spec.slits_disjoint) and against the model variant the tree implements;
     - the ratio decision and the reported times against Model (tie B);
     - a SIMULATION of the disk on the implementation's own intervals: open at the midpoint and just
       inside both ends, closed just outside, open < close, no two intervals share an instant, and the
       sorted list of intervals equals the sorted list of maximal openings of the specification that
       meet the covered time span;
     - the same for the cascade expansion over several pulses.
   The result is "" (agreement) or the comma-separated reasons.  Definitions only. *)
From Coq Require Import QArith Qabs Qround ZArith List Bool String.
From Verif.C10 Require Import Spec Model Oracle OracleFx.
Import ListNotations.
Open Scope Q_scope.

Record ccase := mkcase {
  c_f : Q;                      (* rotation frequency, Hz, signed *)
  c_fp : Q;                     (* pulse frequency, Hz *)
  c_B : Q;                      (* (beam_position + phase), turns *)
  c_M : Q;                      (* magnitude of the angles involved, turns (rounding-error budget) *)
  c_slits : list slit;          (* turns *)
  c_p : nat;                    (* npulses *)
  c_acc : bool;                 (* DiskChopper(...) was constructed *)
  c_times : option (list Q * list Q * list Q);   (* open, close, duration in s; None = ValueError (ratio) *)
  c_casc : option (list Q * list Q);             (* cascade time_open, time_close in s; None = not compared *)
  c_fs : Q;                     (* frequency as stored (its own unit) *)
  c_ps : Q;                     (* pulse frequency as stored (its own unit) *)
  c_conv : Q;                   (* pulse-frequency unit / frequency unit *)
  c_pint : bool;                (* pulse frequency has an integer dtype *)
  c_terr : bool                 (* the time methods raised something other than ValueError *)
}.

Definition flag (ok : bool) (why : string) : string := if ok then EmptyString else (why ++ ",")%string.

Definition disk_of (c : ccase) : disk := mkdisk (c_f c) (c_B c) (c_slits c).
Definition tolq (c : ccase) (t : Q) : Q :=
  (1 # 1000000000000) * Qabs t + (1 # 10000000000000) * c_M c / Qabs (c_f c).
Definition closeq (c : ccase) (a b : Q) : bool := Qle_bool (Qabs (a - b)) (tolq c b).
Fixpoint close_list (c : ccase) (xs ys : list Q) : bool :=
  match xs, ys with
  | [], [] => true
  | x :: xs', y :: ys' => closeq c x y && close_list c xs' ys'
  | _, _ => false
  end.
Definition same_length {A B} (a : list A) (b : list B) : bool := Nat.eqb (List.length a) (List.length b).

(* ---- simulation of the disk on a list of reported intervals.
   Sample points are chosen in DISK ANGLE on the grid of 2^-64 turn (OracleFx): x_o, x_c = beta at the
   reported open / close time rounded down to the grid (so x_o = beta(t') for an instant t' within 2^-64
   rotation of the reported one); the chopper must be open at the angles 2^-30 turn (1e-9 rotation) inside
   either end and half-way, and closed 2^-30 turn outside either end.  open_at_fx on grid slits is proved
   equivalent to the specification (OracleFx.open_at_fx_spec / open_at_fx_is_open). *)
Definition dl30 : Z := 17179869184.            (* 2^34 grid steps = 2^-30 turn *)
Definition ends (d : disk) (oc : Q * Q) : Z * Z :=
  let xo := to_grid (beta d (fst oc)) in
  let xc := to_grid (beta d (snd oc)) in
  if (xo <=? xc)%Z then (xo, xc) else (xc, xo).
(* (open at the three inner sample angles, closed at the two outer ones) *)
Definition probe (gsl : list (Z * Z)) (lh : Z * Z) : bool * bool :=
  let (lo, hi) := lh in
  (open_at_fx gsl ((lo + hi) / 2)%Z && open_at_fx gsl (lo + dl30)%Z && open_at_fx gsl (hi - dl30)%Z,
   negb (open_at_fx gsl (lo - dl30)%Z) && negb (open_at_fx gsl (hi + dl30)%Z)).
Definition slits_on_grid (sl : list slit) : bool := forallb (fun s => on_grid (sb s) && on_grid (se s)) sl.
Definition ordered (oc : Q * Q) : bool := Qltb (fst oc) (snd oc).

Fixpoint ins_iv (x : Q * Q) (l : list (Q * Q)) : list (Q * Q) :=
  match l with
  | [] => [x]
  | y :: r => if Qle_bool (fst x) (fst y) then x :: l else y :: ins_iv x r
  end.
Definition sort_iv (l : list (Q * Q)) : list (Q * Q) := fold_right ins_iv [] l.

(* no two intervals share an instant: after sorting by open time, every interval closes before the next opens *)
Fixpoint adjacent_sep (l : list (Q * Q)) : bool :=
  match l with
  | x :: r => match r with
              | y :: _ => Qltb (snd x) (fst y) && adjacent_sep r
              | [] => true
              end
  | [] => true
  end.
Definition no_twice (l : list (Q * Q)) : bool := adjacent_sep (sort_iv l).

Definition qmin_list (d : Q) (l : list Q) : Q := fold_right (fun x a => if Qle_bool x a then x else a) d l.
Definition qmax_list (d : Q) (l : list Q) : Q := fold_right (fun x a => if Qle_bool a x then x else a) d l.

(* all slits lie within one turn of the smallest begin: then the reported span is contiguous in disk angle *)
Definition one_turn (sl : list slit) : bool :=
  match sl with
  | [] => true
  | s :: _ => Qltb (qmax_list (se s) (map se sl) - qmin_list (sb s) (map sb sl)) 1
  end.

(* ---- the sorted list of maximal openings of the specification, in DISK ANGLE on the grid:
   the openings are the whole-turn images [b + m G, e + m G] of the slits; beta is monotone in t, so the
   reported intervals, mapped to the angles at their ends and sorted, must be exactly the images that
   meet the covered angular span [lo, hi]. *)
Fixpoint ins_z (x : Z * Z) (l : list (Z * Z)) : list (Z * Z) :=
  match l with
  | [] => [x]
  | y :: r => if (fst x <=? fst y)%Z then x :: l else y :: ins_z x r
  end.
Definition sort_z (l : list (Z * Z)) : list (Z * Z) := fold_right ins_z [] l.
Definition zmin_list (d : Z) (l : list Z) : Z := fold_right Z.min d l.
Definition zmax_list (d : Z) (l : list Z) : Z := fold_right Z.max d l.
Definition spec_images (gsl : list (Z * Z)) (lo hi : Z) : list (Z * Z) :=
  sort_z (flat_map (fun be =>
    let mlo := (- ((snd be - lo) / G))%Z in          (* least m with lo <= e + m G *)
    let mhi := ((hi - fst be) / G)%Z in              (* greatest m with b + m G <= hi *)
    map (fun m => (fst be + m * G, snd be + m * G)%Z) (zrange mlo (Z.to_nat (mhi - mlo + 1)))) gsl).
Fixpoint close_zs (tol : Z) (xs ys : list (Z * Z)) : bool :=
  match xs, ys with
  | [], [] => true
  | x :: xs', y :: ys' =>
      (Z.abs (fst x - fst y) <=? tol)%Z && (Z.abs (snd x - snd y) <=? tol)%Z && close_zs tol xs' ys'
  | _, _ => false
  end.
(* angular tolerance in grid steps: 1e-13 * M turns + 1e-12 * |f| * (largest |t|) turns, + 2 steps for the rounding *)
Definition tol_grid (c : ccase) (l : list (Q * Q)) : Z :=
  let tmax := qmax_list 0 (map (fun oc => Qabs (snd oc)) l) in
  (Qceiling (((1 # 10000000000000) * c_M c + (1 # 1000000000000) * Qabs (c_f c) * tmax) * (G # 1)) + 2)%Z.
Definition openings_match (c : ccase) (l : list (Q * Q)) (angles : list (Z * Z)) : bool :=
  match angles with
  | [] => true
  | x :: _ =>
      let lo := zmin_list (fst x) (map fst angles) in
      let hi := zmax_list (snd x) (map snd angles) in
      let tol := tol_grid c l in
      close_zs tol (sort_z angles) (spec_images (map grid_slit (c_slits c)) (lo + tol) (hi - tol))
  end.

Definition simulate (c : ccase) (pre : string) (l : list (Q * Q)) : string :=
  let d := disk_of c in
  let proper_slits := forallb (fun s => Qltb (sb s) (se s)) (c_slits c) in
  let gsl := map grid_slit (c_slits c) in
  let angles := map (ends d) l in
  let pr := map (probe gsl) angles in
  let a := forallb fst pr in
  let b := forallb snd pr in
  let n := no_twice l in
  (flag (slits_on_grid (c_slits c)) "slit-angles-not-on-the-grid"
   ++ flag (negb proper_slits || forallb ordered l) (pre ++ "open-not-before-close")
   ++ flag (negb proper_slits || a) (pre ++ "closed-inside-reported-interval")
   ++ flag (negb proper_slits || b) (pre ++ "open-just-outside-reported-interval")
   ++ flag n (pre ++ "opening-reported-twice")
   ++ flag (negb (proper_slits && a && b && n && one_turn (c_slits c)) || openings_match c l angles)
           (pre ++ "openings-differ-from-specification"))%string.

(* ---- model side *)
Definition full_circleb (sl : list slit) : bool :=
  match sl with [s] => Qeq_bool (se s - sb s) 1 | _ => false end.
(* what the specification admits: disjoint on the circle, or the always-open single full-turn slit *)
Definition spec_valid (sl : list slit) : bool := begin_le_end sl && (slits_disjointb sl || full_circleb sl).
Definition spec_disjoint (sl : list slit) : bool := begin_le_end sl && slits_disjointb sl.
Definition model_valid (vfix : bool) (sl : list slit) : bool :=
  if vfix then check_edges_fixed sl else check_edges_current sl.
Definition pulses_per_rotation (f fp : Q) : Z := Z.max 1 (round_half_even (/ quot f fp)).
Definition model_cascade (cfix : bool) (c : ccase) (n : Z) : list (Q * Q) :=
  if cfix then cascade_fixed (disk_of c) n (pulses_per_rotation (c_f c) (c_fp c)) (c_p c)
  else cascade_current (disk_of c) (c_fp c) n (c_p c).

Definition R_rounded : string := "ratio-int-pulse-frequency-rounded,"%string.
Definition R_terr : string := "times-raise-unexpected-error,"%string.
Definition R_acc : string := "ratio-accepted-model-rejects,"%string.
Definition R_rej : string := "ratio-rejected-model-accepts,"%string.
(* vfix / cfix: which variant of the validation / of the cascade expansion the tree was found to implement *)
Definition check (vfix cfix : bool) (c : ccase) : string :=
  let sl := c_slits c in
  let sv := spec_valid sl in
  let sd := spec_disjoint sl in       (* the simulation needs gaps between the openings *)
  let v :=
    (flag (negb (c_acc c && negb sv))
          (if check_edges_current sl then "validation-accepts-wrap-overlap" else "validation-accepts-overlap")
     ++ flag (negb (negb (c_acc c) && sv)) "validation-rejects-disjoint-slits"
     ++ flag (Bool.eqb (c_acc c) (model_valid vfix sl)) "validation-differs-from-model")%string in
  let qc := quot_coded (c_fs c) (c_ps c) (c_conv c) (c_pint c) in
  (* an integer-dtype pulse frequency whose unit conversion is not exact: the code as found rounds it first *)
  let rounded := c_pint c && negb (Qeq_bool (convert_stored true (c_ps c) (c_conv c)) (c_ps c * c_conv c)) in
  let blame (generic : string) (impl_accepts : bool) : string :=
    if rounded && Bool.eqb impl_accepts (coded_accepts qc) then R_rounded else generic in
  if negb (c_acc c) then v
  else if c_terr c then
    (v ++ (if rounded && match qc with None => true | Some _ => false end
           then R_rounded else R_terr))%string
  else
    match source_phase_factor (c_f c) (c_fp c), c_times c with
    | None, None => v
    | None, Some _ => (v ++ blame R_acc true)%string
    | Some _, None => (v ++ blame R_rej false)%string
    | Some n, Some (o, cl, du) =>
        let d := disk_of c in
        let t :=
          (flag (close_list c o (opens d n)) "open-times-differ-from-model"
           ++ flag (close_list c cl (closes d n)) "close-times-differ-from-model"
           ++ flag (close_list c du (durations d n)) "durations-differ-from-model"
           ++ (if sd && same_length o cl then simulate c "" (combine o cl) else ""))%string in
      (* both accept; the OBSERVED times decide.  If they differ from the specification and the rounding
         variant of the code (integer pulse frequency rounded in the chopper's unit) predicts another
         repetition count, that is named as the cause *)
      if rounded && negb (match coded_repetitions qc with Some m => Z.eqb m n | None => false end)
         && negb (String.eqb t "")
      then (v ++ R_rounded)%string
      else
        let k :=
          match c_casc c with
          | None => EmptyString
          | Some (co, cc) =>
              let m := model_cascade cfix c n in
              (flag (close_list c co (map fst m) && close_list c cc (map snd m)) "cascade-differs-from-model"
               ++ (if sd && same_length co cc then simulate c "cascade-" (combine co cc) else ""))%string
          end in
        (v ++ t ++ k)%string
    end.
