(* C10/Model.v — hand-written executable model of
   scippneutron.chopper.disk_chopper.DiskChopper (time_offset_angle_at_beam,
   time_offset_open/close, open_duration, _apply_angle_repetitions,
   _source_phase_factor, _is_int_or_inverse_int, _check_edges,
   _check_edge_overlap) and scippneutron.tof.chopper_cascade.Chopper.from_disk_chopper,
   over exact rationals with angles in turns.  The structure follows the Python
   statements (quoted in the comments).  Definitions only; tied to the
   implementation by the correspondence run. *)
From Coq Require Import QArith Qabs Qround ZArith List Bool.
From Verif.C10 Require Import Spec.
Import ListNotations.
Open Scope Q_scope.

Definition Qltb (a b : Q) : bool := negb (Qle_bool b a).

(* is_clockwise: self.frequency < 0 *)
Definition clockwise (f : Q) : bool := Qltb f 0.

(* _apply_angle_repetitions, one element:  clockwise: angle + k turns;  else: angle - k turns
   time_offset_angle_at_beam:  angle = beam_position + phase - angle;
                               if not clockwise: angle = 2 pi + angle;   return angle / angular_frequency *)
Definition t_at (f B theta : Q) (k : Z) : Q :=
  if clockwise f then (B - (theta + inject_Z k)) / f
  else (1 + (B - (theta - inject_Z k))) / f.

(* sc.arange(dim, -1, n_repetitions) *)
Definition reps (n : Z) : list Z := map (fun i => Z.of_nat i - 1)%Z (seq 0 (Z.to_nat (n + 1))).

(* time_offset_open: slit_begin if clockwise else slit_end;  time_offset_close: the other edge *)
Definition edge_open (f : Q) (s : slit) : Q := if clockwise f then sb s else se s.
Definition edge_close (f : Q) (s : slit) : Q := if clockwise f then se s else sb s.

Definition entry (d : disk) (k : Z) (s : slit) : Q * Q :=
  (t_at (freq d) (boff d) (edge_open (freq d) s) k, t_at (freq d) (boff d) (edge_close (freq d) s) k).

(* flatten(dims=[repetition, slit]): repetition is the outer index *)
Definition reported (d : disk) (n : Z) : list (Q * Q) :=
  flat_map (fun k => map (entry d k) (slits d)) (reps n).
Definition opens (d : disk) (n : Z) : list Q := map fst (reported d n).
Definition closes (d : disk) (n : Z) : list Q := map snd (reported d n).
(* open_duration = time_offset_close - time_offset_open *)
Definition durations (d : disk) (n : Z) : list Q := map (fun oc => snd oc - fst oc) (reported d n).

(* ---- _is_int_or_inverse_int(quot, rtol=1e-8), _source_phase_factor *)
Definition qround (x : Q) : Z := Qfloor (x + (1 # 2)).          (* a nearest integer; ties are immaterial below *)
Definition dist_int (x : Q) : Q := Qabs (inject_Z (qround x) - x).
Definition rtol : Q := 1 # 100000000.
Definition is_int_or_inverse_int (tol x : Q) : bool :=
  Qltb (dist_int x) tol || Qltb (dist_int (/ x)) tol.
(* Python round(): to nearest, ties to even *)
Definition round_half_even (x : Q) : Z :=
  let fl := Qfloor x in
  let r := x - inject_Z fl in
  if Qltb r (1 # 2) then fl
  else if Qltb (1 # 2) r then (fl + 1)%Z
  else if Z.even fl then fl else (fl + 1)%Z.
Definition Qmax2 (a b : Q) : Q := if Qle_bool a b then b else a.
Definition quot (f fp : Q) : Q := Qabs f / fp.
(* None = ValueError *)
Definition source_phase_factor (f fp : Q) : option Z :=
  if Qle_bool fp 0 then None
  else if is_int_or_inverse_int rtol (quot f fp) then Some (round_half_even (Qmax2 (quot f fp) 1))
  else None.

(* the quotient AS CODED, from the STORED values: `pulse_frequency.to(unit=frequency.unit)` keeps the dtype, and
   scipp rounds an integer-dtype variable to the nearest integer (ties away from zero) when converting its unit
   (probed: 1500 Hz -> 2 kHz, 2500 Hz -> 3 kHz, -1500 Hz -> -2 kHz, 850 1/min -> 14 Hz); `frequency / pulse_frequency`
   is a true division (float64) for every dtype.  fs, ps: stored values; conv: pulse unit / frequency unit.
   None: the converted pulse frequency is 0 (the quotient is infinite: accepted through its inverse 0, then
   round(inf) raises OverflowError). *)
Definition round_away (x : Q) : Z :=
  if Qle_bool 0 x then Qfloor (x + (1 # 2)) else (- Qfloor (- x + (1 # 2)))%Z.
Definition convert_stored (is_int : bool) (x conv : Q) : Q :=
  if is_int then inject_Z (round_away (x * conv)) else x * conv.
Definition quot_coded (fs ps conv : Q) (p_is_int : bool) : option Q :=
  let p := convert_stored p_is_int ps conv in
  if Qeq_bool p 0 then None else Some (Qabs fs / p).
Definition coded_accepts (q : option Q) : bool :=
  match q with None => true | Some x => is_int_or_inverse_int rtol x end.
Definition coded_repetitions (q : option Q) : option Z :=
  match q with None => None | Some x => Some (round_half_even (Qmax2 x 1)) end.
(* repaired: the pulse frequency is converted in float64, so the quotient is the physical one (source_phase_factor) *)

(* ---- _check_edges / _check_edge_overlap *)
Definition begin_le_end (sl : list slit) : bool := forallb (fun s => Qle_bool (sb s) (se s)) sl.
Fixpoint insert (s : slit) (l : list slit) : list slit :=
  match l with
  | [] => [s]
  | x :: r => if Qle_bool (sb s) (sb x) then s :: l else x :: insert s r
  end.
Definition sort_by_begin (l : list slit) : list slit := fold_right insert [] l.
(* not any(begin[1:] <= end[:-1]) *)
Fixpoint adjacent_ok (l : list slit) : bool :=
  match l with
  | x :: r => match r with
              | y :: _ => negb (Qle_bool (sb y) (se x)) && adjacent_ok r
              | [] => true
              end
  | [] => true
  end.
(* the tree as found: edges compared as numbers *)
Definition check_edges_current (sl : list slit) : bool :=
  begin_le_end sl && adjacent_ok (sort_by_begin sl).
(* repaired: begin reduced modulo one turn (end moves with it), then the last slit is also compared
   with the first one a turn later *)
Definition normalize (s : slit) : slit :=
  mkslit (sb s - inject_Z (Qfloor (sb s))) (se s - inject_Z (Qfloor (sb s))).
Definition wrap_ok (l : list slit) : bool :=
  match l with
  | [] => true
  | [x] => Qle_bool (se x) (sb x + 1)            (* a single slit may span exactly one full turn *)
  | x :: _ => negb (Qle_bool (sb x + 1) (se (last l x)))
  end.
Definition check_edges_fixed (sl : list slit) : bool :=
  begin_le_end sl &&
  (let l := sort_by_begin (map normalize sl) in adjacent_ok l && wrap_ok l).

(* ---- Chopper.from_disk_chopper(disk_chopper, pulse_frequency, npulses) *)
Definition zrange (lo : Z) (n : nat) : list Z := map (fun i => lo + Z.of_nat i)%Z (seq 0 n).
(* the tree as found: offsets = arange(npulses) * (1/pulse_frequency); (offsets + t).flatten(): pulse is the outer index *)
Definition cascade_current (d : disk) (fp : Q) (n : Z) (p : nat) : list (Q * Q) :=
  flat_map (fun j => map (fun oc => (inject_Z j / fp + fst oc, inject_Z j / fp + snd oc)) (reported d n))
           (zrange 0 p).
(* repaired: rotate the disk for the rotations that npulses pulses last:
   n rotations per pulse (n >= 1), one rotation lasts ppr pulses (ppr >= 1); one of n, ppr is 1 *)
Definition zceil_div (a b : Z) : Z := (- ((- a) / b))%Z.
Definition cascade_rotations (n ppr : Z) (p : nat) : Z := zceil_div (Z.of_nat p * n) ppr.
Definition cascade_fixed (d : disk) (n ppr : Z) (p : nat) : list (Q * Q) :=
  reported d (cascade_rotations n ppr p).
