(* C10/Spec.v — what "the chopper is open" means, independent of any time formula.

   Angles are measured in TURNS (deg/360, rad/(2 pi)), times in seconds, the
   rotation frequency f in turns per second, signed as in DiskChopper.frequency
   (f > 0: anticlockwise, f < 0: clockwise, seen from the source).

   Derivation of [beta] from the module documentation of
   scippneutron.chopper.disk_chopper: at the TDC timestamp t0 (+ delay) the
   point of the disk at angle beam_position is in the beam.  All angles are
   measured anticlockwise.  A disk turning anticlockwise with angular speed
   |w| carries the point with disk angle th to the laboratory angle
   th + |w| (t - t0); clockwise to th - |w| (t - t0).  With w signed
   (w = -|w| clockwise) the disk angle that is in the beam at time t is in both
   cases   beam_position - w (t - t0).   Times are counted from the pulse time
   T0 and phase = w (t0 + delay - T0), hence
        beta(t) = beam_position + phase - w t        (mod one turn).
   In turns: beta(t) = B - f t with B = (beam_position + phase) / turn.

   A slit is the closed angular interval [sb, se] on the disk (se may exceed
   one turn when the slit spans top-dead-centre).  The chopper is open at t iff
   beta(t) lies in some slit modulo one turn.  Definitions only. *)
From Coq Require Import QArith Qabs ZArith List.
Import ListNotations.
Open Scope Q_scope.

Record slit := mkslit { sb : Q; se : Q }.
Record disk := mkdisk { freq : Q; boff : Q; slits : list slit }.

Definition beta (d : disk) (t : Q) : Q := boff d - freq d * t.

(* the disk angle x lies in the slit, modulo whole turns *)
Definition in_slit (s : slit) (x : Q) : Prop :=
  exists m : Z, sb s <= x + inject_Z m /\ x + inject_Z m <= se s.

Definition is_open (d : disk) (t : Q) : Prop :=
  exists s, In s (slits d) /\ in_slit s (beta d t).

(* ---- well-formed slit sets *)
Definition proper (s : slit) : Prop := sb s < se s.
(* two slits share no point of the circle: no whole-turn shift of one meets the other *)
Definition cdisj (s s' : slit) : Prop :=
  forall m : Z, se s + inject_Z m < sb s' \/ se s' < sb s + inject_Z m.
(* a slit does not meet itself around the circle *)
Definition narrow (s : slit) : Prop := se s - sb s < 1.

Fixpoint all_pairs {A} (R : A -> A -> Prop) (l : list A) : Prop :=
  match l with
  | [] => True
  | x :: r => Forall (R x) r /\ all_pairs R r
  end.

(* pairwise disjoint ON THE CIRCLE (positions, not values: a slit listed twice overlaps itself) *)
Definition slits_disjoint (sl : list slit) : Prop :=
  all_pairs cdisj sl /\ Forall narrow sl.

(* the degenerate chopper that is always open: a single slit spanning exactly one turn
   (upstream tests construct it: slit_edges = [0, 360] deg) *)
Definition full_circle (sl : list slit) : Prop := exists s, sl = [s] /\ se s - sb s == 1.

(* ---- frequency ratio *)
Definition near_int (x tol : Q) : Prop := exists z : Z, Qabs (x - inject_Z z) < tol.

(* a time interval [o, c] *)
Definition inside (oc : Q * Q) (t : Q) : Prop := fst oc <= t /\ t <= snd oc.

(* two reported intervals never share an instant *)
Definition no_common_instant (p q : Q * Q) : Prop := forall t, ~ (inside p t /\ inside q t).
(* a list of reported intervals: each one lies inside an opening of the disk, none is listed twice *)
Definition openings_once (d : disk) (l : list (Q * Q)) : Prop :=
  (forall oc, In oc l -> forall t, inside oc t -> is_open d t) /\ all_pairs no_common_instant l.
