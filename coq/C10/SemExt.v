(* C10/SemExt.v — the few extra primitives the translated DiskChopper methods need
   (same style as Sem/Val.v: functions over [val O], definitions only).

   [self] is a VDict of the dataclass fields plus the values of the properties the body reads
   (is_clockwise, angular_frequency: Tie.v fills them with the TRANSLATED property bodies) and
   "rep_k": the repetition index of the ONE element of the flattened result that is modelled
   (Val.v models a scipp variable by one element; the order of the elements is Model.reported and is
   tied by the correspondence run). *)
From Coq Require Import ZArith String List Bool.
From Verif.Sem Require Import Field Val.
Import ListNotations.
Open Scope string_scope.
Open Scope Z_scope.

Section Ext.
Variable O : Fops.

(* attribute access: dataclass fields of self, `.value` of a 0-d bool, otherwise Val.py_attr *)
Definition py_attr (v : val O) (name : string) : val O :=
  match v with
  | VDict _ l => match assoc name l with Some x => x | None => VErr O "AttributeError" end
  | VBool _ b => if String.eqb name "value" then v else VErr O "AttributeError"
  | _ => Val.py_attr O v name
  end.

(* x.to(unit=..., dtype='float64', copy=...): the dtype may be given by name *)
Definition dtype_of (v : val O) : val O :=
  match v with
  | VStr _ s => if String.eqb s "float64" then VDType O DF64
                else if String.eqb s "float32" then VDType O DF32
                else if String.eqb s "int64" then VDType O DI64
                else VErr O "DTypeError"
  | _ => v
  end.
Definition m_to10 (x unit dt copy : val O) : val O := m_to O x unit (dtype_of dt) copy.

Definition sc_constants_pi : val O := const_pi O.

(* self._apply_angle_repetitions(angle=..., n_repetitions=...), element "rep_k" = k of the result:
     repetition_offsets = sc.arange(dim, -1, n_repetitions, unit='rad') * (2 * np.pi)      -> k rad * (2 pi)
     clockwise:  angle + repetition_offsets.to(unit=angle.unit)    else:  angle - ...
   (hand-modelled: the body uses uuid4 / transpose / flatten; validated by the correspondence run) *)
Definition m_apply_angle_repetitions (self angle n : val O) : val O :=
  let k := py_attr self "rep_k" in
  let off := sc_to_unit O (vmul O (sc_scalar O k (VStr O "rad") (VNone O)) (vmul O (VInt O 2) (np_pi O)))
                        (Val.py_attr O angle "unit") (VBool O true) in
  vif O (py_attr self "is_clockwise") (vadd O angle off) (vsub O angle off).

(* calls of other methods of self stay symbolic: Tie.v states WHICH call is made with WHICH arguments *)
Definition m_time_offset_angle_at_beam (self angle n : val O) : val O :=
  VTuple O [VStr O "self.time_offset_angle_at_beam"; angle; n].
Definition m_source_phase_factor (self fp : val O) : val O :=
  VTuple O [VStr O "self._source_phase_factor"; fp].
End Ext.
