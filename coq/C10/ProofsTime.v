(* C10/ProofsTime.v — the reported times against the rotating-disk specification:
   open < close, open throughout, duration, completeness over the covered rotations. *)
From Coq Require Import QArith Qabs Qround ZArith List Bool Lia Lqa FinFun.
From Verif.C10 Require Import Spec Model.
Import ListNotations.
Open Scope Q_scope.

Lemma Qltb_true a b : Qltb a b = true <-> a < b.
Proof.
  unfold Qltb. rewrite negb_true_iff. split; intro H.
  - apply Qnot_le_lt. intro L. apply Qle_bool_iff in L. congruence.
  - destruct (Qle_bool b a) eqn:E; auto. apply Qle_bool_iff in E. exfalso. apply (Qlt_not_le _ _ H E).
Qed.
Lemma Qltb_false a b : Qltb a b = false <-> b <= a.
Proof.
  unfold Qltb. rewrite negb_false_iff. apply Qle_bool_iff.
Qed.
Lemma Qleb_false a b : Qle_bool a b = false <-> b < a.
Proof.
  split; intro H.
  - apply Qnot_le_lt. intro L. apply Qle_bool_iff in L. congruence.
  - destruct (Qle_bool a b) eqn:E; auto. apply Qle_bool_iff in E. exfalso. apply (Qlt_not_le _ _ H E).
Qed.

Lemma cw_true f : clockwise f = true <-> f < 0.
Proof. apply Qltb_true. Qed.
Lemma cw_false f : ~ f == 0 -> (clockwise f = false <-> 0 < f).
Proof.
  intro Hf. unfold clockwise. rewrite Qltb_false. split; intro H; [| lra].
  destruct (Qlt_le_dec 0 f); auto. exfalso. apply Hf. lra.
Qed.

(* u = X / f, f <> 0, as  f * u == X *)
Lemma div_mul f X : ~ f == 0 -> f * (X / f) == X.
Proof. intro. field. assumption. Qed.

Lemma mono_neg f u t : f < 0 -> (u <= t <-> f * t <= f * u).
Proof. intro. split; intro; nra. Qed.
Lemma mono_pos f u t : 0 < f -> (u <= t <-> f * u <= f * t).
Proof. intro. split; intro; nra. Qed.

(* which whole-turn image of the slit the entry (k, s) is:  cw: +k turns, acw: -(k+1) turns *)
Definition shift (f : Q) (k : Z) : Z := if clockwise f then k else (- k - 1)%Z.

Lemma inject_Z_sub a b : inject_Z (a - b) == inject_Z a - inject_Z b.
Proof. unfold Z.sub. rewrite inject_Z_plus, inject_Z_opp. ring. Qed.

Lemma inject_Z_shift_acw k : inject_Z (- k - 1) == - inject_Z k - 1.
Proof.
  replace (- k - 1)%Z with (- k + -1)%Z by lia. rewrite inject_Z_plus, inject_Z_opp.
  unfold inject_Z at 2. ring.
Qed.

Lemma beta_t_at d theta k : ~ freq d == 0 ->
  beta d (t_at (freq d) (boff d) theta k) == theta + inject_Z (shift (freq d) k).
Proof.
  intro Hf. unfold beta, t_at, shift. destruct (clockwise (freq d)).
  - rewrite div_mul by assumption. ring.
  - rewrite div_mul by assumption. rewrite inject_Z_shift_acw. ring.
Qed.

(* the heart of the matter: t lies in the reported interval of (k, s) iff the disk angle in the
   beam lies in the whole-turn image [sb + shift, se + shift] of the slit *)
Lemma inside_entry d k s t : ~ freq d == 0 ->
  (inside (entry d k s) t <->
   sb s + inject_Z (shift (freq d) k) <= beta d t /\ beta d t <= se s + inject_Z (shift (freq d) k)).
Proof.
  intro Hf. unfold inside, entry; cbn [fst snd].
  pose proof (beta_t_at d (edge_open (freq d) s) k Hf) as Ho.
  pose proof (beta_t_at d (edge_close (freq d) s) k Hf) as Hc.
  set (o := t_at (freq d) (boff d) (edge_open (freq d) s) k) in *.
  set (c := t_at (freq d) (boff d) (edge_close (freq d) s) k) in *.
  unfold beta in *. unfold edge_open, edge_close in *.
  destruct (clockwise (freq d)) eqn:E.
  - apply cw_true in E.
    rewrite (mono_neg (freq d) o t E), (mono_neg (freq d) t c E). split; intros [A B]; split; lra.
  - apply cw_false in E; [| assumption].
    rewrite (mono_pos (freq d) o t E), (mono_pos (freq d) t c E). split; intros [A B]; split; lra.
Qed.

Lemma In_reps n k : In k (reps n) <-> (-1 <= k <= n - 1)%Z.
Proof.
  unfold reps. rewrite in_map_iff. split.
  - intros [i [E Hi]]. apply in_seq in Hi. lia.
  - intro H. exists (Z.to_nat (k + 1)). split; [lia |]. apply in_seq. lia.
Qed.

Lemma In_reported d n oc :
  In oc (reported d n) <-> exists k s, In k (reps n) /\ In s (slits d) /\ oc = entry d k s.
Proof.
  unfold reported. rewrite in_flat_map. split.
  - intros [k [Hk H]]. apply in_map_iff in H. destruct H as [s [E Hs]]. exists k, s. auto.
  - intros [k [s [Hk [Hs E]]]]. exists k. split; auto. apply in_map_iff. exists s. auto.
Qed.

(* ---- open < close, for both senses of rotation *)
Lemma entry_open_lt_close d k s : ~ freq d == 0 -> proper s -> fst (entry d k s) < snd (entry d k s).
Proof.
  intros Hf Hp. unfold proper in Hp. unfold entry; cbn [fst snd].
  pose proof (beta_t_at d (edge_open (freq d) s) k Hf) as Ho.
  pose proof (beta_t_at d (edge_close (freq d) s) k Hf) as Hc.
  set (o := t_at (freq d) (boff d) (edge_open (freq d) s) k) in *.
  set (c := t_at (freq d) (boff d) (edge_close (freq d) s) k) in *.
  unfold beta, edge_open, edge_close in *.
  destruct (clockwise (freq d)) eqn:E.
  - apply cw_true in E. nra.
  - apply cw_false in E; [| assumption]. nra.
Qed.

Theorem open_lt_close d n : ~ freq d == 0 -> Forall proper (slits d) ->
  forall oc, In oc (reported d n) -> fst oc < snd oc.
Proof.
  intros Hf Hp oc H. apply In_reported in H. destruct H as [k [s [_ [Hs E]]]]. subst oc.
  apply entry_open_lt_close; auto. rewrite Forall_forall in Hp. auto.
Qed.

(* ---- open throughout the reported interval *)
Theorem reported_interval_is_opening d n : ~ freq d == 0 ->
  forall oc, In oc (reported d n) -> forall t, inside oc t -> is_open d t.
Proof.
  intros Hf oc H t Ht. apply In_reported in H. destruct H as [k [s [_ [Hs E]]]]. subst oc.
  apply inside_entry in Ht; auto. destruct Ht as [A B].
  exists s. split; auto. exists (- shift (freq d) k)%Z. rewrite inject_Z_opp. split; lra.
Qed.

(* ---- duration = slit width / |f| *)
Lemma entry_duration d k s : ~ freq d == 0 ->
  snd (entry d k s) - fst (entry d k s) == (se s - sb s) / Qabs (freq d).
Proof.
  intro Hf. unfold entry, t_at, edge_open, edge_close; cbn [fst snd].
  destruct (clockwise (freq d)) eqn:E.
  - apply cw_true in E. rewrite Qabs_neg by lra. field. assumption.
  - apply cw_false in E; [| assumption]. rewrite Qabs_pos by lra. field. assumption.
Qed.
Theorem duration d n : ~ freq d == 0 ->
  forall oc, In oc (reported d n) ->
  exists s, In s (slits d) /\ snd oc - fst oc == (se s - sb s) / Qabs (freq d).
Proof.
  intros Hf oc H. apply In_reported in H. destruct H as [k [s [_ [Hs E]]]]. subst oc.
  exists s. split; auto. apply entry_duration; auto.
Qed.

(* ---- completeness: the covered span is rotations -1 .. n-1 of every slit.
   An instant at which slit s is in the beam through its whole-turn image m (sb <= beta + m <= se)
   belongs to rotation k with  shift f k = -m. *)
Definition in_span (f : Q) (n : Z) (m : Z) : Prop :=
  if clockwise f then (- (n - 1) <= m <= 1)%Z else (0 <= m <= n)%Z.

Theorem complete d n : ~ freq d == 0 ->
  forall t s m, In s (slits d) ->
  sb s <= beta d t + inject_Z m -> beta d t + inject_Z m <= se s -> in_span (freq d) n m ->
  exists oc, In oc (reported d n) /\ inside oc t.
Proof.
  intros Hf t s m Hs A B Hm. unfold in_span in Hm.
  set (k := if clockwise (freq d) then (- m)%Z else (m - 1)%Z).
  assert (Hk : shift (freq d) k = (- m)%Z) by (unfold shift, k; destruct (clockwise (freq d)); lia).
  exists (entry d k s). split.
  - apply In_reported. exists k, s. split; [| auto]. apply In_reps. unfold k.
    destruct (clockwise (freq d)); lia.
  - apply inside_entry; auto. rewrite Hk, inject_Z_opp. split; lra.
Qed.

(* time-window form for slits lying within the first turn: every instant whose (unwrapped)
   disk angle beta(t) lies strictly between -1 turn and n turns (clockwise; between -n and 1 turn
   anticlockwise, where beta decreases) and at which the chopper is open is inside a reported interval *)
Definition in_window (d : disk) (n : Z) (t : Q) : Prop :=
  if clockwise (freq d) then -1 < beta d t /\ beta d t < inject_Z n
  else - inject_Z n < beta d t /\ beta d t < 1.

Lemma Zle_of_Qlt a b : inject_Z a < inject_Z b + 1 -> (a <= b)%Z.
Proof.
  intro H. destruct (Z_le_gt_dec a b); auto. exfalso.
  assert (b + 1 <= a)%Z by lia. rewrite Zle_Qle in H0. rewrite inject_Z_plus in H0. change (inject_Z 1) with 1 in H0. lra.
Qed.

Theorem complete_window d n : ~ freq d == 0 ->
  Forall (fun s => 0 <= sb s /\ se s <= 1) (slits d) ->
  forall t, in_window d n t -> is_open d t ->
  exists oc, In oc (reported d n) /\ inside oc t.
Proof.
  intros Hf Hw t Hwin [s [Hs [m [A B]]]].
  rewrite Forall_forall in Hw. destruct (Hw s Hs) as [W1 W2].
  apply (complete d n Hf t s m Hs A B).
  unfold in_window in Hwin. unfold in_span. destruct (clockwise (freq d)); destruct Hwin as [L U].
  - split.
    + assert (inject_Z (- n + 1) < inject_Z m + 1)
        by (rewrite inject_Z_plus, inject_Z_opp; change (inject_Z 1) with 1; lra).
      apply Zle_of_Qlt in H. lia.
    + apply Zle_of_Qlt. change (inject_Z 1) with 1. lra.
  - split.
    + assert (inject_Z 0 < inject_Z m + 1) by (change (inject_Z 0) with 0; lra).
      apply Zle_of_Qlt in H. lia.
    + apply Zle_of_Qlt. lra.
Qed.

(* ---- each (rotation, slit) exactly once: the list is the image of the product reps x slits *)
Lemma reps_NoDup n : NoDup (reps n).
Proof.
  unfold reps. apply FinFun.Injective_map_NoDup; [| apply seq_NoDup].
  intros a b H. lia.
Qed.
Lemma reps_length n : length (reps n) = Z.to_nat (n + 1).
Proof. unfold reps. rewrite map_length, seq_length. reflexivity. Qed.

Theorem once_per_rotation d n :
  reported d n = map (fun ks => entry d (fst ks) (snd ks)) (list_prod (reps n) (slits d))
  /\ NoDup (reps n) /\ (forall k, In k (reps n) <-> (-1 <= k <= n - 1)%Z)
  /\ length (reported d n) = (Z.to_nat (n + 1) * length (slits d))%nat.
Proof.
  assert (E : reported d n = map (fun ks => entry d (fst ks) (snd ks)) (list_prod (reps n) (slits d))).
  { unfold reported. induction (reps n) as [| k r IH]; [reflexivity |].
    cbn [flat_map list_prod]. rewrite map_app, IH. f_equal. rewrite map_map. reflexivity. }
  split; [exact E |]. split; [apply reps_NoDup |]. split; [apply In_reps |].
  rewrite E, map_length, prod_length, reps_length. reflexivity.
Qed.
