(* C10/Oracle.v — decision procedures for the predicates of Spec.v, each proved equivalent to the
   predicate.  They are what the correspondence run evaluates (vm_compute) on the times and
   decisions REPORTED BY THE IMPLEMENTATION: a simulation of the disk, not a re-evaluation of the
   time formula. *)
From Coq Require Import QArith Qabs Qround ZArith List Bool Lia Lqa.
From Verif.C10 Require Import Spec Model ProofsTime ProofsDisjoint.
Import ListNotations.
Open Scope Q_scope.

(* the only candidate whole-turn image: the smallest m with sb <= x + m *)
Definition in_slitb (s : slit) (x : Q) : bool :=
  Qle_bool (x + inject_Z (Qceiling (sb s - x))) (se s).

Lemma Qceiling_least y m : y <= inject_Z m -> (Qceiling y <= m)%Z.
Proof. intro H. apply Qceiling_resp_le in H. rewrite Qceiling_Z in H. exact H. Qed.
Lemma Qfloor_greatest y m : inject_Z m <= y -> (m <= Qfloor y)%Z.
Proof. intro H. apply Qfloor_resp_le in H. rewrite Qfloor_Z in H. exact H. Qed.

Lemma in_slitb_spec s x : in_slitb s x = true <-> in_slit s x.
Proof.
  unfold in_slitb. rewrite Qle_bool_iff. split.
  - intro H. exists (Qceiling (sb s - x)). split; auto. pose proof (Qle_ceiling (sb s - x)). lra.
  - intros [m [A B]]. assert (sb s - x <= inject_Z m) by lra. apply Qceiling_least in H.
    rewrite Zle_Qle in H. lra.
Qed.

(* some slit contains the disk angle x (modulo whole turns) *)
Definition open_at (sl : list slit) (x : Q) : bool := existsb (fun s => in_slitb s x) sl.
Lemma open_at_spec sl x : open_at sl x = true <-> exists s, In s sl /\ in_slit s x.
Proof.
  unfold open_at. rewrite existsb_exists. split; intros [s [Hs H]]; exists s; split; auto;
    apply in_slitb_spec; auto.
Qed.
Definition is_openb (d : disk) (t : Q) : bool := open_at (slits d) (beta d t).
Lemma is_openb_spec d t : is_openb d t = true <-> is_open d t.
Proof. unfold is_openb, is_open. apply open_at_spec. Qed.
Lemma is_openb_false d t : is_openb d t = false <-> ~ is_open d t.
Proof.
  rewrite <- is_openb_spec. destruct (is_openb d t); split; intro H.
  - discriminate.
  - exfalso. apply H. reflexivity.
  - intro. discriminate.
  - reflexivity.
Qed.

(* ---- disjointness on the circle: only finitely many whole-turn shifts can matter *)
Definition sepmb (s s' : slit) (m : Z) : bool :=
  Qltb (se s + inject_Z m) (sb s') || Qltb (se s') (sb s + inject_Z m).
Lemma sepmb_spec s s' m : sepmb s s' m = true <-> sepm s s' m.
Proof. unfold sepmb, sepm. rewrite orb_true_iff, !Qltb_true. tauto. Qed.

Lemma In_zrange lo n k : In k (zrange lo n) <-> (lo <= k < lo + Z.of_nat n)%Z.
Proof.
  unfold zrange. rewrite in_map_iff. split.
  - intros [i [E Hi]]. apply in_seq in Hi. lia.
  - intro H. exists (Z.to_nat (k - lo)). split; [lia |]. apply in_seq. lia.
Qed.

Definition cdisjb (s s' : slit) : bool :=
  let lo := Qfloor (sb s' - se s) in
  let hi := Qceiling (se s' - sb s) in
  forallb (sepmb s s') (zrange lo (Z.to_nat (hi - lo + 1))).

Lemma cdisjb_spec s s' : cdisjb s s' = true <-> cdisj s s'.
Proof.
  unfold cdisjb. rewrite forallb_forall. split.
  - intros H m.
    destruct (Z_lt_ge_dec m (Qfloor (sb s' - se s))) as [L | L].
    + left. assert (m + 1 <= Qfloor (sb s' - se s))%Z by lia. rewrite Zle_Qle in H0.
      rewrite inject_Z_plus in H0. change (inject_Z 1) with 1 in H0.
      pose proof (Qfloor_le (sb s' - se s)). lra.
    + destruct (Z_le_gt_dec m (Qceiling (se s' - sb s))) as [U | U].
      * apply sepmb_spec. apply H. apply In_zrange. lia.
      * right. assert (Qceiling (se s' - sb s) + 1 <= m)%Z by lia. rewrite Zle_Qle in H0.
        rewrite inject_Z_plus in H0. change (inject_Z 1) with 1 in H0.
        pose proof (Qle_ceiling (se s' - sb s)). lra.
  - intros H m _. apply sepmb_spec. apply H.
Qed.

Definition narrowb (s : slit) : bool := Qltb (se s - sb s) 1.
Lemma narrowb_spec s : narrowb s = true <-> narrow s.
Proof. apply Qltb_true. Qed.

Fixpoint all_pairsb {A} (r : A -> A -> bool) (l : list A) : bool :=
  match l with
  | [] => true
  | x :: t => forallb (r x) t && all_pairsb r t
  end.
Lemma all_pairsb_spec {A} (r : A -> A -> bool) (R : A -> A -> Prop) l :
  (forall x y, r x y = true <-> R x y) -> (all_pairsb r l = true <-> all_pairs R l).
Proof.
  intro H. induction l as [| a t IH]; cbn; [tauto |].
  rewrite andb_true_iff, IH, forallb_forall, Forall_forall.
  split; intros [F P]; split; auto; intros y Hy; apply H; auto.
Qed.

Definition slits_disjointb (sl : list slit) : bool := all_pairsb cdisjb sl && forallb narrowb sl.
Theorem slits_disjointb_spec sl : slits_disjointb sl = true <-> slits_disjoint sl.
Proof.
  unfold slits_disjointb, slits_disjoint.
  rewrite andb_true_iff, (all_pairsb_spec cdisjb cdisj sl cdisjb_spec), forallb_forall, Forall_forall.
  split; intros [P N]; split; auto; intros s Hs; apply narrowb_spec; auto.
Qed.

(* two reported intervals share an instant iff neither ends before the other begins *)
Definition overlapb (p q : Q * Q) : bool := Qle_bool (fst p) (snd q) && Qle_bool (fst q) (snd p).
Lemma overlapb_false p q : overlapb p q = false -> no_common_instant p q.
Proof.
  unfold overlapb, no_common_instant, inside. rewrite andb_false_iff, !Qleb_false.
  intros H t [[A B] [C D]]. destruct H; lra.
Qed.
Lemma overlapb_true p q : fst p <= snd p -> fst q <= snd q -> overlapb p q = true -> ~ no_common_instant p q.
Proof.
  unfold overlapb, no_common_instant, inside. rewrite andb_true_iff, !Qle_bool_iff.
  intros Hp Hq [A B] H.
  destruct (Qlt_le_dec (fst p) (fst q)).
  - apply (H (fst q)). split; split; lra.
  - apply (H (fst p)). split; split; lra.
Qed.
