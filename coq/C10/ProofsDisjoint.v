(* C10/ProofsDisjoint.v — consequences of the slits being pairwise disjoint on the circle:
   the chopper is closed just outside every reported interval (maximality), and two different
   (rotation, slit) entries never share an instant (nothing is reported twice). *)
From Coq Require Import QArith Qabs Qround ZArith List Bool Lia Lqa.
From Verif.C10 Require Import Spec Model ProofsTime.
Import ListNotations.
Open Scope Q_scope.

(* ---- all_pairs *)
Lemma all_pairs_impl {A} (R S : A -> A -> Prop) l :
  (forall x y, R x y -> S x y) -> all_pairs R l -> all_pairs S l.
Proof.
  intro H. induction l as [| x r IH]; cbn; auto. intros [F P]. split; auto.
  eapply Forall_impl; [| exact F]. auto.
Qed.
Lemma all_pairs_In {A} (R : A -> A -> Prop) l :
  (forall x y, R x y -> R y x) -> all_pairs R l ->
  forall x y, In x l -> In y l -> x = y \/ R x y.
Proof.
  intro Hs. induction l as [| a r IH]; cbn; [tauto |]. intros [F P] x y [Hx | Hx] [Hy | Hy].
  - left. congruence.
  - right. subst a. rewrite Forall_forall in F. auto.
  - right. subst a. rewrite Forall_forall in F. auto.
  - apply IH; auto.
Qed.
Lemma all_pairs_app {A} (R : A -> A -> Prop) l1 l2 :
  all_pairs R l1 -> all_pairs R l2 -> (forall x y, In x l1 -> In y l2 -> R x y) ->
  all_pairs R (l1 ++ l2).
Proof.
  induction l1 as [| a r IH]; cbn; auto. intros [F P] P2 C. split.
  - apply Forall_app. split; auto. apply Forall_forall. intros y Hy. apply C; auto.
  - apply IH; auto.
Qed.
Lemma all_pairs_map {A B} (R : B -> B -> Prop) (f : A -> B) l :
  all_pairs (fun x y => R (f x) (f y)) l -> all_pairs R (map f l).
Proof.
  induction l as [| a r IH]; cbn; auto. intros [F P]. split; auto.
  apply Forall_map. exact F.
Qed.

(* the whole-turn image m of s does not meet s' *)
Definition sepm (s s' : slit) (m : Z) : Prop :=
  se s + inject_Z m < sb s' \/ se s' < sb s + inject_Z m.

Lemma cdisj_sym s s' : cdisj s s' -> cdisj s' s.
Proof.
  intros H m. destruct (H (- m)%Z) as [A | A]; rewrite inject_Z_opp in A; [right | left]; lra.
Qed.

Lemma Zpos_Q m : (1 <= m)%Z -> 1 <= inject_Z m.
Proof. intro H. rewrite Zle_Qle in H. exact H. Qed.
Lemma Zneg_Q m : (m <= -1)%Z -> inject_Z m <= -1.
Proof. intro H. rewrite Zle_Qle in H. exact H. Qed.

Lemma narrow_sepm s m : sb s <= se s -> narrow s -> m <> 0%Z -> sepm s s m.
Proof.
  unfold narrow, sepm. intros Hbe Hn Hm.
  destruct (Z_le_gt_dec m (-1)).
  - left. apply Zneg_Q in l. lra.
  - right. assert (1 <= m)%Z by lia. apply Zpos_Q in H. lra.
Qed.

(* any two members of a disjoint slit set: different whole-turn images never meet *)
Lemma disjoint_sepm sl : slits_disjoint sl -> Forall (fun s => sb s <= se s) sl ->
  forall s s', In s sl -> In s' sl -> forall m, (s = s' /\ m = 0%Z) \/ sepm s s' m.
Proof.
  intros [P N] W s s' Hs Hs' m.
  destruct (all_pairs_In cdisj sl cdisj_sym P s s' Hs Hs') as [E | D].
  - destruct (Z.eq_dec m 0); [left; auto | right]. subst s'.
    rewrite Forall_forall in N, W. apply narrow_sepm; auto.
  - right. apply D.
Qed.

(* ---- maximality: the disk angles just past the end and just before the begin of a slit lie in no slit *)
Lemma in_slit_shift s x z : in_slit s x -> in_slit s (x + inject_Z z).
Proof.
  intros [m [A B]]. exists (m - z)%Z. rewrite inject_Z_sub. split; lra.
Qed.

Lemma Zlt_Q_pred m y : inject_Z m < y -> inject_Z m <= inject_Z (Qceiling y) - 1.
Proof.
  intro H. pose proof (Qle_ceiling y).
  assert (inject_Z m < inject_Z (Qceiling y)) by lra. rewrite <- Zlt_Qlt in H1.
  assert (m <= Qceiling y - 1)%Z by lia. rewrite Zle_Qle in H2.
  rewrite inject_Z_sub in H2. change (inject_Z 1) with 1 in H2. lra.
Qed.
Lemma Zgt_Q_succ m y : y < inject_Z m -> inject_Z (Qfloor y) + 1 <= inject_Z m.
Proof.
  intro H. pose proof (Qfloor_le y).
  assert (inject_Z (Qfloor y) < inject_Z m) by lra. rewrite <- Zlt_Qlt in H1.
  assert (Qfloor y + 1 <= m)%Z by lia. rewrite Zle_Qle in H2.
  rewrite inject_Z_plus in H2. change (inject_Z 1) with 1 in H2. lra.
Qed.

Lemma gap_above s s' : sb s <= se s -> (forall m, (s = s' /\ m = 0%Z) \/ sepm s s' m) ->
  exists dl, 0 < dl /\ forall x, se s < x -> x < se s + dl -> ~ in_slit s' x.
Proof.
  intros Hbe Hsep. set (y := sb s' - se s).
  exists (y - (inject_Z (Qceiling y) - 1)). split.
  - pose proof (Qceiling_lt y). rewrite inject_Z_sub in H. change (inject_Z 1) with 1 in H. lra.
  - intros x Hx1 Hx2 [m [A B]]. destruct (Hsep m) as [[E Z0] | [S1 | S2]].
    + subst s' m. change (inject_Z 0) with 0 in *. lra.
    + assert (inject_Z m < y) by (unfold y; lra). apply Zlt_Q_pred in H. unfold y in *. lra.
    + lra.
Qed.
Lemma gap_below s s' : sb s <= se s -> (forall m, (s = s' /\ m = 0%Z) \/ sepm s s' m) ->
  exists dl, 0 < dl /\ forall x, sb s - dl < x -> x < sb s -> ~ in_slit s' x.
Proof.
  intros Hbe Hsep. set (y := se s' - sb s).
  exists (inject_Z (Qfloor y) + 1 - y). split.
  - pose proof (Qlt_floor y). rewrite inject_Z_plus in H. change (inject_Z 1) with 1 in H. lra.
  - intros x Hx1 Hx2 [m [A B]]. destruct (Hsep m) as [[E Z0] | [S1 | S2]].
    + subst s' m. change (inject_Z 0) with 0 in *. lra.
    + lra.
    + assert (y < inject_Z m) by (unfold y; lra). apply Zgt_Q_succ in H. unfold y in *. lra.
Qed.

Definition Qmin2 (a b : Q) : Q := if Qle_bool a b then a else b.
Lemma Qmin2_pos a b : 0 < a -> 0 < b -> 0 < Qmin2 a b.
Proof. unfold Qmin2. destruct (Qle_bool a b); auto. Qed.
Lemma Qmin2_l a b : Qmin2 a b <= a.
Proof. unfold Qmin2. destruct (Qle_bool a b) eqn:E; [lra |]. apply Qleb_false in E. lra. Qed.
Lemma Qmin2_r a b : Qmin2 a b <= b.
Proof. unfold Qmin2. destruct (Qle_bool a b) eqn:E; [| lra]. apply Qle_bool_iff in E. lra. Qed.

(* a positive margin that works for every slit of a finite list *)
Lemma margin_list (P : slit -> Q -> Prop) (l : list slit) :
  (forall s' a b, P s' a -> 0 < b -> b <= a -> P s' b) ->
  (forall s', In s' l -> exists dl, 0 < dl /\ P s' dl) ->
  exists dl, 0 < dl /\ forall s', In s' l -> P s' dl.
Proof.
  intros Hmono. induction l as [| a r IH]; intro H.
  - exists 1. split; [lra |]. intros s' [].
  - destruct (H a (or_introl eq_refl)) as [d1 [D1 P1]].
    destruct IH as [d2 [D2 P2]]; [intros; apply H; right; auto |].
    exists (Qmin2 d1 d2). split; [apply Qmin2_pos; auto |].
    intros s' [E | Hin].
    + subst s'. apply (Hmono a d1); auto. apply Qmin2_pos; auto. apply Qmin2_l.
    + apply (Hmono s' d2); auto. apply Qmin2_pos; auto. apply Qmin2_r.
Qed.

Lemma closed_near sl s : In s sl -> slits_disjoint sl -> Forall (fun s => sb s <= se s) sl ->
  exists dl, 0 < dl /\ forall x,
    (se s < x /\ x < se s + dl) \/ (sb s - dl < x /\ x < sb s) ->
    forall s', In s' sl -> ~ in_slit s' x.
Proof.
  intros Hs D W.
  assert (Hbe : sb s <= se s) by (rewrite Forall_forall in W; auto).
  destruct (margin_list (fun s' dl => forall x, se s < x -> x < se s + dl -> ~ in_slit s' x) sl) as [d1 [D1 P1]].
  { intros s' a b H Hb Hab x X1 X2. apply H; lra. }
  { intros s' Hs'. apply gap_above; auto. apply disjoint_sepm with (sl := sl); auto. }
  destruct (margin_list (fun s' dl => forall x, sb s - dl < x -> x < sb s -> ~ in_slit s' x) sl) as [d2 [D2 P2]].
  { intros s' a b H Hb Hab x X1 X2. apply H; lra. }
  { intros s' Hs'. apply gap_below; auto. apply disjoint_sepm with (sl := sl); auto. }
  exists (Qmin2 d1 d2). split; [apply Qmin2_pos; auto |].
  pose proof (Qmin2_l d1 d2). pose proof (Qmin2_r d1 d2).
  intros x [[X1 X2] | [X1 X2]] s' Hs'.
  - apply (P1 s' Hs'); lra.
  - apply (P2 s' Hs'); lra.
Qed.

Theorem maximal d n : ~ freq d == 0 ->
  Forall (fun s => sb s <= se s) (slits d) -> slits_disjoint (slits d) ->
  forall oc, In oc (reported d n) ->
  exists eps, 0 < eps /\ forall t,
    (fst oc - eps < t /\ t < fst oc) \/ (snd oc < t /\ t < snd oc + eps) -> ~ is_open d t.
Proof.
  intros Hf W D oc H. apply In_reported in H. destruct H as [k [s [_ [Hs E]]]]. subst oc.
  destruct (closed_near (slits d) s Hs D W) as [dl [Dl Hcl]].
  assert (Ha : 0 < Qabs (freq d)).
  { destruct (Qlt_le_dec 0 (Qabs (freq d))); auto. exfalso. apply Hf.
    pose proof (Qabs_nonneg (freq d)). assert (Qabs (freq d) == 0) by lra.
    destruct (Qlt_le_dec (freq d) 0); [rewrite Qabs_neg in H0 by lra | rewrite Qabs_pos in H0 by lra]; lra. }
  exists (dl / Qabs (freq d)).
  assert (Ee : Qabs (freq d) * (dl / Qabs (freq d)) == dl) by (field; lra).
  set (eps := dl / Qabs (freq d)) in *.
  assert (He : 0 < eps) by (unfold eps; apply Qlt_shift_div_l; lra).
  split; [exact He |].
  intros t Ht [s' [Hs' Hin]].
  pose proof (beta_t_at d (edge_open (freq d) s) k Hf) as Ho.
  pose proof (beta_t_at d (edge_close (freq d) s) k Hf) as Hc.
  unfold entry in Ht; cbn [fst snd] in Ht.
  set (o := t_at (freq d) (boff d) (edge_open (freq d) s) k) in *.
  set (c := t_at (freq d) (boff d) (edge_close (freq d) s) k) in *.
  apply (in_slit_shift s' _ (- shift (freq d) k)) in Hin. rewrite inject_Z_opp in Hin.
  refine (Hcl _ _ s' Hs' Hin).
  unfold beta, edge_open, edge_close in *.
  destruct (clockwise (freq d)) eqn:Ecw.
  - apply cw_true in Ecw. rewrite Qabs_neg in Ee by lra.
    destruct Ht as [[T1 T2] | [T1 T2]]; [right | left]; split; nra.
  - apply cw_false in Ecw; [| assumption]. rewrite Qabs_pos in Ee by lra.
    destruct Ht as [[T1 T2] | [T1 T2]]; [left | right]; split; nra.
Qed.

(* ---- nothing is reported twice *)

Lemma entry_disjoint d k k' s s' : ~ freq d == 0 ->
  sepm s s' (shift (freq d) k - shift (freq d) k') ->
  no_common_instant (entry d k s) (entry d k' s').
Proof.
  intros Hf Hsep t [I1 I2]. apply inside_entry in I1; auto. apply inside_entry in I2; auto.
  unfold sepm in Hsep. rewrite inject_Z_sub in Hsep.
  destruct Hsep; lra.
Qed.

Lemma shift_inj f k k' : shift f k = shift f k' -> k = k'.
Proof. unfold shift. destruct (clockwise f); lia. Qed.

Theorem reported_pairwise_disjoint d n : ~ freq d == 0 ->
  Forall (fun s => sb s <= se s) (slits d) -> slits_disjoint (slits d) ->
  all_pairs no_common_instant (reported d n).
Proof.
  intros Hf W D. unfold reported.
  pose proof (reps_NoDup n) as ND. induction (reps n) as [| k r IH]; cbn; auto.
  inversion ND as [| ? ? Hnotin ND']; subst.
  apply all_pairs_app.
  - apply all_pairs_map. destruct D as [P N].
    eapply all_pairs_impl; [| exact P]. intros s s' C. apply entry_disjoint; auto.
    rewrite Z.sub_diag. apply C.
  - apply IH; auto.
  - intros x y Hx Hy. apply in_map_iff in Hx. destruct Hx as [s [Ex Hs]].
    apply in_flat_map in Hy. destruct Hy as [k' [Hk' Hy]]. apply in_map_iff in Hy.
    destruct Hy as [s' [Ey Hs']]. subst x y.
    apply entry_disjoint; auto.
    destruct (disjoint_sepm (slits d) D W s s' Hs Hs' (shift (freq d) k - shift (freq d) k')) as [[_ Z0] | S]; auto.
    exfalso. assert (k = k') by (apply (shift_inj (freq d)); lia). subst k'. contradiction.
Qed.
