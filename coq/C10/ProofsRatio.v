(* C10/ProofsRatio.v — the frequency-ratio check: accepted exactly when the quotient
   |f| / f_pulse, or its inverse, is within the tolerance (absolute, on the quotient, as coded)
   of an integer; the number of repetitions is the integer multiple. *)
From Coq Require Import QArith Qabs Qround ZArith List Bool Lia Lqa.
From Verif.C10 Require Import Spec Model ProofsTime.
Open Scope Q_scope.

Lemma qround_bounds x : inject_Z (qround x) <= x + (1#2) /\ x - (1#2) < inject_Z (qround x).
Proof.
  unfold qround. pose proof (Qfloor_le (x + (1#2))). pose proof (Qlt_floor (x + (1#2))).
  rewrite inject_Z_plus in H0. change (inject_Z 1) with 1 in H0. split; lra.
Qed.

Lemma Qabs_ge_l a : a <= Qabs a.
Proof. apply Qle_Qabs. Qed.
Lemma Qabs_ge_r a : - a <= Qabs a.
Proof. rewrite <- Qabs_opp. apply Qle_Qabs. Qed.

Lemma dist_int_half x : dist_int x <= 1#2.
Proof.
  unfold dist_int. destruct (qround_bounds x). apply Qabs_Qle_condition. split; lra.
Qed.

(* no integer is nearer than the one chosen (whatever the tie-breaking rule) *)
Lemma dist_int_min x z : dist_int x <= Qabs (x - inject_Z z).
Proof.
  destruct (Z.eq_dec z (qround x)) as [E | N].
  - subst z. unfold dist_int. rewrite Qabs_Qminus. lra.
  - pose proof (dist_int_half x). destruct (qround_bounds x) as [U L].
    destruct (Z_lt_ge_dec z (qround x)).
    + assert (z + 1 <= qround x)%Z by lia. rewrite Zle_Qle, inject_Z_plus in H0.
      change (inject_Z 1) with 1 in H0. pose proof (Qabs_ge_l (x - inject_Z z)). lra.
    + assert (qround x + 1 <= z)%Z by lia. rewrite Zle_Qle, inject_Z_plus in H0.
      change (inject_Z 1) with 1 in H0. pose proof (Qabs_ge_r (x - inject_Z z)). lra.
Qed.

Lemma near_int_dec x tol : Qltb (dist_int x) tol = true <-> near_int x tol.
Proof.
  rewrite Qltb_true. split.
  - intro H. exists (qround x). unfold dist_int in H. rewrite Qabs_Qminus. exact H.
  - intros [z H]. pose proof (dist_int_min x z). lra.
Qed.

Lemma is_int_or_inverse_int_spec tol x :
  is_int_or_inverse_int tol x = true <-> near_int x tol \/ near_int (/ x) tol.
Proof. unfold is_int_or_inverse_int. rewrite orb_true_iff, !near_int_dec. tauto. Qed.

Theorem ratio_check_sound f fp n : source_phase_factor f fp = Some n ->
  0 < fp /\ (near_int (quot f fp) rtol \/ near_int (/ quot f fp) rtol)
  /\ n = round_half_even (Qmax2 (quot f fp) 1).
Proof.
  unfold source_phase_factor. destruct (Qle_bool fp 0) eqn:E; [discriminate |].
  destruct (is_int_or_inverse_int rtol (quot f fp)) eqn:A; [| discriminate].
  intro H. inversion H. apply Qleb_false in E. apply is_int_or_inverse_int_spec in A. auto.
Qed.

(* ... and nothing else is accepted / everything else is rejected *)
Theorem ratio_check_complete f fp : 0 < fp ->
  (near_int (quot f fp) rtol \/ near_int (/ quot f fp) rtol) ->
  source_phase_factor f fp = Some (round_half_even (Qmax2 (quot f fp) 1)).
Proof.
  intros Hp H. unfold source_phase_factor. apply Qleb_false in Hp. rewrite Hp.
  apply is_int_or_inverse_int_spec in H. rewrite H. reflexivity.
Qed.
Theorem ratio_check_rejects f fp :
  ~ (near_int (quot f fp) rtol \/ near_int (/ quot f fp) rtol) -> source_phase_factor f fp = None.
Proof.
  intro H. unfold source_phase_factor. destruct (Qle_bool fp 0); auto.
  destruct (is_int_or_inverse_int rtol (quot f fp)) eqn:A; auto.
  apply is_int_or_inverse_int_spec in A. contradiction.
Qed.

(* the repetitions are the integer multiple (>= 1) the quotient is near to; 1 for sub-harmonic choppers *)
Lemma Qfloor_unique x z : inject_Z z <= x -> x < inject_Z z + 1 -> Qfloor x = z.
Proof.
  intros A B. pose proof (Qfloor_le x). pose proof (Qlt_floor x).
  rewrite inject_Z_plus in H0. change (inject_Z 1) with 1 in H0.
  assert (inject_Z z < inject_Z (Qfloor x) + 1) by lra. apply Zle_of_Qlt in H1.
  assert (inject_Z (Qfloor x) < inject_Z z + 1) by lra. apply Zle_of_Qlt in H2. lia.
Qed.

Lemma round_half_even_near x z : Qabs (x - inject_Z z) < 1#2 -> round_half_even x = z.
Proof.
  intro H. pose proof (Qabs_ge_l (x - inject_Z z)). pose proof (Qabs_ge_r (x - inject_Z z)).
  unfold round_half_even. destruct (Qlt_le_dec x (inject_Z z)).
  - assert (F : Qfloor x = (z - 1)%Z).
    { apply Qfloor_unique; rewrite inject_Z_sub; change (inject_Z 1) with 1; lra. }
    rewrite F.
    assert (A : Qltb (x - inject_Z (z - 1)) (1#2) = false)
      by (apply Qltb_false; rewrite inject_Z_sub; change (inject_Z 1) with 1; lra).
    assert (B : Qltb (1#2) (x - inject_Z (z - 1)) = true)
      by (apply Qltb_true; rewrite inject_Z_sub; change (inject_Z 1) with 1; lra).
    rewrite A, B. lia.
  - assert (F : Qfloor x = z) by (apply Qfloor_unique; lra).
    rewrite F. assert (A : Qltb (x - inject_Z z) (1#2) = true) by (apply Qltb_true; lra).
    rewrite A. reflexivity.
Qed.

Lemma Qmax2_cases a b : (a <= b /\ Qmax2 a b = b) \/ (b < a /\ Qmax2 a b = a).
Proof.
  unfold Qmax2. destruct (Qle_bool a b) eqn:E.
  - left. apply Qle_bool_iff in E. auto.
  - right. apply Qleb_false in E. auto.
Qed.

Theorem n_repetitions_exact f fp z : (1 <= z)%Z -> Qabs (quot f fp - inject_Z z) < rtol ->
  round_half_even (Qmax2 (quot f fp) 1) = z.
Proof.
  intros Hz H. unfold rtol in H.
  pose proof (Qabs_ge_l (quot f fp - inject_Z z)). pose proof (Qabs_ge_r (quot f fp - inject_Z z)).
  destruct (Qmax2_cases (quot f fp) 1) as [[L E] | [L E]]; rewrite E.
  - assert (inject_Z z < inject_Z 1 + 1) by (change (inject_Z 1) with 1; lra).
    apply Zle_of_Qlt in H2. assert (z = 1%Z) by lia. subst z.
    apply round_half_even_near. change (inject_Z 1) with 1.
    setoid_replace (1 - 1) with 0 by ring. reflexivity.
  - apply round_half_even_near. lra.
Qed.
Theorem n_repetitions_subharmonic f fp : quot f fp <= 1 -> round_half_even (Qmax2 (quot f fp) 1) = 1%Z.
Proof.
  intro H. destruct (Qmax2_cases (quot f fp) 1) as [[L E] | [L E]]; [| lra]. rewrite E. reflexivity.
Qed.
