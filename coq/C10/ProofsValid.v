(* C10/ProofsValid.v — slit validation.
   check_edges_fixed (begin reduced modulo one turn, sorted, neighbours compared, last compared with
   first + 1 turn) accepts only slit sets that are pairwise disjoint ON THE CIRCLE.
   check_edges_current (the tree as found: edges compared as plain numbers) only guarantees
   disjointness of the un-wrapped intervals (validation_sound_partial) and accepts
   [10,50] deg + [300,380] deg, which overlap on the disk (tdc_wrap_overlap_refuted). *)
From Coq Require Import QArith Qabs Qround ZArith List Bool Lia Lqa Sorted Permutation.
From Verif.C10 Require Import Spec Model ProofsTime ProofsDisjoint Oracle.
Import ListNotations.
Open Scope Q_scope.

Definition wf (s : slit) : Prop := sb s <= se s.
Definition ble (a b : slit) : Prop := sb a <= sb b.
Definition lin_lt (a b : slit) : Prop := se a < sb b.
Definition lin_disj (a b : slit) : Prop := se a < sb b \/ se b < sb a.

Lemma begin_le_end_spec sl : begin_le_end sl = true <-> Forall wf sl.
Proof.
  unfold begin_le_end. rewrite forallb_forall, Forall_forall.
  split; intros H s Hs; apply Qle_bool_iff; apply H; exact Hs.
Qed.

(* ---- insertion sort *)
Lemma insert_perm s l : Permutation (insert s l) (s :: l).
Proof.
  induction l as [| x r IH]; cbn; auto. destruct (Qle_bool (sb s) (sb x)); auto.
  eapply perm_trans; [apply perm_skip; exact IH | apply perm_swap].
Qed.
Lemma sort_perm l : Permutation (sort_by_begin l) l.
Proof.
  induction l as [| x r IH]; cbn; auto.
  eapply perm_trans; [apply insert_perm | apply perm_skip; exact IH].
Qed.
Lemma insert_sorted s l : StronglySorted ble l -> StronglySorted ble (insert s l).
Proof.
  induction 1 as [| x r S IH F]; cbn.
  - constructor; constructor.
  - destruct (Qle_bool (sb s) (sb x)) eqn:E.
    + apply Qle_bool_iff in E. constructor; [constructor; auto |]. constructor; auto.
      eapply Forall_impl; [| exact F]. unfold ble. intros; lra.
    + apply Qleb_false in E. constructor; auto.
      apply (Permutation_Forall (Permutation_sym (insert_perm s r))).
      constructor; auto. unfold ble. lra.
Qed.
Lemma sort_sorted l : StronglySorted ble (sort_by_begin l).
Proof. induction l; cbn; [constructor | apply insert_sorted; auto]. Qed.

(* ---- all_pairs under permutation / membership *)
Lemma all_pairs_perm {A} (R : A -> A -> Prop) l l' :
  (forall x y, R x y -> R y x) -> Permutation l l' -> all_pairs R l -> all_pairs R l'.
Proof.
  intro Hs. induction 1 as [| x l l' P IH | x y l | l l' l'' P1 IH1 P2 IH2]; cbn; auto.
  - intros [F A0]. split; auto. apply (Permutation_Forall P). exact F.
  - intros [Fy [Fx A0]]. inversion Fy as [| ? ? Ryx Fy']; subst. repeat split; auto.
Qed.
Lemma all_pairs_impl_In {A} (R S : A -> A -> Prop) l :
  (forall x y, In x l -> In y l -> R x y -> S x y) -> all_pairs R l -> all_pairs S l.
Proof.
  induction l as [| a r IH]; cbn; auto. intros H [F P]. split.
  - rewrite Forall_forall in *. intros y Hy. apply H; auto.
  - apply IH; auto.
Qed.
Lemma all_pairs_unmap {A B} (R : B -> B -> Prop) (f : A -> B) l :
  all_pairs R (map f l) -> all_pairs (fun x y => R (f x) (f y)) l.
Proof.
  induction l as [| a r IH]; cbn; auto. intros [F P]. split; auto.
  rewrite Forall_map in F. exact F.
Qed.

(* ---- sorted + neighbours apart  =>  every earlier slit ends before every later one begins *)
Lemma adjacent_all l : StronglySorted ble l -> adjacent_ok l = true -> all_pairs lin_lt l.
Proof.
  induction 1 as [| x r S IH F]; cbn [adjacent_ok all_pairs]; auto.
  destruct r as [| y r'].
  - intros _. split; [constructor | exact I].
  - rewrite andb_true_iff, negb_true_iff, Qleb_false. intros [A Adj]. split; [| apply IH; exact Adj].
    inversion S as [| ? ? S' Fy]; subst.
    constructor; [exact A |]. eapply Forall_impl; [| exact Fy]. unfold ble, lin_lt. intros; lra.
Qed.

Theorem validation_sound_partial sl : check_edges_current sl = true ->
  Forall wf sl /\ all_pairs lin_disj sl.
Proof.
  unfold check_edges_current. rewrite andb_true_iff. intros [W A].
  apply begin_le_end_spec in W. split; auto.
  apply (all_pairs_perm lin_disj (sort_by_begin sl) sl).
  - unfold lin_disj. tauto.
  - apply sort_perm.
  - eapply all_pairs_impl; [| apply adjacent_all; [apply sort_sorted | exact A]].
    unfold lin_lt, lin_disj. auto.
Qed.

(* ---- the wrap-aware check *)
Lemma last_In {A} (l : list A) d : l <> [] -> In (last l d) l.
Proof.
  induction l as [| a r IH]; [congruence |]. intros _. destruct r as [| b r']; [left; reflexivity |].
  right. apply IH. discriminate.
Qed.
Lemma last_max l d : all_pairs lin_lt l -> Forall wf l -> forall y, In y l -> se y <= se (last l d).
Proof.
  induction l as [| a r IH]; [intros _ _ y [] |]. intros [F P] W y Hy.
  inversion W as [| ? ? Wa Wr]; subst.
  destruct r as [| b r']; [destruct Hy as [E | []]; subst; cbn; lra |].
  change (last (a :: b :: r') d) with (last (b :: r') d).
  destruct Hy as [E | Hy]; [| apply IH; auto]. subst y.
  assert (Hl : In (last (b :: r') d) (b :: r')) by (apply last_In; discriminate).
  rewrite Forall_forall in F, Wr. pose proof (F _ Hl). pose proof (Wr _ Hl). unfold lin_lt, wf in *. lra.
Qed.

Lemma sorted_wrap_cdisj x r :
  StronglySorted ble (x :: r) -> Forall wf (x :: r) -> adjacent_ok (x :: r) = true ->
  se (last (x :: r) x) < sb x + 1 ->
  all_pairs cdisj (x :: r) /\ Forall narrow (x :: r).
Proof.
  intros S W A Wr. pose proof (adjacent_all (x :: r) S A) as P.
  assert (Hmax : forall y, In y (x :: r) -> se y < sb x + 1).
  { intros y Hy. pose proof (last_max (x :: r) x P W y Hy). lra. }
  assert (Hmin : forall y, In y (x :: r) -> sb x <= sb y).
  { intros y [E | Hy]; [subst; lra |]. inversion S as [| ? ? _ F]; subst.
    rewrite Forall_forall in F. apply F; auto. }
  split.
  - eapply all_pairs_impl_In; [| exact P]. intros y z Hy Hz L m. unfold lin_lt in L.
    pose proof (Hmax z Hz). pose proof (Hmin y Hy).
    assert (Wy : wf y) by (rewrite Forall_forall in W; auto). unfold wf in Wy.
    destruct (Z_le_gt_dec m 0) as [M | M].
    + left. rewrite Zle_Qle in M. change (inject_Z 0) with 0 in M. lra.
    + right. assert (1 <= m)%Z by lia. apply Zpos_Q in H1. lra.
  - apply Forall_forall. intros y Hy. unfold narrow.
    pose proof (Hmax y Hy). pose proof (Hmin y Hy). lra.
Qed.

Lemma normalize_wf s : wf s -> wf (normalize s).
Proof. unfold wf, normalize; cbn. intros; lra. Qed.
Lemma cdisj_unnormalize s s' : cdisj (normalize s) (normalize s') -> cdisj s s'.
Proof.
  unfold cdisj, normalize; cbn. intros H m.
  specialize (H (m + Qfloor (sb s) - Qfloor (sb s'))%Z).
  rewrite inject_Z_sub, inject_Z_plus in H. destruct H; [left | right]; lra.
Qed.
Lemma narrow_unnormalize s : narrow (normalize s) -> narrow s.
Proof. unfold narrow, normalize; cbn. intros; lra. Qed.

Theorem validation_sound sl : check_edges_fixed sl = true ->
  Forall wf sl /\ (slits_disjoint sl \/ full_circle sl).
Proof.
  unfold check_edges_fixed. rewrite !andb_true_iff. intros [W [A Wr]].
  apply begin_le_end_spec in W. split; auto.
  set (nl := map normalize sl) in *.
  assert (Wn : Forall wf nl) by (unfold nl; apply Forall_map; eapply Forall_impl; [| exact W]; apply normalize_wf).
  assert (Ws : Forall wf (sort_by_begin nl)) by (apply (Permutation_Forall (Permutation_sym (sort_perm nl))); auto).
  pose proof (sort_perm nl) as Pm. pose proof (sort_sorted nl) as St.
  destruct (sort_by_begin nl) as [| x r] eqn:Es.
  - (* no slits *)
    apply Permutation_nil in Pm. unfold nl in Pm. destruct sl; [| discriminate].
    left. split; [exact I | constructor].
  - assert (Hcases : se (last (x :: r) x) < sb x + 1 \/ (r = [] /\ se x - sb x == 1)).
    { destruct r as [| y r'].
      - cbn in Wr. apply Qle_bool_iff in Wr. cbn.
        destruct (Qlt_le_dec (se x) (sb x + 1)); [left; auto | right; split; auto; lra].
      - left. cbn [wrap_ok] in Wr. rewrite negb_true_iff, Qleb_false in Wr. exact Wr. }
    destruct Hcases as [Hw | [Er Hfull]].
    + left. destruct (sorted_wrap_cdisj x r St Ws A Hw) as [P N].
      apply (all_pairs_perm cdisj _ nl cdisj_sym Pm) in P.
      apply (Permutation_Forall Pm) in N.
      unfold nl in P, N. split.
      * apply all_pairs_unmap in P. eapply all_pairs_impl; [| exact P]. apply cdisj_unnormalize.
      * rewrite Forall_map in N. eapply Forall_impl; [| exact N]. apply narrow_unnormalize.
    + right. subst r. apply Permutation_length_1_inv in Pm. unfold nl in Pm.
      destruct sl as [| s [| s2 sl']]; try discriminate. exists s. split; auto.
      cbn in Pm. inversion Pm; subst x. unfold normalize in Hfull; cbn in Hfull. lra.
Qed.

(* ---- the tree as found accepts a slit set that overlaps across top-dead-centre *)
Definition tdc_witness : list slit := [mkslit (10 # 360) (50 # 360); mkslit (300 # 360) (380 # 360)].
Theorem tdc_wrap_overlap_refuted :
  exists sl, check_edges_current sl = true /\ ~ slits_disjoint sl.
Proof.
  exists tdc_witness. split; [vm_compute; reflexivity |].
  intro H. apply slits_disjointb_spec in H. vm_compute in H. discriminate.
Qed.
(* the repaired check rejects it *)
Lemma tdc_witness_rejected_fixed : check_edges_fixed tdc_witness = false.
Proof. vm_compute. reflexivity. Qed.
(* a single slit of exactly one turn is accepted (always open), one degree more is not *)
Lemma full_circle_accepted :
  check_edges_fixed [mkslit 0 1] = true /\ check_edges_fixed [mkslit (340 # 360) (701 # 360)] = false.
Proof. vm_compute. auto. Qed.
(* and both accept a slit that spans top-dead-centre next to an ordinary one *)
Lemma tdc_span_accepted :
  check_edges_fixed [mkslit (60 # 360) (120 # 360); mkslit (340 # 360) (382 # 360)] = true
  /\ check_edges_current [mkslit (60 # 360) (120 # 360); mkslit (340 # 360) (382 # 360)] = true.
Proof. vm_compute. auto. Qed.
