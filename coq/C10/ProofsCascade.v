(* C10/ProofsCascade.v — Chopper.from_disk_chopper(disk_chopper, pulse_frequency, npulses).
   cascade_fixed   (repaired: the disk is rotated for the rotations that npulses pulses last)
                   inherits every theorem about the single-pulse openings;
   cascade_current (the tree as found: the single-pulse openings are copied once per pulse, shifted by the
                   pulse period) lists openings twice when f is a multiple of the pulse frequency
                   (rotation -1 of pulse j+1 is rotation n-1 of pulse j) and lists instants at which the
                   disk is closed when f is a sub-multiple (the copy for the next pulse is shifted by a
                   fraction of a rotation). *)
From Coq Require Import QArith Qabs Qround ZArith List Bool Lia Lqa.
From Verif.C10 Require Import Spec Model ProofsTime ProofsDisjoint Oracle ProofsValid.
Import ListNotations.
Open Scope Q_scope.

Theorem cascade_expansion d n ppr p : ~ freq d == 0 ->
  Forall wf (slits d) -> slits_disjoint (slits d) ->
  let l := cascade_fixed d n ppr p in
  let N := cascade_rotations n ppr p in
  openings_once d l
  /\ (forall oc, In oc l -> exists eps, 0 < eps /\ forall t,
        (fst oc - eps < t /\ t < fst oc) \/ (snd oc < t /\ t < snd oc + eps) -> ~ is_open d t)
  /\ (forall t s m, In s (slits d) -> sb s <= beta d t + inject_Z m -> beta d t + inject_Z m <= se s ->
        in_span (freq d) N m -> exists oc, In oc l /\ inside oc t)
  /\ (forall oc, In oc l -> exists s, In s (slits d) /\ snd oc - fst oc == (se s - sb s) / Qabs (freq d)).
Proof.
  intros Hf W D l N. unfold l, cascade_fixed. fold N. repeat split.
  - apply reported_interval_is_opening; auto.
  - apply reported_pairwise_disjoint; auto.
  - apply maximal; auto.
  - apply complete; auto.
  - apply duration; auto.
Qed.

(* the rotations cover the npulses pulses: N rotations of ppr pulses each are at least p * n / n ... *)
Lemma cascade_rotations_cover n ppr p : (0 < ppr)%Z ->
  (Z.of_nat p * n <= cascade_rotations n ppr p * ppr)%Z
  /\ ((cascade_rotations n ppr p - 1) * ppr < Z.of_nat p * n)%Z.
Proof.
  intro H. unfold cascade_rotations, zceil_div. set (a := (Z.of_nat p * n)%Z).
  pose proof (Z.div_mod (- a) ppr). pose proof (Z.mod_pos_bound (- a) ppr H). nia.
Qed.

Lemma all_pairs_nth {A} (R : A -> A -> Prop) l : all_pairs R l ->
  forall i j x y, (i < j)%nat -> nth_error l i = Some x -> nth_error l j = Some y -> R x y.
Proof.
  induction l as [| a r IH]; intros P i j x y Hij Hi Hj.
  - destruct i; discriminate.
  - destruct P as [F P]. destruct j as [| j]; [lia |]. cbn in Hj. destruct i as [| i].
    + cbn in Hi. inversion Hi; subst. rewrite Forall_forall in F. apply F. eapply nth_error_In; eauto.
    + cbn in Hi. apply (IH P i j); auto. lia.
Qed.

(* f = f_pulse = 14 Hz, one slit [10, 50] deg, 2 pulses *)
Definition dup_disk : disk := mkdisk 14 0 [mkslit (10 # 360) (50 # 360)].
Theorem cascade_duplicates_refuted :
  exists d fp n p, ~ freq d == 0 /\ source_phase_factor (freq d) fp = Some n /\
    check_edges_fixed (slits d) = true /\ Forall proper (slits d) /\
    ~ openings_once d (cascade_current d fp n p).
Proof.
  exists dup_disk, 14, 1%Z, 2%nat. split; [vm_compute; discriminate |].
  split; [vm_compute; reflexivity |]. split; [vm_compute; reflexivity |].
  split; [repeat constructor |].
  intros [_ P].
  set (L := cascade_current dup_disk 14 1 2) in P.
  assert (E1 : nth_error L 1 = Some (nth 1 L (0, 0))) by (vm_compute; reflexivity).
  assert (E2 : nth_error L 2 = Some (nth 2 L (0, 0))) by (vm_compute; reflexivity).
  pose proof (all_pairs_nth _ L P 1%nat 2%nat _ _ (le_n 2) E1 E2) as H.
  revert H. apply overlapb_true; try (apply Qle_bool_iff; vm_compute; reflexivity).
  vm_compute. reflexivity.
Qed.

(* f = f_pulse / 2 = 7 Hz, same slit, 2 pulses: the third listed interval begins while the disk is closed *)
Definition sub_disk : disk := mkdisk 7 0 [mkslit (10 # 360) (50 # 360)].
Theorem cascade_phantom_refuted :
  exists d fp n p, ~ freq d == 0 /\ source_phase_factor (freq d) fp = Some n /\
    check_edges_fixed (slits d) = true /\ Forall proper (slits d) /\
    ~ openings_once d (cascade_current d fp n p).
Proof.
  exists sub_disk, 14, 1%Z, 2%nat. split; [vm_compute; discriminate |].
  split; [vm_compute; reflexivity |]. split; [vm_compute; reflexivity |].
  split; [repeat constructor |].
  intros [O _].
  set (L := cascade_current sub_disk 14 1 2) in O.
  assert (Hin : In (nth 2 L (0, 0)) L) by (apply nth_In; vm_compute; lia).
  specialize (O _ Hin (fst (nth 2 L (0, 0)))).
  assert (Hins : inside (nth 2 L (0, 0)) (fst (nth 2 L (0, 0)))).
  { split; apply Qle_bool_iff; vm_compute; reflexivity. }
  apply O in Hins. apply is_openb_spec in Hins. vm_compute in Hins. discriminate.
Qed.
(* the repaired expansion of the two witnesses has neither defect (by computation, besides the theorem) *)
Example cascade_fixed_dup_ok :
  all_pairsb (fun p q => negb (overlapb p q)) (cascade_fixed dup_disk 1 1 2) = true.
Proof. vm_compute. reflexivity. Qed.
Example cascade_fixed_sub_ok :
  forallb (fun oc => is_openb sub_disk (fst oc) && is_openb sub_disk (snd oc)) (cascade_fixed sub_disk 1 2 2) = true.
Proof. vm_compute. reflexivity. Qed.
