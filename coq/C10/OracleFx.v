(* C10/OracleFx.v — the same decision procedure as Oracle.open_at for angles that lie on the grid of
   1/G turn (G = 2^64), in integer arithmetic (fast under vm_compute), proved equal to the specification:
   a grid angle x stands for x/G turns, a grid slit (b, e) for [b/G, e/G]. *)
From Coq Require Import QArith Qabs Qround ZArith List Bool Lia Lqa.
From Verif.C10 Require Import Spec Model ProofsTime Oracle.
Import ListNotations.
Open Scope Z_scope.

Definition GP : positive := 18446744073709551616.
Definition G : Z := Zpos GP.
Definition gq (z : Z) : Q := Qmake z GP.
Definition gslit (be : Z * Z) : slit := mkslit (gq (fst be)) (gq (snd be)).

(* smallest m with b <= x + m G, then test x + m G <= e *)
Definition in_slit_fx (be : Z * Z) (x : Z) : bool :=
  let m := - ((x - fst be) / G) in
  x + m * G <=? snd be.

Lemma gq_le a b : (gq a <= gq b)%Q <-> a <= b.
Proof.
  unfold gq, Qle; cbn [Qnum Qden]. symmetry. apply Z.mul_le_mono_pos_r. reflexivity.
Qed.
Lemma gq_shift x m : (gq x + inject_Z m == gq (x + m * G))%Q.
Proof.
  unfold gq, Qeq, Qplus, inject_Z; cbn [Qnum Qden]. rewrite Pos.mul_1_r. unfold G. ring.
Qed.

Lemma in_slit_fx_spec be x : in_slit_fx be x = true <-> in_slit (gslit be) (gq x).
Proof.
  unfold in_slit_fx, in_slit, gslit; cbn [sb se]. rewrite Z.leb_le.
  assert (HG : 0 < G) by reflexivity.
  set (b := fst be). set (e := snd be).
  pose proof (Z.div_mod (x - b) G ltac:(lia)) as Hd.
  pose proof (Z.mod_pos_bound (x - b) G HG) as Hm.
  split.
  - intro H. exists (- ((x - b) / G)). rewrite gq_shift, !gq_le. split; nia.
  - intros [m [A B]]. rewrite gq_shift in A, B. rewrite gq_le in A, B.
    (* b <= x + m G  and the chosen shift is the least such *)
    assert (- ((x - b) / G) <= m) by nia. nia.
Qed.

Definition open_at_fx (sl : list (Z * Z)) (x : Z) : bool := existsb (fun be => in_slit_fx be x) sl.
Theorem open_at_fx_spec sl x :
  open_at_fx sl x = true <-> exists s, In s (map gslit sl) /\ in_slit s (gq x).
Proof.
  unfold open_at_fx. rewrite existsb_exists. split.
  - intros [be [Hin H]]. exists (gslit be). split; [apply in_map; auto | apply in_slit_fx_spec; auto].
  - intros [s [Hin H]]. apply in_map_iff in Hin. destruct Hin as [be [E Hin]]. subst s.
    exists be. split; auto. apply in_slit_fx_spec; auto.
Qed.
(* so, for a disk whose slits are grid slits, open_at_fx at the grid angle beta(t) IS is_open *)
Corollary open_at_fx_is_open f B sl t x : (beta (mkdisk f B (map gslit sl)) t == gq x)%Q ->
  (open_at_fx sl x = true <-> is_open (mkdisk f B (map gslit sl)) t).
Proof.
  intro E. rewrite open_at_fx_spec. unfold is_open; cbn [slits].
  split; intros [s [Hs [m [A Bq]]]]; exists s; split; auto; exists m.
  - rewrite E. auto.
  - rewrite E in A, Bq. auto.
Qed.

(* grid coordinates of a rational slit / angle (exact when the value lies on the grid) *)
Definition to_grid (q : Q) : Z := Qfloor (q * (G # 1)).
Definition grid_slit (s : slit) : Z * Z := (to_grid (sb s), to_grid (se s)).
Definition on_grid (q : Q) : bool := Qeq_bool (gq (to_grid q)) q.
