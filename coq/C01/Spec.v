(* C01/Spec.v — the de Broglie / Bragg definitions the property names, over R,
   in SI units, with the algebraic facts "any two routes agree" and "every
   invertible conversion round-trips" proved at the level of the definitions. *)
From Coq Require Import Reals Lra.
From Verif.Sem Require Import RLemmas.
Open Scope R_scope.

Section Kin.
Variables h mn : R.
Hypothesis Hh : h > 0.
Hypothesis Hm : mn > 0.

Definition lam_tof (t L : R) := h * t / (mn * L).
Definition E_tof (t L : R) := mn * (L * L) / (2 * (t * t)).
Definition E_lam (l : R) := h * h / (2 * mn * (l * l)).
Definition lam_E (E : R) := h / sqrt (2 * mn * E).
Definition d_lam (l th2 : R) := l / (2 * sin (th2 / 2)).
Definition Q_lam (l th2 : R) := 4 * PI * sin (th2 / 2) / l.
Definition lam_Q (q th2 : R) := 4 * PI * sin (th2 / 2) / q.
Definition d_tof (t L th2 : R) := h * t / (mn * L * (2 * sin (th2 / 2))).
Definition d_E (E th2 : R) := h / (sqrt (8 * mn * E) * sin (th2 / 2)).

(* routes through the graph agree *)
Lemma route_tof_E t L : t > 0 -> L > 0 -> E_lam (lam_tof t L) = E_tof t L.
Proof using Hh Hm. intros; unfold E_lam, lam_tof, E_tof; field; lra. Qed.
Lemma route_tof_d t L th2 : t > 0 -> L > 0 -> 0 < th2 <= PI ->
  d_lam (lam_tof t L) th2 = d_tof t L th2.
Proof using Hh Hm.
  intros Ht HL Hth; pose proof (sin_half_pos _ Hth).
  unfold d_lam, lam_tof, d_tof; field; lra.
Qed.
Lemma sqrt_2mE_pos E : E > 0 -> 0 < sqrt (2 * mn * E).
Proof using Hh Hm. intros; apply sqrt_lt_R0; nra. Qed.
Lemma sqrt8 E : E > 0 -> sqrt (8 * mn * E) = 2 * sqrt (2 * mn * E).
Proof using Hh Hm.
  intros HE. apply sqrt_eq_of_sq.
  - pose proof (sqrt_2mE_pos E HE); lra.
  - transitivity (4 * (sqrt (2 * mn * E) * sqrt (2 * mn * E))); [|ring].
    rewrite sqrt_sqrt by nra. ring.
Qed.
Lemma route_E_d E th2 : E > 0 -> 0 < th2 <= PI -> d_lam (lam_E E) th2 = d_E E th2.
Proof using Hh Hm.
  intros HE Hth; pose proof (sin_half_pos _ Hth); pose proof (sqrt_2mE_pos E HE).
  unfold d_lam, lam_E, d_E. rewrite sqrt8 by assumption. field; lra.
Qed.
(* round trips *)
Lemma lam_E_pos E : E > 0 -> lam_E E > 0.
Proof using Hh Hm. intros HE; pose proof (sqrt_2mE_pos E HE); unfold lam_E; apply Rdiv_lt_0_compat; lra. Qed.
Lemma rt_E_lam_E E : E > 0 -> E_lam (lam_E E) = E.
Proof using Hh Hm.
  intros HE; pose proof (sqrt_2mE_pos E HE).
  unfold E_lam, lam_E.
  replace (h / sqrt (2 * mn * E) * (h / sqrt (2 * mn * E)))
    with (h * h / (sqrt (2 * mn * E) * sqrt (2 * mn * E))) by (field; lra).
  rewrite sqrt_sqrt by nra. field; lra.
Qed.
Lemma rt_lam_E_lam l : l > 0 -> lam_E (E_lam l) = l.
Proof using Hh Hm.
  intros Hl. unfold lam_E, E_lam.
  replace (2 * mn * (h * h / (2 * mn * (l * l)))) with ((h / l) * (h / l)) by (field; lra).
  rewrite sqrt_square by (apply Rlt_le, Rdiv_lt_0_compat; lra). field; lra.
Qed.
Lemma rt_lam_Q_lam l th2 : l > 0 -> 0 < th2 <= PI -> lam_Q (Q_lam l th2) th2 = l.
Proof using Hh Hm.
  intros Hl Hth; pose proof (sin_half_pos _ Hth); pose proof PI_RGT_0.
  unfold lam_Q, Q_lam; field; lra.
Qed.
Lemma Q_times_d l th2 : l > 0 -> 0 < th2 <= PI -> Q_lam l th2 * d_lam l th2 = 2 * PI.
Proof using Hh Hm.
  intros Hl Hth; pose proof (sin_half_pos _ Hth).
  unfold Q_lam, d_lam; field; lra.
Qed.
Lemma E_tof_is_E_lam_of_lam t L : t > 0 -> L > 0 -> E_tof t L = h * h / (2 * mn * (lam_tof t L * lam_tof t L)).
Proof using Hh Hm. intros; unfold E_tof, lam_tof; field; lra. Qed.
End Kin.
