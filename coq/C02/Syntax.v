(* C02/Syntax.v — the small Python subset ("GPy") in which tools/graph2coq.py
   re-emits, on every run, the decision functions of core/conversions.py and
   the graph factories / module tables of conversion/graph/{tof,beamline}.py;
   the value domain of its interpreter (Model.v); derivation trees.
   Definitions only. *)
From Coq Require Import String List ZArith Bool.
Import ListNotations.
Open Scope string_scope.

Inductive cmpop := CEq | CNe | CIn | CNotIn | CLt | CLe | CGt | CGe.
Inductive compkind := KList | KGen | KDict.

Inductive expr :=
| EStr (s : string) | EBool (b : bool) | ENone | EInt (z : Z)
| EVar (x : string)                      (* parameter / local / comprehension variable *)
| EGlobal (q : string)                   (* "<module>.<name>": translated function, module table, kernel; "builtin.<name>" *)
| ETuple (l : list expr) | EList (l : list expr)
| EDict (items : list (option expr * expr))        (* key None: a `**e` entry *)
| ECall (f : expr) (args : list expr) (kw : list (string * expr))
| EMeth (o : expr) (m : string) (args : list expr) (kw : list (string * expr))
| EAttr (o : expr) (a : string)
| ESub (o k : expr)
| ECmp (op : cmpop) (a b : expr)
| ENot (a : expr) | EAnd (a b : expr) | EOr (a b : expr)
| EIfExp (c a b : expr)
| EComp (k : compkind) (elt : expr) (elt2 : option expr) (x : string) (iter : expr) (conds : list expr)
| EFStr (parts : list expr).

Inductive stmt :=
| SAssign (x : string) (e : expr)
| SReturn (e : expr)
| SRaise (e : expr)
| SIf (c : expr) (a b : list stmt)
| STry (body : list stmt) (cls : string) (x : option string) (handler : list stmt).

Inductive gdef :=
| GFun (params : list string) (body : list stmt)   (* a translated function *)
| GConst (e : expr)                                 (* a module-level table *)
| GKernel (params : list string).                   (* a kernel of conversion/{tof,beamline}.py: only its parameter names *)
Definition program := list (string * gdef).

(* derivation tree of a coordinate: a coordinate read from the data, or the
   outputs [outs] of [kernel] applied to the derivations of its parameters *)
Inductive tree := Leaf (n : string) | Node (kernel : string) (outs : list string) (children : list tree).

Inductive val :=
| VNone | VBool (b : bool) | VInt (z : Z) | VStr (s : string)
| VTuple (l : list val) | VList (l : list val)
| VDict (kv : list (val * val))          (* insertion-ordered, keys pairwise different *)
| VKernel (q : string) | VFun (q : string) | VBuiltin (b : string)
| VData                                  (* the DataArray/Dataset argument; opaque, see Model.M *)
| VCoords                                (* data.coords *)
| VTree (t : tree)                       (* the converted data: how the target coordinate was obtained *)
| VExcObj (cls : string) (arg : val).    (* an exception instance; arg = args[0] *)

Fixpoint assoc {A} (k : string) (l : list (string * A)) : option A :=
  match l with [] => None | (k', v) :: r => if String.eqb k k' then Some v else assoc k r end.
Definition mem (l : list string) (x : string) : bool := existsb (String.eqb x) l.
