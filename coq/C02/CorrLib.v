(* C02/CorrLib.v — how observations of the REAL convert / deduce_conversion_graph
   are written down as Coq data and compared, inside Coq, with the executable
   model run on the same configuration.  Definitions only. *)
From Coq Require Import String List NArith Bool DecimalString.
From Verif.C02 Require Import Syntax Model Spec Check.
Import ListNotations.
Open Scope string_scope.

(* one observed call; msg / kernel set / graph are indices into the tables of the shard *)
Record obs := mkobs {
  ob_x : bool; ob_p : N;
  ob_cls : string;          (* "ok" or the exception class raised by convert *)
  ob_msg : nat;             (* str(exception) *)
  ob_kernels : nat;         (* the set of kernels that were invoked *)
  ob_rep_cls : string;      (* "ok" or the exception class raised by deduce_conversion_graph *)
  ob_rep_msg : nat;
  ob_rep : nat;             (* the reported graph: rows (keys, kernel), dict order *)
  ob_same : bool }.         (* convert handed exactly that graph to transform_coords *)
Record grp := mkgrp { g_o : string; g_t : string; g_sc : bool; g_obs : list obs }.
Record tables := mktables {
  t_msgs : list string; t_ksets : list (list string); t_graphs : list (list (list string * string)) }.

Definition nat_str (n : nat) : string := NilEmpty.string_of_uint (Nat.to_uint n).
Definition same_set (a b : list string) : bool := forallb (mem b) a && forallb (mem a) b.

Fixpoint graph_rows (kv : list (val * val)) : option (list (list string * string)) :=
  match kv with
  | [] => Some []
  | (k, VKernel q) :: r =>
      match key_names k, graph_rows r with
      | Some ks, Some rows => Some ((ks, q) :: rows)
      | _, _ => None
      end
  | _ => None
  end.
Fixpoint rows_same (a b : list (list string * string)) : bool :=
  match a, b with
  | [], [] => true
  | (ka, qa) :: a', (kb, qb) :: b' => strs_same ka kb && String.eqb qa qb && rows_same a' b'
  | _, _ => false
  end.

Definition exc_text (a : val) : string := match py_str a with Some s => s | None => "<unprintable>" end.

Section C.
Variable T : tables.

Definition cmp_outcome (rl : res val * log) (ob : obs) : string :=
  let kset := nth (ob_kernels ob) (t_ksets T) ["<bad index>"] in
  match fst rl with
  | Ok (VTree tr) =>
      if String.eqb (ob_cls ob) "ok" then
        if same_set (kernels tr) kset then "" else "kernels-invoked-differ-from-tree"
      else "model-converts/impl-raises-" ++ ob_cls ob
  | Ok _ => "model-returns-non-tree"
  | Exc c a =>
      if String.eqb (ob_cls ob) "ok" then "impl-converts/model-raises-" ++ c
      else if negb (String.eqb (ob_cls ob) c) then "class/model-" ++ c ++ "/impl-" ++ ob_cls ob
      else if negb (String.eqb (exc_text a) (nth (ob_msg ob) (t_msgs T) "<bad index>")) then "message"
      else match kset with [] => "" | _ => "kernels-invoked-before-refusal" end
  end.

Definition cmp_reported (rp : res val) (ob : obs) : string :=
  match rp with
  | Ok (VDict kv) =>
      if String.eqb (ob_rep_cls ob) "ok" then
        match graph_rows kv with
        | Some rows => if rows_same rows (nth (ob_rep ob) (t_graphs T) [(["<bad index>"], "")]) then "" else "reported-graph"
        | None => "model-graph-not-printable"
        end
      else "model-reports-graph/impl-raises-" ++ ob_rep_cls ob
  | Ok _ => "model-reports-non-dict"
  | Exc c a =>
      if negb (String.eqb (ob_rep_cls ob) c) then "reported-class/model-" ++ c ++ "/impl-" ++ ob_rep_cls ob
      else if negb (String.eqb (exc_text a) (nth (ob_rep_msg ob) (t_msgs T) "<bad index>")) then "reported-message"
      else ""
  end.

Definition check_obs (cm rm : M val) (o t : string) (sc : bool) (ob : obs) : string :=
  let pr := present (mkcfg o t sc (ob_x ob) (ob_p ob)) in
  let a := cmp_outcome (interp pr cm []) ob in
  if negb (String.eqb a "") then a else
  let b := cmp_reported (fst (interp pr rm [])) ob in
  if negb (String.eqb b "") then b else
  if ob_same ob then "" else "impl-graph-used-differs-from-reported".

Fixpoint collect_fails (i : nat) (rs : list string) (budget : nat) : string :=
  match rs, budget with
  | [], _ => ""
  | _, O => "..."
  | r :: rs', S b =>
      if String.eqb r "" then collect_fails (S i) rs' budget
      else nat_str i ++ "/" ++ r ++ "," ++ collect_fails (S i) rs' b
  end.

(* "" or "<index in group>/<reason>,..." (first few) *)
Definition check_grp (P : program) (g : grp) : string :=
  let cm := convert_m P (g_o g) (g_t g) (g_sc g) in
  let rm := reported_m P (g_o g) (g_t g) (g_sc g) in
  collect_fails 0 (map (check_obs cm rm (g_o g) (g_t g) (g_sc g)) (g_obs g)) 6.
End C.

(* one line per shard: "OK <n>" or "F<i>:<reason>;..." — parsed by lib/vlib.py *)
Fixpoint report_aux (i : nat) (rs : list string) (acc : string) (nfail : nat) : string * nat :=
  match rs with
  | [] => (acc, nfail)
  | r :: rs' =>
      if String.eqb r "" then report_aux (S i) rs' acc nfail
      else report_aux (S i) rs' (acc ++ "F" ++ nat_str i ++ ":" ++ r ++ ";") (S nfail)
  end.
Definition report (rs : list string) : string :=
  let '(s, nf) := report_aux 0 rs "" 0 in
  if Nat.eqb nf 0 then "OK " ++ nat_str (List.length rs) else s.

(* ------------------------------------------------------------------ which configurations fail `check`, and where
   (evaluated by the search step when an enumeration shard no longer proves) *)
Definition fail_parts (cm rm mm : M val) (c : cfg) : string :=
  let pr := present c in
  let rl := interp pr cm [] in
  let r := fst rl in
  (if b_total r then "" else "total ") ++
  (if b_mode_selection pr (c_o c) (c_t c) (fst (interp pr mm [])) then "" else "mode_selection ") ++
  (if b_iff pr (c_o c) (c_t c) (c_sc c) r then "" else "iff_derivable ") ++
  (if b_precedence pr (c_t c) r then "" else "precedence ") ++
  (if b_mode_right pr (c_t c) r then "" else "mode_right ") ++
  (if b_documented pr (c_o c) (c_t c) (c_sc c) r then "" else "documented_kernels ") ++
  (if b_reported rl (fst (interp pr rm [])) then "" else "reported_graph ").
Definition bool_str (b : bool) : string := if b then "1" else "0".
Definition describe_cfg (c : cfg) (why : string) : string :=
  c_o c ++ "|" ++ c_t c ++ "|" ++ bool_str (c_sc c) ++ "|" ++ bool_str (c_x c) ++ "|" ++ nat_str (N.to_nat (c_p c)) ++ "|" ++ why.
Definition failures_ots (P : program) (o t : string) (sc : bool) (limit : nat) : list string :=
  let cm := convert_m P o t sc in
  let rm := reported_m P o t sc in
  let mm := mode_m P o t in
  firstn limit (flat_map (fun c => let w := fail_parts cm rm mm c in
                                   if String.eqb w "" then [] else [describe_cfg c w]) (cfgs_ots o t sc)).
Definition failures_group (P : program) (o : string) (g : list string) (limit : nat) : list string :=
  flat_map (fun t => flat_map (fun sc => failures_ots P o t sc limit) bools) g.
