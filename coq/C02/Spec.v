(* C02/Spec.v — what the property is stated against, written from the
   documentation (user guide "Coordinate Transformations", the docstrings of
   scippneutron.convert / conversion_graph and of the kernels), NOT from the
   graph tables of the code: which coordinate is computed from which, per
   scattering mode; which energy mode the presence of incident_energy /
   final_energy selects and when that selection is refused; the least set of
   coordinates derivable from the supplied ones.  Definitions only. *)
From Coq Require Import String List NArith Bool.
From Verif.C02 Require Import Syntax.
Import ListNotations.
Open Scope string_scope.

(* the configuration space of the property *)
Definition origins : list string := ["energy"; "tof"; "Q"; "wavelength"].
Definition names11 : list string :=
  ["position"; "source_position"; "sample_position"; "incident_beam"; "scattered_beam";
   "L1"; "L2"; "Ltotal"; "two_theta"; "incident_energy"; "final_energy"].
(* inputs of the hkl / time_at_sample conversions; present all together or not at all *)
Definition extras : list string := ["u_matrix"; "b_matrix"; "sample_rotation"; "pulse_time"].
Definition targets : list string :=
  ["dspacing"; "energy"; "wavelength"; "Q"; "Q_vec"; "Qx"; "Qy"; "Qz"; "hkl_vec"; "h"; "k"; "l"; "ub_matrix";
   "time_at_sample"; "energy_transfer";
   "incident_beam"; "scattered_beam"; "L1"; "L2"; "two_theta"; "Ltotal";
   "tof"; "position"; "not_a_coordinate"].

Fixpoint select_from (i : N) (names : list string) (p : N) : list string :=
  match names with
  | [] => []
  | n :: r => if N.testbit p i then n :: select_from (N.succ i) r p else select_from (N.succ i) r p
  end.
Definition select := select_from 0%N.

Record cfg := mkcfg { c_o : string; c_t : string; c_sc : bool; c_x : bool; c_p : N }.
(* the coordinates on the data: the origin, the chosen subset of the 11, the extras or not *)
Definition present (c : cfg) : list string :=
  (c_o c :: select names11 (c_p c) ++ (if c_x c then extras else []))%list.
Definition in_space (c : cfg) : Prop :=
  In (c_o c) origins /\ In (c_t c) targets /\ (c_p c < 2048)%N.

(* ------------------------------------------------------------------ documented rules *)
(* (outputs, inputs) *)
Definition rule := (list string * list string)%type.
(* the documented kernel ("<module>.<function>" of scippneutron.conversion) computing these outputs from these inputs *)
Definition krule := (string * rule)%type.

Definition beamline_scatter : list krule :=
  [ ("beamline.straight_incident_beam", (["incident_beam"], ["source_position"; "sample_position"]));  (* sample_position - source_position *)
    ("beamline.straight_scattered_beam", (["scattered_beam"], ["position"; "sample_position"]));       (* position - sample_position *)
    ("beamline.L1", (["L1"], ["incident_beam"]));                                                      (* |incident_beam| *)
    ("beamline.L2", (["L2"], ["scattered_beam"]));                                                     (* |scattered_beam| *)
    ("beamline.two_theta", (["two_theta"], ["incident_beam"; "scattered_beam"]));                      (* angle between the beams *)
    ("beamline.total_beam_length", (["Ltotal"], ["L1"; "L2"])) ].                                      (* L1 + L2 *)
Definition beamline_no_scatter : list krule :=
  [ ("beamline.total_straight_beam_length_no_scatter", (["Ltotal"], ["source_position"; "position"])) ]. (* |position - source_position| *)

Definition q_and_hkl : list krule :=
  [ ("tof.Q_from_wavelength", (["Q"], ["wavelength"; "two_theta"]));
    ("tof.Q_elements_from_wavelength", (["Qx"; "Qy"; "Qz"], ["wavelength"; "incident_beam"; "scattered_beam"]));
    ("tof.Q_vec_from_Q_elements", (["Q_vec"], ["Qx"; "Qy"; "Qz"]));
    ("tof.ub_matrix_from_u_and_b", (["ub_matrix"], ["u_matrix"; "b_matrix"]));
    ("tof.hkl_vec_from_Q_vec", (["hkl_vec"], ["Q_vec"; "ub_matrix"; "sample_rotation"]));
    ("tof.hkl_elements_from_hkl_vec", (["h"; "k"; "l"], ["hkl_vec"])) ].

Definition dynamics (o : string) : list krule :=
  if String.eqb o "tof" then
    [ ("tof.wavelength_from_tof", (["wavelength"], ["tof"; "Ltotal"]));
      ("tof.energy_from_tof", (["energy"], ["tof"; "Ltotal"]));
      ("tof.dspacing_from_tof", (["dspacing"], ["tof"; "Ltotal"; "two_theta"]));
      ("tof.time_at_sample_from_tof", (["time_at_sample"], ["pulse_time"; "tof"; "L2"; "wavelength"])) ] ++ q_and_hkl
  else if String.eqb o "wavelength" then
    [ ("tof.energy_from_wavelength", (["energy"], ["wavelength"]));
      ("tof.dspacing_from_wavelength", (["dspacing"], ["wavelength"; "two_theta"])) ] ++ q_and_hkl
  else if String.eqb o "energy" then
    [ ("tof.wavelength_from_energy", (["wavelength"], ["energy"]));
      ("tof.dspacing_from_energy", (["dspacing"], ["energy"; "two_theta"])) ]
  else if String.eqb o "Q" then
    [ ("tof.wavelength_from_Q", (["wavelength"], ["Q"; "two_theta"])) ]
  else [].

Inductive mode := Elastic | Direct | Indirect.
Definition mode_name (m : mode) : string :=
  match m with Elastic => "elastic" | Direct => "direct_inelastic" | Indirect => "indirect_inelastic" end.
Definition direct_kernel := "tof.energy_transfer_direct_from_tof".
Definition indirect_kernel := "tof.energy_transfer_indirect_from_tof".

Definition spec_krules (scatter : bool) (m : mode) (o : string) : list krule :=
  if scatter then
    beamline_scatter ++
    match m with
    | Elastic => dynamics o
    | Direct => [ (direct_kernel, (["energy_transfer"], ["tof"; "L1"; "L2"; "incident_energy"])) ]
    | Indirect => [ (indirect_kernel, (["energy_transfer"], ["tof"; "L1"; "L2"; "final_energy"])) ]
    end
  else
    (* without scattering only the kinematics of the time of flight is defined *)
    beamline_no_scatter ++ [ ("tof.wavelength_from_tof", (["wavelength"], ["tof"; "Ltotal"]));
                             ("tof.energy_from_tof", (["energy"], ["tof"; "Ltotal"])) ].
Definition spec_rules (scatter : bool) (m : mode) (o : string) : list rule := map snd (spec_krules scatter m o).

(* the energy mode, or None where the request must be refused:
   energy_transfer with both or neither of incident_energy / final_energy;
   elastic `energy` as origin or target while either of them is present *)
Definition spec_mode (pres : list string) (o t : string) : option mode :=
  let ie := mem pres "incident_energy" in
  let fe := mem pres "final_energy" in
  if String.eqb t "energy_transfer" then
    if ie && fe then None else if ie then Some Direct else if fe then Some Indirect else None
  else if String.eqb o "energy" || String.eqb t "energy" then
    if ie || fe then None else Some Elastic
  else Some Elastic.

(* the least set closed under the rules that contains the supplied coordinates *)
Inductive Derivable (rules : list rule) (pres : list string) : string -> Prop :=
| D_supplied : forall n, In n pres -> Derivable rules pres n
| D_rule : forall outs ins n, In (outs, ins) rules -> In n outs ->
    (forall i, In i ins -> Derivable rules pres i) -> Derivable rules pres n.

(* ------------------------------------------------------------------ reading a derivation tree *)
Fixpoint leaves (t : tree) : list string :=
  match t with Leaf n => [n] | Node _ _ cs => flat_map leaves cs end.
Fixpoint computed (t : tree) : list string :=
  match t with Leaf _ => [] | Node _ outs cs => (outs ++ flat_map computed cs)%list end.
Fixpoint kernels (t : tree) : list string :=
  match t with Leaf _ => [] | Node k _ cs => k :: flat_map kernels cs end.
Definition root_names (t : tree) : list string :=
  match t with Leaf n => [n] | Node _ outs _ => outs end.

(* every step of a derivation applies the documented kernel for its outputs to derivations of
   exactly its documented inputs *)
Inductive Documented (krules : list krule) : tree -> Prop :=
| Doc_leaf : forall n, Documented krules (Leaf n)
| Doc_node : forall k outs ins cs,
    In (k, (outs, ins)) krules -> List.length cs = List.length ins ->
    (forall i, In i ins -> exists c, In c cs /\ In i (root_names c)) ->
    (forall c, In c cs -> Documented krules c) ->
    Documented krules (Node k outs cs).
