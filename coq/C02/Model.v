(* C02/Model.v — executable models (no proofs inside).

   1. scipp's `transform_coords` as a function on NAMES (hand model of
      scipp/coords/graph.py: Graph.__init__/_convert_to_rule_graph,
      graph_for/_rule_for): depth-first from the target; a name present on the
      data is a leaf and takes precedence over a rule; a name with neither
      coordinate nor rule raises KeyError with scipp's message; dependencies
      are visited last-to-first (scipp pops them from a stack), which decides
      WHICH missing name is reported.  Dim renaming, alias bookkeeping, the
      numeric work of the kernels are outside this model.
   2. the interpreter of the GPy subset (Syntax.v) in which the decision
      functions of core/conversions.py are regenerated on every run:
      dict displays with ** entries, dict(), subscripts, ==, in, len, any,
      isinstance(_, str), comprehensions with one generator, conditional
      expressions, f-strings, if / return / raise / try-except, calls of
      translated functions with positional and keyword arguments.  Anything
      it cannot give a meaning to raises the pseudo-exception "ModelStuck"
      (fail-closed: the theorems only allow RuntimeError).  Recursion is on a
      DEPTH budget; exhaustion raises the pseudo-exception "OutOfFuel".
   The data argument is OPAQUE to the interpreter: the meaning of a call is an
   interaction tree (type M) whose nodes are the two ways the code looks at
   the data — `name in data.coords` (both answers are continued) and
   `data.transform_coords(target, graph=g)` — so that the part of the work
   that does not depend on the data (building the graph) is done once per
   (origin, target, scatter).  `interp present m` then answers the questions
   for a concrete set of coordinate names and returns the outcome together
   with the graphs that were handed to transform_coords. *)
From Coq Require Import String List ZArith Bool Ascii.
From Verif.C02 Require Import Syntax.
Import ListNotations.
Open Scope string_scope.

(* ------------------------------------------------------------------ results *)
Inductive res (A : Type) := Ok (a : A) | Exc (cls : string) (arg : val).
Arguments Ok {A} a.
Arguments Exc {A} cls arg.

(* ------------------------------------------------------------------ value helpers *)
Fixpoint val_eqb (a b : val) {struct a} : bool :=
  match a, b with
  | VNone, VNone => true
  | VBool x, VBool y => Bool.eqb x y
  | VInt x, VInt y => Z.eqb x y
  | VStr x, VStr y => String.eqb x y
  | VTuple x, VTuple y | VList x, VList y =>
      (fix go (x y : list val) : bool :=
         match x, y with
         | [], [] => true
         | a :: x', b :: y' => val_eqb a b && go x' y'
         | _, _ => false
         end) x y
  | VKernel x, VKernel y | VFun x, VFun y | VBuiltin x, VBuiltin y => String.eqb x y
  | _, _ => false
  end.

Fixpoint dict_get (kv : list (val * val)) (k : val) : option val :=
  match kv with [] => None | (k', v) :: r => if val_eqb k k' then Some v else dict_get r k end.
(* d[k] = v : an existing key keeps its position, a new key goes last *)
Fixpoint dict_set (kv : list (val * val)) (k v : val) : list (val * val) :=
  match kv with
  | [] => [(k, v)]
  | (k', v') :: r => if val_eqb k k' then (k', v) :: r else (k', v') :: dict_set r k v
  end.
Definition dict_update (a b : list (val * val)) : list (val * val) :=
  fold_left (fun acc kv => dict_set acc (fst kv) (snd kv)) b a.

Definition truthy (v : val) : option bool :=
  match v with
  | VBool b => Some b
  | VNone => Some false
  | VInt z => Some (negb (Z.eqb z 0))
  | VStr s => Some (negb (String.eqb s ""))
  | VList l | VTuple l => Some (match l with [] => false | _ => true end)
  | VDict l => Some (match l with [] => false | _ => true end)
  | _ => None
  end.

Definition iter_items (v : val) : option (list val) :=
  match v with
  | VList l | VTuple l => Some l
  | VDict kv => Some (map fst kv)
  | _ => None
  end.

Fixpoint join (sep : string) (l : list string) : string :=
  match l with [] => "" | [x] => x | x :: r => x ++ sep ++ join sep r end.

(* repr / str of the values that occur inside the f-strings of the messages *)
Fixpoint py_repr (v : val) : option string :=
  match v with
  | VStr s => Some ("'" ++ s ++ "'")
  | VBool true => Some "True" | VBool false => Some "False"
  | VNone => Some "None"
  | VList l =>
      (fix go (l : list val) (acc : list string) : option string :=
         match l with
         | [] => Some ("[" ++ join ", " (rev acc) ++ "]")
         | x :: r => match py_repr x with Some s => go r (s :: acc) | None => None end
         end) l []
  | _ => None
  end.
Definition py_str (v : val) : option string :=
  match v with VStr s => Some s | _ => py_repr v end.

(* ------------------------------------------------------------------ 1. transform_coords on names *)
Record rule := mkrule { r_kernel : string; r_outs : list string; r_deps : list string }.

Definition key_names (k : val) : option (list string) :=
  match k with
  | VStr s => Some [s]
  | VTuple l =>
      (fix go (l : list val) : option (list string) :=
         match l with
         | [] => Some []
         | VStr s :: r => match go r with Some t => Some (s :: t) | None => None end
         | _ => None
         end) l
  | _ => None
  end.

Definition stuck {A} (why : string) : res A := Exc "ModelStuck" (VStr why).

Section WithProgram.
Variable P : program.

(* scipp _convert_to_rule_graph: every product name maps to its rule; a name produced twice is a ValueError *)
Fixpoint rule_graph (g : list (val * val)) (acc : list (string * rule)) : res (list (string * rule)) :=
  match g with
  | [] => Ok acc
  | (k, v) :: r =>
      match key_names k, v with
      | Some outs, VKernel q =>
          match assoc q P with
          | Some (GKernel ps) =>
              let rl := mkrule q outs ps in
              (fix add (os : list string) (acc : list (string * rule)) : res (list (string * rule)) :=
                 match os with
                 | [] => rule_graph r acc
                 | o :: os' =>
                     match assoc o acc with
                     | Some _ => Exc "ValueError" (VStr ("Duplicate output name defined in conversion graph: " ++ o))
                     | None => add os' (acc ++ [(o, rl)])%list
                     end
                 end) outs acc
          | _ => stuck ("graph value is not a known kernel: " ++ q)
          end
      | Some _, _ => stuck "graph value is not a kernel (rename rules are not modelled)"
      | None, _ => stuck "graph key is neither a str nor a tuple of str"
      end
  end.

Definition keyerror_msg (n : string) : string :=
  "Coordinate '" ++ n ++ "' does not exist in the input data and no rule has been provided to compute it.".

(* first error scanning the LAST dependency first (scipp pushes the dependencies on a stack and pops) *)
Fixpoint collect (rs : list (res tree)) : res (list tree) :=
  match rs with
  | [] => Ok []
  | r :: rest =>
      match collect rest with
      | Exc c a => Exc c a
      | Ok ts => match r with Ok t => Ok (t :: ts) | Exc c a => Exc c a end
      end
  end.

Fixpoint resolve (fuel : nat) (rg : list (string * rule)) (present : list string) (n : string) : res tree :=
  match fuel with
  | O => Exc "OutOfFuel" VNone
  | S f =>
      if mem present n then Ok (Leaf n)
      else match assoc n rg with
           | None => Exc "KeyError" (VStr (keyerror_msg n))
           | Some rl =>
               match collect (map (resolve f rg present) (r_deps rl)) with
               | Ok ts => Ok (Node (r_kernel rl) (r_outs rl) ts)
               | Exc c a => Exc c a
               end
           end
  end.

(* Graph(graph): the rule graph, prepared once per graph *)
Definition prepare (graph : val) : res (list (string * rule)) :=
  match graph with
  | VDict g => rule_graph g []
  | _ => stuck "transform_coords: graph is not a dict"
  end.
Definition resolve_target (prep : res (list (string * rule))) (present : list string) (target : val) : res val :=
  match prep, target with
  | Exc c a, _ => Exc c a
  | Ok rg, VStr t =>
      match resolve (2 + List.length rg) rg present t with
      | Ok tr => Ok (VTree tr)
      | Exc c a => Exc c a
      end
  | Ok _, _ => stuck "transform_coords: target is not a str"
  end.
Definition transform_coords (present : list string) (target graph : val) : res val :=
  resolve_target (prepare graph) present target.

(* ------------------------------------------------------------------ 2. interpreter *)
Definition env := list (string * val).
Definition log := list val.
Inductive M (A : Type) :=
| Ret (a : A)
| Raise (cls : string) (arg : val)
| AskMember (n : string) (kt kf : M A)                     (* n in data.coords ? *)
| AskTransform (t g : val) (prep : res (list (string * rule))) (k : res val -> M A).
Arguments Ret {A} a.
Arguments Raise {A} cls arg.
Arguments AskMember {A} n kt kf.
Arguments AskTransform {A} t g prep k.
Definition ret {A} (a : A) : M A := Ret a.
Definition raise {A} (c : string) (a : val) : M A := Raise c a.
Definition mstuck {A} (why : string) : M A := raise "ModelStuck" (VStr why).
Fixpoint bind {A B} (m : M A) (k : A -> M B) : M B :=
  match m with
  | Ret a => k a
  | Raise c a => Raise c a
  | AskMember n kt kf => AskMember n (bind kt k) (bind kf k)
  | AskTransform t g p k' => AskTransform t g p (fun r => bind (k' r) k)
  end.
(* try: m except cls as x: h x *)
Fixpoint catch {A} (m : M A) (cls : string) (h : val -> M A) : M A :=
  match m with
  | Ret a => Ret a
  | Raise c a => if String.eqb c cls then h a else Raise c a
  | AskMember n kt kf => AskMember n (catch kt cls h) (catch kf cls h)
  | AskTransform t g p k => AskTransform t g p (fun r => catch (k r) cls h)
  end.
Definition lift {A} (r : res A) : M A := match r with Ok a => Ret a | Exc c a => Raise c a end.
Notation "'do' x <- m ;; k" := (bind m (fun x => k)) (at level 200, x name, m at level 100, k at level 200).

Fixpoint interp {A} (present : list string) (m : M A) (l : log) : res A * log :=
  match m with
  | Ret a => (Ok a, l)
  | Raise c a => (Exc c a, l)
  | AskMember n kt kf => if mem present n then interp present kt l else interp present kf l
  | AskTransform t g p k => interp present (k (resolve_target p present t)) (l ++ [g])%list
  end.

Fixpoint mapM {A B} (f : A -> M B) (l : list A) : M (list B) :=
  match l with
  | [] => ret []
  | x :: r => do y <- f x ;; do ys <- mapM f r ;; ret (y :: ys)
  end.

Definition need_bool (v : val) : M bool :=
  match truthy v with Some b => ret b | None => mstuck "truth value of an unsupported object" end.

Fixpoint is_substring (a b : string) : bool :=
  if String.prefix a b then true else match b with EmptyString => false | String _ b' => is_substring a b' end.

Definition contains (a b : val) : M bool :=
  match b with
  | VList l | VTuple l => ret (existsb (val_eqb a) l)
  | VDict kv => ret (existsb (fun p => val_eqb a (fst p)) kv)
  | VCoords => match a with VStr s => AskMember s (ret true) (ret false) | _ => ret false end
  | VStr s => match a with VStr x => ret (is_substring x s) | _ => raise "TypeError" (VStr "'in <string>' requires string as left operand") end
  | _ => mstuck "membership test on an unsupported object"
  end.

Definition compare (op : cmpop) (a b : val) : M val :=
  match op with
  | CEq => ret (VBool (val_eqb a b))
  | CNe => ret (VBool (negb (val_eqb a b)))
  | CIn => do r <- contains a b ;; ret (VBool r)
  | CNotIn => do r <- contains a b ;; ret (VBool (negb r))
  | _ => match a, b with
         | VInt x, VInt y =>
             ret (VBool (match op with CLt => Z.ltb x y | CLe => Z.leb x y | CGt => Z.ltb y x | _ => Z.leb y x end))
         | _, _ => mstuck "ordering comparison of non-integers"
         end
  end.

Definition subscript (o k : val) : M val :=
  match o with
  | VDict kv => match dict_get kv k with Some v => ret v | None => raise "KeyError" k end
  | VList l | VTuple l =>
      match k with
      | VInt z => if Z.ltb z 0 then mstuck "negative index"
                  else match nth_error l (Z.to_nat z) with Some v => ret v | None => raise "IndexError" (VStr "index out of range") end
      | _ => mstuck "non-integer index"
      end
  | _ => mstuck "subscript of an unsupported object"
  end.

Definition attribute (o : val) (a : string) : M val :=
  match o with
  | VData => if String.eqb a "coords" then ret VCoords else mstuck ("attribute of data: " ++ a)
  | VExcObj _ arg => if String.eqb a "args" then ret (VTuple [arg]) else mstuck ("attribute of exception: " ++ a)
  | _ => mstuck ("attribute " ++ a ++ " of an unsupported object")
  end.

Definition exc_classes : list string := ["RuntimeError"; "KeyError"; "ValueError"; "TypeError"; "IndexError"].

Definition builtin (b : string) (args : list val) (kw : list (string * val)) : M val :=
  match kw with
  | _ :: _ => mstuck ("keyword arguments to builtin " ++ b)
  | [] =>
    if String.eqb b "dict" then
      match args with
      | [] => ret (VDict [])
      | [VDict kv] => ret (VDict kv)
      | _ => mstuck "dict(...) of a non-dict"
      end
    else if String.eqb b "len" then
      match args with
      | [VList l] | [VTuple l] => ret (VInt (Z.of_nat (List.length l)))
      | [VDict kv] => ret (VInt (Z.of_nat (List.length kv)))
      | [VStr s] => ret (VInt (Z.of_nat (String.length s)))
      | _ => mstuck "len of an unsupported object"
      end
    else if String.eqb b "any" then
      match args with
      | [v] => match iter_items v with
               | Some l => do bs <- mapM need_bool l ;; ret (VBool (existsb (fun x => x) bs))
               | None => mstuck "any of a non-iterable"
               end
      | _ => mstuck "any: arity"
      end
    else if String.eqb b "isinstance" then
      match args with
      | [v; VBuiltin c] =>
          if String.eqb c "str" then ret (VBool (match v with VStr _ => true | _ => false end))
          else if String.eqb c "tuple" then ret (VBool (match v with VTuple _ => true | _ => false end))
          else mstuck "isinstance with an unsupported class"
      | _ => mstuck "isinstance with an unsupported class"
      end
    else if String.eqb b "list" then
      match args with
      | [v] => match iter_items v with Some l => ret (VList l) | None => mstuck "list of a non-iterable" end
      | _ => mstuck "list: arity"
      end
    else if String.eqb b "tuple" then
      match args with
      | [v] => match iter_items v with Some l => ret (VTuple l) | None => mstuck "tuple of a non-iterable" end
      | _ => mstuck "tuple: arity"
      end
    else if mem exc_classes b then
      match args with
      | [v] => ret (VExcObj b v)
      | [] => ret (VExcObj b VNone)
      | _ => mstuck "exception with several arguments"
      end
    else mstuck ("call of unsupported builtin " ++ b)
  end.

Definition method (o : val) (m : string) (args : list val) (kw : list (string * val)) : M val :=
  match o with
  | VDict kv =>
      if String.eqb m "keys" then match args, kw with [], [] => ret (VList (map fst kv)) | _, _ => mstuck "keys: arity" end
      else if String.eqb m "values" then match args, kw with [], [] => ret (VList (map snd kv)) | _, _ => mstuck "values: arity" end
      else if String.eqb m "copy" then match args, kw with [], [] => ret (VDict kv) | _, _ => mstuck "copy: arity" end
      else mstuck ("dict method " ++ m)
  | VData =>
      if String.eqb m "transform_coords" then
        match args, kw with
        | [t], [(k, g)] =>
            if String.eqb k "graph" then AskTransform t g (prepare g) lift
            else mstuck "transform_coords: unsupported keyword"
        | [t; g], [] => AskTransform t g (prepare g) lift
        | _, _ => mstuck "transform_coords: unsupported call shape"
        end
      else mstuck ("data method " ++ m)
  | _ => mstuck ("method " ++ m ++ " of an unsupported object")
  end.

(* bind positional then keyword arguments to the parameter names *)
Fixpoint bind_pos (ps : list string) (args : list val) (acc : env) : option (list string * env) :=
  match args, ps with
  | [], _ => Some (ps, acc)
  | a :: r, p :: ps' => bind_pos ps' r ((p, a) :: acc)
  | _ :: _, [] => None
  end.
Fixpoint remove_str (x : string) (l : list string) : list string :=
  match l with [] => [] | y :: r => if String.eqb x y then r else y :: remove_str x r end.
Fixpoint bind_kw (ps : list string) (kw : list (string * val)) (acc : env) : option (list string * env) :=
  match kw with
  | [] => Some (ps, acc)
  | (k, v) :: r => if mem ps k then bind_kw (remove_str k ps) r ((k, v) :: acc) else None
  end.
Definition bind_args (ps : list string) (args : list val) (kw : list (string * val)) : option env :=
  match bind_pos ps args [] with
  | None => None
  | Some (rest, e) =>
      match bind_kw rest kw e with
      | Some ([], e') => Some e'
      | _ => None
      end
  end.

Definition out_of_fuel {A} : M A := raise "OutOfFuel" VNone.

Fixpoint eval (fuel : nat) (E : env) (e : expr) {struct fuel} : M val :=
  match fuel with
  | O => out_of_fuel
  | S f =>
    match e with
    | EStr s => ret (VStr s)
    | EBool b => ret (VBool b)
    | ENone => ret VNone
    | EInt z => ret (VInt z)
    | EVar x => match assoc x E with Some v => ret v | None => raise "NameError" (VStr x) end
    | EGlobal q =>
        match assoc q P with
        | Some (GFun _ _) => ret (VFun q)
        | Some (GKernel _) => ret (VKernel q)
        | Some (GConst e') => eval f [] e'
        | None =>
            if String.prefix "builtin." q then ret (VBuiltin (String.substring 8 (String.length q - 8) q))
            else mstuck ("unknown global " ++ q)
        end
    | ETuple l => do vs <- mapM (eval f E) l ;; ret (VTuple vs)
    | EList l => do vs <- mapM (eval f E) l ;; ret (VList vs)
    | EDict items =>
        (fix go (items : list (option expr * expr)) (acc : list (val * val)) : M val :=
           match items with
           | [] => ret (VDict acc)
           | (Some k, v) :: r => do kv <- eval f E k ;; do vv <- eval f E v ;; go r (dict_set acc kv vv)
           | (None, v) :: r =>
               do vv <- eval f E v ;;
               match vv with VDict kv => go r (dict_update acc kv) | _ => raise "TypeError" (VStr "** of a non-mapping") end
           end) items []
    | ECall fe args kw =>
        do fv <- eval f E fe ;;
        do avs <- mapM (eval f E) args ;;
        do kvs <- mapM (fun p => do v <- eval f E (snd p) ;; ret (fst p, v)) kw ;;
        apply_fun f fv avs kvs
    | EMeth o m args kw =>
        do ov <- eval f E o ;;
        do avs <- mapM (eval f E) args ;;
        do kvs <- mapM (fun p => do v <- eval f E (snd p) ;; ret (fst p, v)) kw ;;
        method ov m avs kvs
    | EAttr o a => do ov <- eval f E o ;; attribute ov a
    | ESub o k => do ov <- eval f E o ;; do kv <- eval f E k ;; subscript ov kv
    | ECmp op a b => do av <- eval f E a ;; do bv <- eval f E b ;; compare op av bv
    | ENot a => do av <- eval f E a ;; do b <- need_bool av ;; ret (VBool (negb b))
    | EAnd a b => do av <- eval f E a ;; do t <- need_bool av ;; if t then eval f E b else ret av
    | EOr a b => do av <- eval f E a ;; do t <- need_bool av ;; if t then ret av else eval f E b
    | EIfExp c a b => do cv <- eval f E c ;; do t <- need_bool cv ;; if t then eval f E a else eval f E b
    | EComp k elt elt2 x it conds =>
        do iv <- eval f E it ;;
        match iter_items iv with
        | None => mstuck "comprehension over a non-iterable"
        | Some items =>
            do rows <- mapM (fun item =>
                        let E' := (x, item) :: E in
                        do cs <- mapM (fun c => do cv <- eval f E' c ;; need_bool cv) conds ;;
                        if forallb (fun b => b) cs then
                          do v1 <- eval f E' elt ;;
                          match elt2 with
                          | None => ret (Some (v1, VNone))
                          | Some e2 => do v2 <- eval f E' e2 ;; ret (Some (v1, v2))
                          end
                        else ret None) items ;;
            let kept := flat_map (fun o => match o with Some p => [p] | None => [] end) rows in
            match k with
            | KList | KGen => ret (VList (map fst kept))
            | KDict => ret (VDict (fold_left (fun acc p => dict_set acc (fst p) (snd p)) kept []))
            end
        end
    | EFStr parts =>
        do vs <- mapM (eval f E) parts ;;
        (fix go (vs : list val) (acc : string) : M val :=
           match vs with
           | [] => ret (VStr acc)
           | v :: r => match py_str v with Some s => go r (acc ++ s) | None => mstuck "f-string of an unsupported object" end
           end) vs ""
    end
  end

with apply_fun (fuel : nat) (fv : val) (args : list val) (kw : list (string * val)) {struct fuel} : M val :=
  match fuel with
  | O => out_of_fuel
  | S f =>
    match fv with
    | VFun q =>
        match assoc q P with
        | Some (GFun ps body) =>
            match bind_args ps args kw with
            | None => raise "TypeError" (VStr ("bad arguments in call of " ++ q))
            | Some E =>
                do r <- exec_block f E body ;;
                match snd r with Some v => ret v | None => ret VNone end
            end
        | _ => mstuck ("call of a non-function " ++ q)
        end
    | VBuiltin b => builtin b args kw
    | VKernel q => mstuck ("the decision code calls the kernel " ++ q)
    | _ => raise "TypeError" (VStr "object is not callable")
    end
  end

(* result: the environment after the statement and Some v if it returned v *)
with exec (fuel : nat) (E : env) (s : stmt) {struct fuel} : M (env * option val) :=
  match fuel with
  | O => out_of_fuel
  | S f =>
    match s with
    | SAssign x e => do v <- eval f E e ;; ret ((x, v) :: E, None)
    | SReturn e => do v <- eval f E e ;; ret (E, Some v)
    | SRaise e =>
        do v <- eval f E e ;;
        match v with
        | VExcObj c a => raise c a
        | VBuiltin b => if mem exc_classes b then raise b VNone else mstuck "raise of a non-exception"
        | _ => mstuck "raise of a non-exception"
        end
    | SIf c a b => do cv <- eval f E c ;; do t <- need_bool cv ;; exec_block f E (if t then a else b)
    | STry body cls x handler =>
        catch (exec_block f E body) cls
              (fun a => exec_block f (match x with Some n => (n, VExcObj cls a) :: E | None => E end) handler)
    end
  end

with exec_block (fuel : nat) (E : env) (b : list stmt) {struct fuel} : M (env * option val) :=
  match fuel with
  | O => out_of_fuel
  | S f =>
    match b with
    | [] => ret (E, None)
    | s :: r =>
        do o <- exec f E s ;;
        match snd o with
        | Some v => ret o
        | None => exec_block f (fst o) r
        end
    end
  end.

Definition FUEL : nat := 200.

(* the meaning of calling a translated function (qualified name) on positional arguments *)
Definition call (q : string) (args : list val) : M val := apply_fun FUEL (VFun q) args [].

End WithProgram.
