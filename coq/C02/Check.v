(* C02/Check.v — the boolean per-configuration check evaluated by vm_compute
   over the whole configuration space, for an ARBITRARY program P (the
   regenerated one is plugged in by coq-run/C02/Tie.v).  Definitions only;
   Proofs.v shows what `check P c = true` means. *)
From Coq Require Import String List NArith ZArith Bool.
From Verif.C02 Require Import Syntax Model Spec.
Import ListNotations.
Open Scope string_scope.

(* ------------------------------------------------------------------ structural equality *)
Fixpoint tree_same (a b : tree) {struct a} : bool :=
  match a, b with
  | Leaf x, Leaf y => String.eqb x y
  | Node k o cs, Node k' o' cs' =>
      String.eqb k k' && (if list_eq_dec string_dec o o' then true else false) &&
      (fix go (x y : list tree) : bool :=
         match x, y with
         | [], [] => true
         | a :: x', b :: y' => tree_same a b && go x' y'
         | _, _ => false
         end) cs cs'
  | _, _ => false
  end.

Definition strs_same (a b : list string) : bool := if list_eq_dec string_dec a b then true else false.

Fixpoint val_same (a b : val) {struct a} : bool :=
  match a, b with
  | VNone, VNone => true
  | VBool x, VBool y => Bool.eqb x y
  | VInt x, VInt y => Z.eqb x y
  | VStr x, VStr y | VKernel x, VKernel y | VFun x, VFun y | VBuiltin x, VBuiltin y => String.eqb x y
  | VTuple x, VTuple y | VList x, VList y =>
      (fix go (x y : list val) : bool :=
         match x, y with
         | [], [] => true
         | a :: x', b :: y' => val_same a b && go x' y'
         | _, _ => false
         end) x y
  | VDict x, VDict y =>
      (fix go (x y : list (val * val)) : bool :=
         match x, y with
         | [], [] => true
         | (k, v) :: x', (k', v') :: y' => val_same k k' && val_same v v' && go x' y'
         | _, _ => false
         end) x y
  | VData, VData | VCoords, VCoords => true
  | VTree x, VTree y => tree_same x y
  | VExcObj c x, VExcObj c' y => String.eqb c c' && val_same x y
  | _, _ => false
  end.

(* ------------------------------------------------------------------ forward closure of the documented rules *)
Definition fires (S : list string) (r : rule) : bool := forallb (mem S) (snd r).
(* one pass over the rules in the order they are listed: the outputs of every rule whose inputs are
   all available are added (the documented rules are listed in dependency order, so one pass
   saturates; `closed` below CHECKS that it did, for every configuration) *)
Definition pass (rules : list rule) (S : list string) : list string :=
  fold_left (fun S r => if fires S r then (fst r ++ S)%list else S) rules S.
Definition closed (rules : list rule) (S : list string) : bool :=
  forallb (fun r => implb (fires S r) (forallb (mem S) (fst r))) rules.

(* ------------------------------------------------------------------ running the program on a configuration *)
Definition is_rte {A} (r : res A) : bool :=
  match r with Exc cls (VStr _) => String.eqb cls "RuntimeError" | _ => false end.
Definition tree_of (r : res val) : option tree := match r with Ok (VTree t) => Some t | _ => None end.
Definition is_ok (r : res val) : bool := match tree_of r with Some _ => true | None => false end.

Section P.
Variable P : program.

(* stage 1: the meaning of the three calls, independent of the coordinates on the data *)
Definition args (o t : string) (sc : bool) : list val := [VData; VStr o; VStr t; VBool sc].
Definition convert_m (o t : string) (sc : bool) : M val := call P "conv.convert" (args o t sc).
Definition reported_m (o t : string) (sc : bool) : M val := call P "conv.deduce_conversion_graph" (args o t sc).
Definition mode_m (o t : string) : M val := call P "conv._deduce_energy_mode" [VData; VStr o; VStr t].

(* stage 2: on the data of configuration c *)
Definition run_with (cm : M val) (c : cfg) : res val * log := interp (present c) cm [].
Definition run (c : cfg) : res val * log := run_with (convert_m (c_o c) (c_t c) (c_sc c)) c.
Definition reported (c : cfg) : res val := fst (run_with (reported_m (c_o c) (c_t c) (c_sc c)) c).
Definition selected_mode (c : cfg) : res val := fst (run_with (mode_m (c_o c) (c_t c)) c).

(* the components of the check; pr = the coordinates on the data, r = outcome of convert *)
Definition b_total (r : res val) : bool := is_ok r || is_rte r.

Definition b_mode_selection (pr : list string) (o t : string) (sm : res val) : bool :=
  match spec_mode pr o t, sm with
  | None, r => is_rte r
  | Some m, Ok (VStr s) => String.eqb s (mode_name m)
  | Some _, _ => false
  end.

Definition b_iff (pr : list string) (o t : string) (sc : bool) (r : res val) : bool :=
  match spec_mode pr o t with
  | None => is_rte r
  | Some m =>
      let rules := spec_rules sc m o in
      let S := pass rules pr in
      closed rules S && Bool.eqb (is_ok r) (mem S t)
  end.

Definition b_precedence (pr : list string) (t : string) (r : res val) : bool :=
  match tree_of r with
  | Some tr => forallb (mem pr) (leaves tr)
               && forallb (fun n => negb (mem pr n)) (computed tr)
               && mem (root_names tr) t
  | None => true
  end.

Definition b_mode_right (pr : list string) (t : string) (r : res val) : bool :=
  match tree_of r with
  | Some tr =>
      let ie := mem pr "incident_energy" in
      let fe := mem pr "final_energy" in
      let ks := kernels tr in
      (if String.eqb t "energy_transfer"
       then Bool.eqb (mem ks direct_kernel) ie && Bool.eqb (mem ks indirect_kernel) fe && negb (ie && fe)
       else negb (mem ks direct_kernel) && negb (mem ks indirect_kernel))
      && (if ie || fe then negb (mem (leaves tr ++ computed tr) "energy") else true)
  | None => true
  end.

Fixpoint tree_documented (krules : list krule) (t : tree) {struct t} : bool :=
  match t with
  | Leaf _ => true
  | Node k outs cs =>
      existsb (fun r => String.eqb (fst r) k && strs_same (fst (snd r)) outs
                        && Nat.eqb (List.length cs) (List.length (snd (snd r)))
                        && forallb (fun i => existsb (fun c => mem (root_names c) i) cs) (snd (snd r))) krules
      && forallb (tree_documented krules) cs
  end.

Definition b_documented (pr : list string) (o t : string) (sc : bool) (r : res val) : bool :=
  match tree_of r, spec_mode pr o t with
  | Some tr, Some m => tree_documented (spec_krules sc m o) tr
  | Some _, None => false
  | None, _ => true
  end.

Definition b_reported (rl : res val * log) (rep : res val) : bool :=
  match rep with
  | Ok g => match snd rl with [g'] => val_same g' g | _ => false end
  | Exc cls a =>
      match rl with
      | (Exc cls' a', []) => String.eqb cls' cls && val_same a' a
      | _ => false
      end
  end.

Definition check_with (cm rm mm : M val) (c : cfg) : bool :=
  let pr := present c in
  let rl := interp pr cm [] in
  let r := fst rl in
  b_total r && b_mode_selection pr (c_o c) (c_t c) (fst (interp pr mm []))
  && b_iff pr (c_o c) (c_t c) (c_sc c) r && b_precedence pr (c_t c) r && b_mode_right pr (c_t c) r
  && b_documented pr (c_o c) (c_t c) (c_sc c) r
  && b_reported rl (fst (interp pr rm [])).
Definition check (c : cfg) : bool :=
  check_with (convert_m (c_o c) (c_t c) (c_sc c)) (reported_m (c_o c) (c_t c) (c_sc c)) (mode_m (c_o c) (c_t c)) c.
End P.

(* ------------------------------------------------------------------ enumeration *)
Fixpoint nrange_from (start : N) (k : nat) : list N :=
  match k with O => [] | S k' => start :: nrange_from (N.succ start) k' end.
Definition subsets : list N := nrange_from 0 2048.
Definition bools : list bool := [true; false].
(* all configurations with the given origin / target / scatter flag *)
Definition cfgs_ots (o t : string) (sc : bool) : list cfg :=
  flat_map (fun x => map (fun p => mkcfg o t sc x p) subsets) bools.
Definition check_ots (P : program) (o t : string) (sc : bool) : bool :=
  let cm := convert_m P o t sc in
  let rm := reported_m P o t sc in
  let mm := mode_m P o t in
  forallb (check_with cm rm mm) (cfgs_ots o t sc).
(* the enumeration is cut into 4 origins x 6 groups of targets, checked in parallel *)
Definition target_groups : list (list string) :=
  [ ["dspacing"; "energy"; "wavelength"; "Q"]; ["Q_vec"; "Qx"; "Qy"; "Qz"]; ["hkl_vec"; "h"; "k"; "l"];
    ["ub_matrix"; "time_at_sample"; "energy_transfer"; "incident_beam"];
    ["scattered_beam"; "L1"; "L2"; "two_theta"]; ["Ltotal"; "tof"; "position"; "not_a_coordinate"] ].
Definition check_group (P : program) (o : string) (g : list string) : bool :=
  forallb (fun t => forallb (fun sc => check_ots P o t sc) bools) g.
