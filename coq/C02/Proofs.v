(* C02/Proofs.v — what `check P c = true` means, for an arbitrary program P;
   soundness of the structural equalities; the forward pass decides
   `Derivable` whenever its result is closed; the enumeration covers the
   configuration space.  The regenerated program is plugged in by
   coq-run/C02/Tie.v, where `check prog c = true` is established for every
   configuration by vm_compute. *)
From Coq Require Import String List NArith ZArith Bool Lia PeanoNat.
From Verif.C02 Require Import Syntax Model Spec Check.
Import ListNotations.
Open Scope string_scope.

(* ------------------------------------------------------------------ small facts *)
Lemma mem_In : forall l x, mem l x = true <-> In x l.
Proof.
  unfold mem. intros l x. rewrite existsb_exists. split.
  - intros [y [Hy He]]. apply String.eqb_eq in He. subst. exact Hy.
  - intro H. exists x. split; [exact H | apply String.eqb_refl].
Qed.

Lemma mem_false : forall l x, mem l x = false <-> ~ In x l.
Proof.
  intros l x. rewrite <- mem_In. destruct (mem l x); split; congruence.
Qed.

Lemma strs_same_sound : forall a b, strs_same a b = true -> a = b.
Proof. unfold strs_same. intros a b. destruct (list_eq_dec string_dec a b); congruence. Qed.

Fixpoint tree_same_sound (a b : tree) {struct a} : tree_same a b = true -> a = b.
Proof.
  destruct a as [x | k o cs]; destruct b as [y | k' o' cs']; simpl; try discriminate.
  - intro H. apply String.eqb_eq in H. congruence.
  - intro H. apply andb_prop in H. destruct H as [H Hc]. apply andb_prop in H. destruct H as [Hk Ho].
    apply String.eqb_eq in Hk. destruct (list_eq_dec string_dec o o') as [Eo | ]; [ | discriminate].
    subst. f_equal.
    revert cs' Hc. induction cs as [ | c cs IH]; intros [ | c' cs']; try discriminate; [reflexivity | ].
    intro H. apply andb_prop in H. destruct H as [H1 H2].
    f_equal; [exact (tree_same_sound c c' H1) | exact (IH cs' H2)].
Qed.

Fixpoint val_same_sound (a b : val) {struct a} : val_same a b = true -> a = b.
Proof.
  destruct a; destruct b; simpl; try discriminate; try reflexivity.
  - intro H. apply Bool.eqb_prop in H. congruence.
  - intro H. apply Z.eqb_eq in H. congruence.
  - intro H. apply String.eqb_eq in H. congruence.
  - revert l0. induction l as [ | x l IH]; intros [ | y l0]; try discriminate; [reflexivity | ].
    intro H. apply andb_prop in H. destruct H as [H1 H2].
    pose proof (val_same_sound x y H1). pose proof (IH l0 H2). congruence.
  - revert l0. induction l as [ | x l IH]; intros [ | y l0]; try discriminate; [reflexivity | ].
    intro H. apply andb_prop in H. destruct H as [H1 H2].
    pose proof (val_same_sound x y H1). pose proof (IH l0 H2). congruence.
  - revert kv0. induction kv as [ | [k v] kv IH]; intros [ | [k' v'] kv0]; try discriminate; [reflexivity | ].
    intro H. apply andb_prop in H. destruct H as [H H3]. apply andb_prop in H. destruct H as [H1 H2].
    pose proof (val_same_sound k k' H1). pose proof (val_same_sound v v' H2). pose proof (IH kv0 H3). congruence.
  - intro H. apply String.eqb_eq in H. congruence.
  - intro H. apply String.eqb_eq in H. congruence.
  - intro H. apply String.eqb_eq in H. congruence.
  - intro H. apply tree_same_sound in H. congruence.
  - intro H. apply andb_prop in H. destruct H as [H1 H2]. apply String.eqb_eq in H1.
    pose proof (val_same_sound a b H2). congruence.
Qed.

Fixpoint tree_documented_sound (krules : list krule) (t : tree) {struct t} :
  tree_documented krules t = true -> Documented krules t.
Proof.
  destruct t as [n | k outs cs]; [intros _; apply Doc_leaf | ].
  cbn [tree_documented]. intro H. apply andb_prop in H. destruct H as [He Hc].
  apply existsb_exists in He. destruct He as [[k' [outs' ins]] [Hin He]]. cbn [fst snd] in He.
  apply andb_prop in He. destruct He as [He Hi]. apply andb_prop in He. destruct He as [He Hl].
  apply andb_prop in He. destruct He as [Hk Ho]. apply String.eqb_eq in Hk. apply strs_same_sound in Ho.
  apply Nat.eqb_eq in Hl. subst k' outs'.
  apply (Doc_node krules k outs ins cs); [exact Hin | exact Hl | | ].
  - intros i Hi'. rewrite forallb_forall in Hi. specialize (Hi i Hi'). apply existsb_exists in Hi.
    destruct Hi as [c0 [Hc0 Hm]]. exists c0. split; [exact Hc0 | apply mem_In; exact Hm].
  - clear Hi Hl Hin. induction cs as [ | c0 cs IH]; intros c1 Hc1; [destruct Hc1 | ].
    cbn [forallb] in Hc. apply andb_prop in Hc. destruct Hc as [H0 Hr].
    destruct Hc1 as [<- | Hc1]; [exact (tree_documented_sound krules c0 H0) | exact (IH Hr c1 Hc1)].
Qed.

(* ------------------------------------------------------------------ the forward pass and Derivable *)
Section Closure.
Variable rules : list rule.
Variable pres : list string.

Lemma fires_spec : forall S r, fires S r = true <-> (forall i, In i (snd r) -> In i S).
Proof.
  unfold fires. intros S r. rewrite forallb_forall. split; intros H i Hi.
  - apply mem_In. exact (H i Hi).
  - apply mem_In. exact (H i Hi).
Qed.

(* every name the pass reaches is derivable *)
Lemma pass_sound_gen : forall rs S,
  (forall r, In r rs -> In r rules) ->
  (forall n, In n S -> Derivable rules pres n) ->
  forall n, In n (pass rs S) -> Derivable rules pres n.
Proof.
  unfold pass. induction rs as [ | r rs IH]; intros S Hsub HS n; simpl; [exact (HS n) | ].
  apply IH.
  - intros r' Hr'. apply Hsub. right. exact Hr'.
  - intros m Hm. destruct (fires S r) eqn:Ef; [ | exact (HS m Hm)].
    apply in_app_or in Hm. destruct Hm as [Hm | Hm]; [ | exact (HS m Hm)].
    destruct r as [outs ins]. simpl in *.
    apply (D_rule rules pres outs ins m); [apply Hsub; left; reflexivity | exact Hm | ].
    intros i Hi. apply HS. apply (proj1 (fires_spec S (outs, ins)) Ef). exact Hi.
Qed.

Lemma pass_sound : forall n, In n (pass rules pres) -> Derivable rules pres n.
Proof.
  apply pass_sound_gen; [auto | ]. intros n Hn. apply D_supplied. exact Hn.
Qed.

Lemma pass_incl : forall rs S n, In n S -> In n (pass rs S).
Proof.
  unfold pass. induction rs as [ | r rs IH]; intros S n Hn; simpl; [exact Hn | ].
  apply IH. destruct (fires S r); [apply in_or_app; right | ]; exact Hn.
Qed.

(* a closed set that contains the supplied names contains everything derivable *)
Lemma closed_complete : forall S, closed rules S = true -> (forall n, In n pres -> In n S) ->
  forall n, Derivable rules pres n -> In n S.
Proof.
  intros S Hc Hp n Hd. induction Hd as [n Hn | outs ins n Hr Ho Hins IH]; [exact (Hp n Hn) | ].
  unfold closed in Hc. rewrite forallb_forall in Hc. specialize (Hc (outs, ins) Hr).
  assert (Ef : fires S (outs, ins) = true) by (apply fires_spec; exact IH).
  rewrite Ef in Hc. simpl in Hc. rewrite forallb_forall in Hc. apply mem_In. exact (Hc n Ho).
Qed.

Lemma pass_decides : closed rules (pass rules pres) = true ->
  forall n, mem (pass rules pres) n = true <-> Derivable rules pres n.
Proof.
  intros Hc n. rewrite mem_In. split; [apply pass_sound | ].
  apply closed_complete; [exact Hc | ]. intros m Hm. apply pass_incl. exact Hm.
Qed.
End Closure.

(* ------------------------------------------------------------------ the enumeration *)
Lemma nrange_from_In : forall k s p, In p (nrange_from s k) <-> (s <= p < s + N.of_nat k)%N.
Proof.
  induction k as [ | k IH]; intros s p; simpl nrange_from.
  - simpl. lia.
  - simpl In. rewrite IH. lia.
Qed.

Lemma subsets_In : forall p, (p < 2048)%N -> In p subsets.
Proof. intros p H. unfold subsets. apply nrange_from_In. simpl. lia. Qed.

Lemma cfgs_ots_In : forall o t sc x p, (p < 2048)%N -> In (mkcfg o t sc x p) (cfgs_ots o t sc).
Proof.
  intros o t sc x p H. unfold cfgs_ots. apply in_flat_map. exists x. split.
  - unfold bools. destruct x; simpl; auto.
  - apply in_map. apply subsets_In. exact H.
Qed.

Lemma concat_groups : concat target_groups = targets.
Proof. reflexivity. Qed.

Section Reflect.
Variable P : program.

Lemma check_ots_unfold : forall o t sc, check_ots P o t sc =
  forallb (check_with (convert_m P o t sc) (reported_m P o t sc) (mode_m P o t)) (cfgs_ots o t sc).
Proof. intros. unfold check_ots. reflexivity. Qed.

Lemma check_unfold : forall c o t sc, c_o c = o -> c_t c = t -> c_sc c = sc ->
  check P c = check_with (convert_m P o t sc) (reported_m P o t sc) (mode_m P o t) c.
Proof. intros c o t sc <- <- <-. reflexivity. Qed.

Lemma check_ots_all : forall o t sc, check_ots P o t sc = true ->
  forall x p, (p < 2048)%N -> check P (mkcfg o t sc x p) = true.
Proof.
  intros o t sc H x p Hp. rewrite check_ots_unfold in H. rewrite forallb_forall in H.
  rewrite (check_unfold (mkcfg o t sc x p) o t sc eq_refl eq_refl eq_refl).
  apply H. apply cfgs_ots_In. exact Hp.
Qed.

Lemma check_group_all : forall o g, check_group P o g = true ->
  forall t sc x p, In t g -> (p < 2048)%N -> check P (mkcfg o t sc x p) = true.
Proof.
  intros o g H t sc x p Ht Hp. unfold check_group in H. rewrite forallb_forall in H.
  specialize (H t Ht). rewrite forallb_forall in H. apply check_ots_all; [ | exact Hp].
  apply H. unfold bools. destruct sc; simpl; auto.
Qed.

(* the hypothesis Tie.v discharges by computation, group by group *)
Hypothesis Hgroups : forall o g, In o origins -> In g target_groups -> check_group P o g = true.

Lemma check_all : forall c, in_space c -> check P c = true.
Proof using Hgroups.
  intros [o t sc x p] [Ho [Ht Hp]]. cbn [c_o c_t c_p] in Ho, Ht, Hp.
  rewrite <- concat_groups in Ht. apply in_concat in Ht. destruct Ht as [g [Hg Htg]].
  exact (check_group_all o g (Hgroups o g Ho Hg) t sc x p Htg Hp).
Qed.

(* ---- unpacking the conjuncts *)
Definition outcome (c : cfg) : res val := fst (run P c).

Lemma check_with_parts : forall cm rm mm c, check_with cm rm mm c = true ->
  b_total (fst (interp (present c) cm [])) = true /\
  b_mode_selection (present c) (c_o c) (c_t c) (fst (interp (present c) mm [])) = true /\
  b_iff (present c) (c_o c) (c_t c) (c_sc c) (fst (interp (present c) cm [])) = true /\
  b_precedence (present c) (c_t c) (fst (interp (present c) cm [])) = true /\
  b_mode_right (present c) (c_t c) (fst (interp (present c) cm [])) = true /\
  b_documented (present c) (c_o c) (c_t c) (c_sc c) (fst (interp (present c) cm [])) = true /\
  b_reported (interp (present c) cm []) (fst (interp (present c) rm [])) = true.
Proof.
  intros cm rm mm c H. unfold check_with in H.
  repeat (apply andb_prop in H; destruct H as [H ?]).
  repeat split; assumption.
Qed.

Lemma outcome_eq : forall c, outcome c = fst (interp (present c) (convert_m P (c_o c) (c_t c) (c_sc c)) []).
Proof. reflexivity. Qed.
Lemma selected_mode_eq : forall c, selected_mode P c = fst (interp (present c) (mode_m P (c_o c) (c_t c)) []).
Proof. reflexivity. Qed.
Lemma reported_eq : forall c, reported P c = fst (interp (present c) (reported_m P (c_o c) (c_t c) (c_sc c)) []).
Proof. reflexivity. Qed.
Lemma run_eq : forall c, run P c = interp (present c) (convert_m P (c_o c) (c_t c) (c_sc c)) [].
Proof. reflexivity. Qed.

Lemma check_parts : forall c, check P c = true ->
  b_total (outcome c) = true /\
  b_mode_selection (present c) (c_o c) (c_t c) (selected_mode P c) = true /\
  b_iff (present c) (c_o c) (c_t c) (c_sc c) (outcome c) = true /\
  b_precedence (present c) (c_t c) (outcome c) = true /\
  b_mode_right (present c) (c_t c) (outcome c) = true /\
  b_documented (present c) (c_o c) (c_t c) (c_sc c) (outcome c) = true /\
  b_reported (run P c) (reported P c) = true.
Proof.
  intros c H. rewrite outcome_eq, selected_mode_eq, reported_eq, run_eq.
  apply check_with_parts with (mm := mode_m P (c_o c) (c_t c)) (rm := reported_m P (c_o c) (c_t c) (c_sc c)).
  rewrite <- H. symmetry. apply check_unfold; reflexivity.
Qed.

Lemma is_ok_spec : forall r, is_ok r = true <-> exists tr, r = Ok (VTree tr).
Proof.
  intro r. unfold is_ok, tree_of. split.
  - destruct r as [[] | ]; try discriminate. intros _. eexists. reflexivity.
  - intros [tr ->]. reflexivity.
Qed.

Lemma is_rte_spec : forall r : res val, is_rte r = true <-> exists msg, r = Exc "RuntimeError" (VStr msg).
Proof.
  intro r. unfold is_rte. split.
  - destruct r as [ | cls []]; try discriminate. intro H. apply String.eqb_eq in H. subst. eexists. reflexivity.
  - intros [msg ->]. reflexivity.
Qed.

Lemma rte_not_ok : forall r : res val, is_rte r = true -> is_ok r = false.
Proof. intros r H. apply is_rte_spec in H. destruct H as [m ->]. reflexivity. Qed.

Theorem total : forall c, in_space c ->
  (exists tr, outcome c = Ok (VTree tr)) \/ (exists msg, outcome c = Exc "RuntimeError" (VStr msg)).
Proof using Hgroups.
  intros c Hc. destruct (check_parts c (check_all c Hc)) as [H _]. revert H. generalize (outcome c). intros r H.
  unfold b_total in H. apply orb_prop in H. destruct H as [H | H]; [left; apply is_ok_spec | right; apply is_rte_spec]; exact H.
Qed.

Theorem iff_derivable : forall c, in_space c ->
  match spec_mode (present c) (c_o c) (c_t c) with
  | None =>
      (exists msg, selected_mode P c = Exc "RuntimeError" (VStr msg)) /\
      (exists msg, outcome c = Exc "RuntimeError" (VStr msg))
  | Some m =>
      selected_mode P c = Ok (VStr (mode_name m)) /\
      ((exists tr, outcome c = Ok (VTree tr)) <->
       Derivable (spec_rules (c_sc c) m (c_o c)) (present c) (c_t c))
  end.
Proof using Hgroups.
  intros c Hc. destruct (check_parts c (check_all c Hc)) as [_ [Hm [Hi _]]].
  revert Hm Hi. generalize (selected_mode P c) (outcome c). intros sm r Hm Hi.
  unfold b_mode_selection in Hm. unfold b_iff in Hi.
  destruct (spec_mode (present c) (c_o c) (c_t c)) as [m | ].
  - split.
    + destruct sm as [[] | ]; try discriminate. apply String.eqb_eq in Hm. congruence.
    + cbv zeta in Hi. apply andb_prop in Hi. destruct Hi as [Hcl He]. apply Bool.eqb_prop in He.
      rewrite <- is_ok_spec. rewrite He. apply pass_decides. exact Hcl.
  - split; apply is_rte_spec; assumption.
Qed.

Theorem precedence : forall c tr, in_space c -> outcome c = Ok (VTree tr) ->
  (forall n, In n (leaves tr) -> In n (present c)) /\
  (forall n, In n (computed tr) -> ~ In n (present c)) /\
  In (c_t c) (root_names tr).
Proof using Hgroups.
  intros c tr Hc Ho. destruct (check_parts c (check_all c Hc)) as [_ [_ [_ [H _]]]].
  rewrite Ho in H. unfold b_precedence in H. cbn [tree_of] in H.
  apply andb_prop in H. destruct H as [H H3]. apply andb_prop in H. destruct H as [H1 H2].
  rewrite forallb_forall in H1, H2. repeat split.
  - intros n Hn. apply mem_In. exact (H1 n Hn).
  - intros n Hn. apply mem_false. specialize (H2 n Hn). destruct (mem (present c) n); [discriminate | reflexivity].
  - apply mem_In. exact H3.
Qed.

Theorem mode_right : forall c tr, in_space c -> outcome c = Ok (VTree tr) ->
  let ie := In "incident_energy" (present c) in
  let fe := In "final_energy" (present c) in
  (c_t c = "energy_transfer" ->
     (In direct_kernel (kernels tr) <-> ie) /\ (In indirect_kernel (kernels tr) <-> fe) /\ ~ (ie /\ fe)) /\
  (c_t c <> "energy_transfer" -> ~ In direct_kernel (kernels tr) /\ ~ In indirect_kernel (kernels tr)) /\
  (ie \/ fe -> ~ In "energy" (leaves tr ++ computed tr)).
Proof using Hgroups.
  intros c tr Hc Ho. destruct (check_parts c (check_all c Hc)) as [_ [_ [_ [_ [H _]]]]].
  rewrite Ho in H. unfold b_mode_right in H. cbn [tree_of] in H. cbv zeta in H. cbv zeta.
  apply andb_prop in H. destruct H as [Ha Hb].
  assert (Eie : mem (present c) "incident_energy" = true <-> In "incident_energy" (present c)) by apply mem_In.
  assert (Efe : mem (present c) "final_energy" = true <-> In "final_energy" (present c)) by apply mem_In.
  repeat split.
  - intro Hk. rewrite <- Eie. destruct (String.eqb_spec (c_t c) "energy_transfer") as [ | Hne]; [ | congruence].
    apply andb_prop in Ha. destruct Ha as [Ha _]. apply andb_prop in Ha. destruct Ha as [Ha _].
    apply Bool.eqb_prop in Ha. rewrite <- Ha. apply mem_In. exact Hk.
  - intro Hi. destruct (String.eqb_spec (c_t c) "energy_transfer") as [ | Hne]; [ | congruence].
    apply andb_prop in Ha. destruct Ha as [Ha _]. apply andb_prop in Ha. destruct Ha as [Ha _].
    apply Bool.eqb_prop in Ha. apply mem_In. rewrite Ha. apply Eie. exact Hi.
  - intro Hk. rewrite <- Efe. destruct (String.eqb_spec (c_t c) "energy_transfer") as [ | Hne]; [ | congruence].
    apply andb_prop in Ha. destruct Ha as [Ha _]. apply andb_prop in Ha. destruct Ha as [_ Ha].
    apply Bool.eqb_prop in Ha. rewrite <- Ha. apply mem_In. exact Hk.
  - intro Hi. destruct (String.eqb_spec (c_t c) "energy_transfer") as [ | Hne]; [ | congruence].
    apply andb_prop in Ha. destruct Ha as [Ha _]. apply andb_prop in Ha. destruct Ha as [_ Ha].
    apply Bool.eqb_prop in Ha. apply mem_In. rewrite Ha. apply Efe. exact Hi.
  - intros [Hi Hf]. destruct (String.eqb_spec (c_t c) "energy_transfer") as [ | Hne]; [ | congruence].
    apply andb_prop in Ha. destruct Ha as [_ Ha].
    apply Eie in Hi. apply Efe in Hf. rewrite Hi, Hf in Ha. discriminate.
  - destruct (String.eqb_spec (c_t c) "energy_transfer") as [ | Hne]; [congruence | ].
    apply andb_prop in Ha. destruct Ha as [Ha _]. apply mem_false.
    destruct (mem (kernels tr) direct_kernel); [discriminate | reflexivity].
  - destruct (String.eqb_spec (c_t c) "energy_transfer") as [ | Hne]; [congruence | ].
    apply andb_prop in Ha. destruct Ha as [_ Ha]. apply mem_false.
    destruct (mem (kernels tr) indirect_kernel); [discriminate | reflexivity].
  - intros Hor. apply mem_false.
    assert (E : mem (present c) "incident_energy" || mem (present c) "final_energy" = true).
    { apply orb_true_iff. destruct Hor as [Hi | Hf]; [left; apply Eie | right; apply Efe]; assumption. }
    rewrite E in Hb. destruct (mem (leaves tr ++ computed tr) "energy"); [discriminate | reflexivity].
Qed.

Theorem documented : forall c tr m, in_space c -> outcome c = Ok (VTree tr) ->
  spec_mode (present c) (c_o c) (c_t c) = Some m ->
  Documented (spec_krules (c_sc c) m (c_o c)) tr.
Proof using Hgroups.
  intros c tr m Hc Ho Hm. destruct (check_parts c (check_all c Hc)) as [_ [_ [_ [_ [_ [H _]]]]]].
  rewrite Ho in H. unfold b_documented in H. cbn [tree_of] in H. rewrite Hm in H.
  apply tree_documented_sound. exact H.
Qed.

Theorem reported_is_used : forall c, in_space c ->
  (forall g, reported P c = Ok g -> snd (run P c) = [g]) /\
  (forall cls a, reported P c = Exc cls a -> run P c = (Exc cls a, [])).
Proof using Hgroups.
  intros c Hc. destruct (check_parts c (check_all c Hc)) as [_ [_ [_ [_ [_ [_ H]]]]]].
  revert H. generalize (run P c) (reported P c). intros rl rp H.
  unfold b_reported in H. split.
  - intros g Hg. rewrite Hg in H. destruct (snd rl) as [ | g' [ | ]]; try discriminate.
    apply val_same_sound in H. congruence.
  - intros cls a Hr. rewrite Hr in H. destruct rl as [[ | cls' a'] [ | ]]; try discriminate.
    apply andb_prop in H. destruct H as [H1 H2]. apply String.eqb_eq in H1. apply val_same_sound in H2. subst. reflexivity.
Qed.
End Reflect.
