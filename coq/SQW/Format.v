(* SQW/Format.v — the SQW container format as an INDEPENDENT decoder.

   Written from the documented layout of Horace "binary v4" sqw files
   (Horace documentation/add/05_file_formats.md, faccess_sqw_v4 / the block
   allocation table, and hlp_serialize's typed arrays), not from the package's
   reader (_sqw.py) and not from the writer model (Model.v):

     file        := header bat body*
     header      := chars("horace") f64(4.0) u32(sqw_type = 1) u32(n_dims)
     chars(s)    := u32 |s|  s
     bat         := u32 size            -- number of bytes of the table AFTER this field
                    u32 n_blocks descriptor^n_blocks
     descriptor  := chars(block_type) chars(name) chars(level2_name)
                    u64 position u32 size u32 locked
     body of a "data_block"      := objarray
     body of a "pix_data_block"  := u32 n_rows  u64 n_pix  f32^(n_rows*n_pix)     (pixel after pixel)
     body of a "dnd_data_block"  := u32 n_dims  u32^n_dims  f64^vol f64^vol u64^vol
     objarray    := 0x20 objarray                    -- object that serialises itself
                 |  tag:u8 n_dims:u8 u32^n_dims payload
     payload     := tag 1 (char): vol bytes | tag 3 (f64): vol*8 bytes | tag 0 (logical): vol bytes
                 |  tag 23 (cell): vol objarrays
                 |  tag 24 (struct), vol > 0: u32 n_fields  u32^n_fields (name lengths)  names
                                              objarray (a cell array with n_fields*vol items)
     vol         := product of the dims; 0 if there are no dims (objarray), 1 for dnd
   All integers and floats in one byte order per file; a reader recognises it
   from the first length field (6): the order in which it is the smaller number.
   Extents (position, size) must start right after the table, follow each other
   without gap or overlap and end at end-of-file.

   Definitions only (the theorems are in Proofs*.v). *)
From Coq Require Import NArith List String Ascii Bool.
From Verif.SQW Require Import Bytes.
Import ListNotations.
Local Open Scope N_scope.

(* ------------------------------------------------------------------ byte strings *)
Definition bs (s : string) : bytes := List.map N_of_ascii (list_ascii_of_string s).

Fixpoint bytes_eqb (a b : bytes) : bool :=
  match a, b with
  | [], [] => true
  | x :: a', y :: b' => (x =? y) && bytes_eqb a' b'
  | _, _ => false
  end.

Definition ascii_of_byte (b : N) : ascii := ascii_of_N (if b <? 256 then b else 63).
Definition str_of_bytes (l : bytes) : string := string_of_list_ascii (List.map ascii_of_byte l).

(* ------------------------------------------------------------------ typed object arrays *)
Inductive obj :=
| OChar (sh : list N) (d : bytes)
| OF64 (sh : list N) (d : list N)            (* IEEE binary64 bit patterns *)
| OLogical (sh : list N) (d : bytes)
| OCell (sh : list N) (items : list obj)
| OStruct (sh : list N) (names : list bytes) (vals : obj)
| OStruct0 (sh : list N)                     (* struct array without elements *)
| OSer (o : obj).                            (* 0x20 prefix *)

Definition prod_dims (sh : list N) : N := fold_right N.mul 1 sh.
Definition volume (sh : list N) : N := match sh with [] => 0 | _ => prod_dims sh end.

Definition p_shape (e : endian) : parser (list N) :=
  fun b => '(nd, r) <- p_u8 b ;; p_count (p_uint e 4) nd r.

Fixpoint p_names (sizes : list N) : parser (list bytes) :=
  fun b => match sizes with
           | [] => Some ([], b)
           | s :: t => '(nm, r) <- take b s ;; '(l, r') <- p_names t r ;; Some (nm :: l, r')
           end.

Fixpoint decode_obj (fuel : nat) (e : endian) (b : bytes) {struct fuel} : option (obj * bytes) :=
  match fuel with
  | O => None
  | S f =>
    match b with
    | [] => None
    | t :: r0 =>
      if t =? 32 then '(o, r) <- decode_obj f e r0 ;; Some (OSer o, r)
      else
        '(sh, r1) <- p_shape e r0 ;;
        let v := volume sh in
        if t =? 1 then '(d, r) <- take r1 v ;; Some (OChar sh d, r)
        else if t =? 3 then '(d, r) <- p_count (p_uint e 8) v r1 ;; Some (OF64 sh d, r)
        else if t =? 0 then '(d, r) <- take r1 v ;; Some (OLogical sh d, r)
        else if t =? 23 then '(items, r) <- p_count (decode_obj f e) v r1 ;; Some (OCell sh items, r)
        else if t =? 24 then
          if v =? 0 then Some (OStruct0 sh, r1)
          else
            '(nf, r2) <- p_uint e 4 r1 ;;
            '(sizes, r3) <- p_count (p_uint e 4) nf r2 ;;
            '(names, r4) <- p_names sizes r3 ;;
            '(vals, r5) <- decode_obj f e r4 ;;
            match vals with
            | OCell csh _ => if volume csh =? nf * v then Some (OStruct sh names vals, r5) else None
            | _ => None
            end
        else None
    end
  end.

(* nesting depth of real files is < 10; the decoder is total in the fuel *)
Definition obj_fuel : nat := 64.

(* ------------------------------------------------------------------ pixel / dnd bodies *)
Definition decode_pix (e : endian) : parser (N * N * list N) :=
  fun b =>
    '(nrows, r1) <- p_uint e 4 b ;;
    '(npix, r2) <- p_uint e 8 r1 ;;
    '(vals, r3) <- p_count (p_uint e 4) (nrows * npix) r2 ;;
    Some ((nrows, npix, vals), r3).

Record dnd_view := { dv_shape : list N; dv_signal : list N; dv_error : list N; dv_npix : list N }.

Definition decode_dnd (e : endian) : parser dnd_view :=
  fun b =>
    '(nd, r1) <- p_uint e 4 b ;;
    '(sh, r2) <- p_count (p_uint e 4) nd r1 ;;
    let v := prod_dims sh in
    '(s, r3) <- p_count (p_uint e 8) v r2 ;;
    '(er, r4) <- p_count (p_uint e 8) v r3 ;;
    '(np, r5) <- p_count (p_uint e 8) v r4 ;;
    Some ({| dv_shape := sh; dv_signal := s; dv_error := er; dv_npix := np |}, r5).

(* ------------------------------------------------------------------ header, table, extents *)
Definition p_chars (e : endian) : parser bytes :=
  fun b => '(n, r) <- p_uint e 4 b ;; take r n.

Record desc := { d_type : bytes; d_n1 : bytes; d_n2 : bytes; d_pos : N; d_size : N; d_locked : N }.

Definition p_desc (e : endian) : parser desc :=
  fun b =>
    '(ty, r1) <- p_chars e b ;;
    '(n1, r2) <- p_chars e r1 ;;
    '(n2, r3) <- p_chars e r2 ;;
    '(pos, r4) <- p_uint e 8 r3 ;;
    '(sz, r5) <- p_uint e 4 r4 ;;
    '(lk, r6) <- p_uint e 4 r5 ;;
    Some ({| d_type := ty; d_n1 := n1; d_n2 := n2; d_pos := pos; d_size := sz; d_locked := lk |}, r6).

Definition deduce_byteorder (b : bytes) : endian :=
  let b4 := firstn 4 b in
  if le_val b4 <? le_val (rev b4) then LE else BE.

Definition f64_4_0 : N := 4616189618054758400.        (* 0x4010000000000000 *)
Definition s_horace : bytes := bs "horace".
Definition s_data_block : bytes := bs "data_block".
Definition s_pix_block : bytes := bs "pix_data_block".
Definition s_dnd_block : bytes := bs "dnd_data_block".

Inductive content :=
| CObj (o : obj)
| CPix (nrows npix : N) (vals : list N)
| CDnd (v : dnd_view).

Inductive res (A : Type) := Ok (a : A) | Err (why : string).
Arguments Ok {A} a.
Arguments Err {A} why.

Local Open Scope string_scope.
Local Open Scope N_scope.
Definition decode_block (e : endian) (ty : bytes) (body : bytes) : res content :=
  if bytes_eqb ty s_data_block then
    match decode_obj obj_fuel e body with
    | Some (o, []) => Ok (CObj o)
    | Some (_, _ :: _) => Err "block:object-ends-before-extent"
    | None => Err "block:object-does-not-decode-within-extent"
    end
  else if bytes_eqb ty s_pix_block then
    match decode_pix e body with
    | Some ((nr, np, vals), []) => Ok (CPix nr np vals)
    | Some (_, _ :: _) => Err "block:pixels-end-before-extent"
    | None => Err "block:pixels-do-not-decode-within-extent"
    end
  else if bytes_eqb ty s_dnd_block then
    match decode_dnd e body with
    | Some (v, []) => Ok (CDnd v)
    | Some (_, _ :: _) => Err "block:dnd-ends-before-extent"
    | None => Err "block:dnd-does-not-decode-within-extent"
    end
  else Err "block:unknown-type".

(* extents: first at [start], contiguous, last ends at [total] *)
Fixpoint tile_check (pos : N) (ds : list desc) (total : N) : option string :=
  match ds with
  | [] => if pos =? total then None
          else if pos <? total then Some "extent:bytes-after-last-extent"
          else Some "extent:last-extent-ends-beyond-end-of-file"
  | d :: t => if d_pos d =? pos then tile_check (pos + d_size d) t total
              else if d_pos d <? pos then Some "extent:overlap" else Some "extent:gap"
  end.

Fixpoint decode_blocks (e : endian) (b : bytes) (ds : list desc) : res (list content) :=
  match ds with
  | [] => Ok []
  | d :: t =>
    match take b (d_size d) with
    | None => Err "extent:beyond-end-of-file"
    | Some (body, r) =>
      match decode_block e (d_type d) body with
      | Err why => Err why
      | Ok c => match decode_blocks e r t with
                | Err why => Err why
                | Ok cs => Ok (c :: cs)
                end
      end
    end
  end.

Definition name_eqb (a b : bytes * bytes) : bool := bytes_eqb (fst a) (fst b) && bytes_eqb (snd a) (snd b).
Fixpoint nodup_names (l : list (bytes * bytes)) : bool :=
  match l with
  | [] => true
  | x :: t => negb (existsb (name_eqb x) t) && nodup_names t
  end.

Record fileview := {
  fv_endian : endian;
  fv_ndims : N;
  fv_descs : list desc;
  fv_blocks : list content
}.

(* header: returns n_dims *)
Definition p_header (e : endian) : parser N :=
  fun b =>
    '(prog, r1) <- p_chars e b ;;
    '(ver, r2) <- p_uint e 8 r1 ;;
    '(ty, r3) <- p_uint e 4 r2 ;;
    '(nd, r4) <- p_uint e 4 r3 ;;
    if bytes_eqb prog s_horace && (ver =? f64_4_0) && (ty =? 1) then Some (nd, r4) else None.

(* table: returns (size field, bytes consumed after the size field, descriptors) *)
Definition p_bat (e : endian) : parser (N * N * list desc) :=
  fun b =>
    '(sz, r1) <- p_uint e 4 b ;;
    '(nb, r2) <- p_uint e 4 r1 ;;
    '(ds, r3) <- p_count (p_desc e) nb r2 ;;
    Some ((sz, len r1 - len r3, ds), r3).

Definition check_file (b : bytes) : res fileview :=
  let e := deduce_byteorder b in
  match p_header e b with
  | None => Err "header:not-horace-4.0-sqw"
  | Some (nd, r1) =>
    match p_bat e r1 with
    | None => Err "bat:truncated"
    | Some ((sz, used, ds), r2) =>
      if negb (sz =? used) then Err "bat:size-field"
      else if negb (nodup_names (List.map (fun d => (d_n1 d, d_n2 d)) ds)) then Err "bat:duplicate-block"
      else
        match tile_check (len b - len r2) ds (len b) with
        | Some why => Err why
        | None =>
          match decode_blocks e r2 ds with
          | Err why => Err why
          | Ok cs => Ok {| fv_endian := e; fv_ndims := nd; fv_descs := ds; fv_blocks := cs |}
          end
        end
    end
  end.

(* the bytes an extent designates *)
Definition extent (b : bytes) (pos size : N) : bytes := firstn (N.to_nat size) (skipn (N.to_nat pos) b).
