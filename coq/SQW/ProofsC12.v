(* SQW/ProofsC12.v — assembly: every file the writer model produces (loop over n_pixels)
   is accepted by the independent checker, for ALL builder-call sequences, both byte
   orders, all pixel counts, all chunk sizes >= 1, all strings/arrays whose lengths fit
   their u32 fields (hypotheses [ir_ok], [fits]).  With the loop over n_rows the same
   statement is false ([truncated_file_rejected]). *)
From Coq Require Import NArith String List Lia ZifyBool Bool Arith.
From Verif.SQW Require Import Bytes Format Model Content Check ProofsObj ProofsPix ProofsFile ProofsBuilder.
Import ListNotations.
Local Open Scope N_scope.

Definition prepared_list (ev : env) (title : bytes) (cs : list call) : list (bkey * obj) :=
  flat_map (fun k => match pspec ev title cs k with Some o => [(k, o)] | None => [] end) canonical_order.

(* the IR trees are well formed: every string, name and array is shorter than 2^32, f64 patterns < 2^64 *)
Definition ir_ok (ev : env) (title : bytes) (cs : list call) : Prop :=
  Forall (fun kv => wf (snd kv) /\ (depth (snd kv) <= obj_fuel)%nat) (prepared_list ev title cs).

Definition pix_ok (cs : list call) : Prop :=
  match last_pix cs with
  | Some (p, _, _) => pw_nrows p < two32 /\ pw_npix p < two64 /\ Forall (Forall (fun v => v < two64)) (pw_rows p)
  | None => True
  end.
Definition dnd_ok (cs : list call) : Prop :=
  match last_dnd cs with
  | Some m => N.of_nat (length (ax_nbins (dm_axes m))) < two32 /\ Forall (fun d => d < two32) (ax_nbins (dm_axes m))
  | None => True
  end.
(* every declared size fits its u32 field, the file is shorter than 2^64 bytes *)
Definition fits (bl : list blk) : Prop :=
  Forall (fun b => b_declared b < two32) bl /\ data_start bl + total_declared bl < two64.

Definition contents_spec (ev : env) (title : bytes) (cs : list call) : list content :=
  map (fun kv => CObj (snd kv)) (prepared_list ev title cs)
  ++ match last_dnd cs with
     | Some m => let z := repeat 0 (N.to_nat (prod_dims (ax_nbins (dm_axes m)))) in
                 [Format.CDnd {| dv_shape := ax_nbins (dm_axes m); dv_signal := z; dv_error := z; dv_npix := z |}]
     | None => [] end
  ++ match last_pix cs with
     | Some (p, _, _) => [Format.CPix (pw_nrows p) (pw_npix p) (concat (pixels_of p))]
     | None => [] end.

(* ------------------------------------------------------------------ names and sizes of the table *)
Definition triple (b : blk) := (b_type b, b_n1 b, b_n2 b).
Definition triple_of_name (n : bname) := (expected_type n, fst n, snd n).

Lemma blocks_triples : forall e ev b chunk title cs,
  map triple (blocks_spec e ev b chunk title cs) = map triple_of_name (expected_names cs).
Proof.
  intros. unfold blocks_spec, expected_names. rewrite !map_app, map_map.
  cbn [canonical_order all_keys flat_map pspec].
  destruct (has_det cs), (last_dnd cs), (last_inst cs), (last_samp cs), (last_pix cs) as [[[p xs] nd]|];
    reflexivity.
Qed.

Definition triples_len (l : list (bytes * bytes * bytes)) : N :=
  fold_right (fun t a => 4 + len (fst (fst t)) + (4 + len (snd (fst t))) + (4 + len (snd t)) + 16 + a) 0 l.
Lemma descs_len_triples : forall bl, descs_len bl = triples_len (map triple bl).
Proof. induction bl; cbn [descs_len map triples_len fold_right]; auto. unfold descs_len in IHbl. rewrite IHbl. reflexivity. Qed.

Definition triples_small (l : list (bytes * bytes * bytes)) : bool :=
  forallb (fun t => (len (fst (fst t)) <? two32) && (len (snd (fst t)) <? two32) && (len (snd t) <? two32)) l.

Lemma names_facts : forall cs,
  triples_small (map triple_of_name (expected_names cs)) = true
  /\ 4 + triples_len (map triple_of_name (expected_names cs)) < two32
  /\ (length (expected_names cs) <= 9)%nat.
Proof.
  intros. unfold expected_names.
  destruct (has_det cs), (last_dnd cs), (last_inst cs), (last_samp cs), (last_pix cs) as [[[p xs] nd]|];
    (split; [vm_compute; reflexivity | split; [vm_compute; reflexivity | cbn; lia]]).
Qed.

Lemma Forall2_map_same : forall A B C (f : A -> B) (g : A -> C) (R : B -> C -> Prop) (P : A -> Prop) l,
  Forall P l -> (forall x, P x -> R (f x) (g x)) -> Forall2 R (map f l) (map g l).
Proof. induction 1; intros H1; cbn [map]; constructor; auto. Qed.

(* binary32 patterns produced from 64-bit patterns fit 32 bits *)
Lemma transpose_small : forall n rows, Forall (Forall (fun v => v < two64)) rows ->
  Forall (Forall (fun v => v < two32)) (transpose_rows n rows).
Proof.
  induction n; intros rows H; cbn [transpose_rows]; constructor.
  - apply Forall_forall. intros x Hx. apply in_map_iff in Hx. destruct Hx as [r [<- Hr]].
    apply f64_to_f32_lt.
  - apply IHn. apply Forall_forall. intros x Hx. apply in_map_iff in Hx. destruct Hx as [r [<- Hr]].
    rewrite Forall_forall in H. specialize (H r Hr). destruct r; cbn [tl]; [constructor | inversion H; auto].
Qed.

Lemma concat_small : forall (l : list (list N)) (P : N -> Prop), Forall (Forall P) l -> Forall P (concat l).
Proof. induction 1; cbn [concat]; [constructor | apply Forall_app; auto]. Qed.

(* ------------------------------------------------------------------ C12 main theorem *)
Theorem written_file_checks : forall e ev title cs chunk,
  1 <= chunk -> ndims_of cs < two32 ->
  ir_ok ev title cs -> pix_ok cs -> dnd_ok cs ->
  fits (blocks_spec e ev BoundNPixels chunk title cs) ->
  let bl := blocks_spec e ev BoundNPixels chunk title cs in
  check_file (encode_file canonical_order e ev BoundNPixels title cs chunk)
  = Ok {| fv_endian := e; fv_ndims := ndims_of cs; fv_descs := descs_of bl (data_start bl);
          fv_blocks := contents_spec ev title cs |}.
Proof.
  intros e ev title cs chunk Hc Hnd Hir Hpix Hdnd [Hdecl Htot] bl.
  rewrite encode_file_spec. fold bl.
  pose proof (blocks_triples e ev BoundNPixels chunk title cs) as HT. fold bl in HT.
  destruct (names_facts cs) as [Hsmall [Hbat Hlen]].
  assert (Hlen' : length bl = length (expected_names cs)).
  { rewrite <- (map_length triple bl), HT, map_length. reflexivity. }
  apply check_file_layout; auto.
  - (* descriptor fields fit *)
    rewrite <- HT in Hsmall. unfold triples_small in Hsmall. rewrite forallb_forall in Hsmall.
    apply Forall_forall. intros b Hb. rewrite Forall_forall in Hdecl.
    specialize (Hsmall (triple b) (in_map triple bl b Hb)). unfold triple in Hsmall. cbn [fst snd] in Hsmall.
    unfold desc_fits. specialize (Hdecl b Hb). lia.
  - unfold two32 in *. lia.
  - unfold bat_size. rewrite descs_len_triples, HT. exact Hbat.
  - (* names are distinct *)
    assert (E : blk_names bl = expected_names cs).
    { unfold blk_names. transitivity (map (fun t : bytes * bytes * bytes => (snd (fst t), snd t)) (map triple bl)).
      - rewrite map_map. reflexivity.
      - rewrite HT, map_map. unfold triple_of_name. cbn [fst snd].
        rewrite <- (map_id (expected_names cs)) at 2. apply map_ext. intros [a b0]; reflexivity. }
    rewrite E. apply bat_lists_each_block_once.
  - (* every block is as long as declared *)
    unfold bl, blocks_spec, sizes_honest. apply Forall_app. split; [|apply Forall_app; split].
    + apply Forall_map. apply Forall_forall. intros; reflexivity.
    + destruct (last_dnd cs); constructor; auto. cbn [b_bytes b_declared]. apply dnd_write_length.
    + destruct (last_pix cs) as [[[p xs] nd]|]; constructor; auto. cbn [b_bytes b_declared].
      apply pix_write_length; auto.
  - (* every block decodes completely *)
    unfold bl, blocks_spec, contents_spec. apply Forall2_app; [|apply Forall2_app].
    + apply (Forall2_map_same _ _ _ _ _ _ _ _ Hir). intros [k o] [Hw Hd]. cbn [snd b_type b_bytes] in *.
      unfold decode_block. change (bytes_eqb s_data_block s_data_block) with true. cbv iota.
      rewrite decode_encode_block; auto.
    + unfold dnd_ok in Hdnd. destruct (last_dnd cs); constructor; auto. cbn [b_type b_bytes].
      destruct Hdnd as [H1 H2]. unfold decode_block.
      change (bytes_eqb s_dnd_block s_data_block) with false.
      change (bytes_eqb s_dnd_block s_pix_block) with false.
      change (bytes_eqb s_dnd_block s_dnd_block) with true. cbv iota.
      rewrite decode_dnd_write; auto.
    + unfold pix_ok in Hpix. destruct (last_pix cs) as [[[p xs] nd]|]; constructor; auto. cbn [b_type b_bytes].
      destruct Hpix as [H1 [H2 H3]]. unfold decode_block.
      change (bytes_eqb s_pix_block s_data_block) with false.
      change (bytes_eqb s_pix_block s_pix_block) with true. cbv iota.
      rewrite decode_pix_write; auto.
      apply concat_small. unfold pixels_of. apply transpose_small; auto.
Qed.

(* what the accepted view says about the table *)
Corollary written_file_names : forall e ev title cs chunk,
  let bl := blocks_spec e ev BoundNPixels chunk title cs in
  map (fun d => (d_n1 d, d_n2 d)) (descs_of bl (data_start bl)) = expected_names cs.
Proof.
  intros. rewrite descs_names. unfold bl. rewrite <- file_blocks_spec. apply bat_names.
Qed.

(* ------------------------------------------------------------------ satisfiable, and false for the n_rows loop *)
Definition demo_env : env :=
  {| env_full := bs "in_memory"; env_path := bs ""; env_name := bs "";
     env_date_main := bs "2026-09-29T12:00:00+00:00"; env_date_dnd := bs "2026-09-29T12:00:00+00:00" |}.
Definition demo_exp : experiment :=
  {| x_filename := bs "run.nxspe"; x_filepath := bs "/data"; x_run_id := 0; x_efix := [f64_of_N 3];
     x_emode := 1; x_en_rows := 1; x_en := [f64_of_N 1; f64_of_N 2];
     x_psi := 0; x_u := [f64_of_N 1; 0; 0]; x_v := [0; f64_of_N 1; 0];
     x_omega := 0; x_dpsi := 0; x_gl := 0; x_gs := 0 |}.
Definition demo_calls (n : nat) : list call :=
  [CSamp {| sa_name := bs "Fe"; sa_alatt := [f64_of_N 2; f64_of_N 3; f64_of_N 4];
            sa_angdeg := [f64_of_N 90; f64_of_N 90; f64_of_N 90] |};
   CPix (demo_pix n) [demo_exp; demo_exp] 4; CDet].

Example written_file_checks_example :
  exists fv, check_file (encode_file canonical_order BE demo_env BoundNPixels (bs "t") (demo_calls 20) 1) = Ok fv
             /\ fv_endian fv = BE /\ fv_ndims fv = 4
             /\ map (fun d => str_of_bytes (d_n2 d)) (fv_descs fv)
                = ["main_header"; "detpar"; "samples"; "expdata"; "metadata"; "data_wrap"]%string.
Proof. eexists. split; [vm_compute; reflexivity | vm_compute; auto]. Qed.

Example hypotheses_satisfiable :
  forallb (fun kv => wfb (snd kv) && Nat.leb (depth (snd kv)) obj_fuel) (prepared_list demo_env (bs "t") (demo_calls 20)) = true.
Proof. vm_compute. reflexivity. Qed.

(* 20 pixels, chunk size 1, loop over n_rows: the last extent reaches beyond the end of the file *)
Theorem truncated_file_rejected :
  exists cs chunk, 1 <= chunk /\
    check_file (encode_file canonical_order LE demo_env BoundNRows (bs "t") cs chunk)
    = Err "extent:last-extent-ends-beyond-end-of-file"%string.
Proof. exists (demo_calls 20), 1. split; [lia | vm_compute; reflexivity]. Qed.
