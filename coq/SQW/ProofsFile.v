(* SQW/ProofsFile.v — the container: header, byte-order recognition, block allocation
   table, extents, and the independent checker [Format.check_file] accepting every
   file the writer model lays out.  Everything here is for ALL block lists, both byte
   orders and all sizes that fit their fields (the hypotheses say so explicitly). *)
From Coq Require Import NArith String List Lia ZifyBool Bool Arith.
From Verif.SQW Require Import Bytes Format Model.
Import ListNotations.
Local Open Scope N_scope.

(* ------------------------------------------------------------------ small facts *)
Lemma firstn_exact : forall A (a b : list A) n, n = length a -> firstn n (a ++ b) = a.
Proof. intros; subst. rewrite firstn_app, Nat.sub_diag, firstn_all. cbn. apply app_nil_r. Qed.

Lemma skipn_exact : forall A (a b : list A) n, n = length a -> skipn n (a ++ b) = b.
Proof. intros; subst. rewrite skipn_app, Nat.sub_diag, skipn_all. reflexivity. Qed.

Lemma bytes_eqb_refl : forall a, bytes_eqb a a = true.
Proof. induction a; cbn [bytes_eqb]; auto. rewrite N.eqb_refl, IHa. reflexivity. Qed.

Lemma bytes_eqb_eq : forall a b, bytes_eqb a b = true -> a = b.
Proof.
  induction a; destruct b; cbn [bytes_eqb]; intros H; try discriminate; auto.
  apply andb_prop in H. destruct H as [H1 H2]. apply N.eqb_eq in H1. subst. f_equal. auto.
Qed.

Lemma name_eqb_eq : forall a b, name_eqb a b = true -> a = b.
Proof.
  intros [a1 a2] [b1 b2] H. unfold name_eqb in H. cbn [fst snd] in H.
  apply andb_prop in H. destruct H as [H1 H2]. apply bytes_eqb_eq in H1, H2. subst. reflexivity.
Qed.

Lemma name_eqb_refl : forall a, name_eqb a a = true.
Proof. intros [a b]. unfold name_eqb. cbn [fst snd]. rewrite !bytes_eqb_refl. reflexivity. Qed.

Lemma len_u32 : forall e n, len (u32 e n) = 4. Proof. intros; unfold u32; rewrite len_enc; reflexivity. Qed.
Lemma len_u64 : forall e n, len (u64 e n) = 8. Proof. intros; unfold u64; rewrite len_enc; reflexivity. Qed.
Lemma len_f64 : forall e n, len (f64 e n) = 8. Proof. intros; unfold f64; rewrite len_enc; reflexivity. Qed.

(* ------------------------------------------------------------------ header and byte order *)
Lemma len_header : forall e nd, len (header e nd) = header_len.
Proof.
  intros. unfold header. rewrite !len_app, !len_u32, len_f64. reflexivity.
Qed.

Theorem header_prefix : forall e nd bl,
  firstn 26 (layout e nd bl) = u32 e 6 ++ s_horace ++ f64 e f64_4_0 ++ u32 e 1 ++ u32 e nd.
Proof.
  intros. unfold layout. rewrite firstn_exact.
  - unfold header. rewrite <- app_assoc. reflexivity.
  - pose proof (len_header e nd) as H. unfold len, header_len in H. lia.
Qed.

Theorem deduce_byteorder_layout : forall e nd bl, deduce_byteorder (layout e nd bl) = e.
Proof.
  intros e nd bl. unfold layout, header.
  repeat rewrite <- app_assoc.
  destruct e.
  - change (u32 LE 6) with [6; 0; 0; 0]. reflexivity.
  - change (u32 BE 6) with [0; 0; 0; 6]. reflexivity.
Qed.

Lemma p_chars_ok : forall e s r, len s < two32 -> p_chars e (chars e s ++ r) = Some (s, r).
Proof.
  intros. unfold p_chars, chars. rewrite <- app_assoc. unfold u32.
  rewrite p_uint_enc by (rewrite pow256_4; auto). apply take_app.
Qed.

Lemma p_header_ok : forall e nd r, nd < two32 -> p_header e (header e nd ++ r) = Some (nd, r).
Proof.
  intros e nd r H. unfold p_header, header.
  change (u32 e 6 ++ s_horace) with (chars e s_horace). repeat rewrite <- app_assoc.
  rewrite p_chars_ok by (vm_compute; reflexivity).
  unfold f64. rewrite p_uint_enc by (vm_compute; reflexivity).
  unfold u32. rewrite p_uint_enc by (vm_compute; reflexivity).
  rewrite p_uint_enc by (rewrite pow256_4; auto).
  rewrite bytes_eqb_refl, !N.eqb_refl. reflexivity.
Qed.

(* ------------------------------------------------------------------ block allocation table *)
Definition desc_of (b : blk) (pos : N) : desc :=
  {| d_type := b_type b; d_n1 := b_n1 b; d_n2 := b_n2 b; d_pos := pos; d_size := b_declared b; d_locked := 0 |}.
Fixpoint descs_of (bl : list blk) (pos : N) : list desc :=
  match bl with [] => [] | b :: t => desc_of b pos :: descs_of t (pos + b_declared b) end.
Definition total_declared (bl : list blk) : N := fold_right (fun b a => b_declared b + a) 0 bl.

(* the fields of a descriptor fit: names < 2^32 bytes, size < 2^32 *)
Definition desc_fits (b : blk) : Prop :=
  len (b_type b) < two32 /\ len (b_n1 b) < two32 /\ len (b_n2 b) < two32 /\ b_declared b < two32.

Lemma len_desc_bytes : forall e b pos, len (desc_bytes e b pos) = desc_len b.
Proof.
  intros. unfold desc_bytes, desc_len, chars. rewrite !len_app, !len_u32, len_u64. lia.
Qed.

Lemma len_descs_bytes : forall e bl pos, len (descs_bytes e bl pos) = descs_len bl.
Proof.
  induction bl; intros; cbn [descs_bytes descs_len fold_right]; auto.
  rewrite len_app, len_desc_bytes. unfold descs_len in IHbl. rewrite IHbl. reflexivity.
Qed.

Lemma descs_len_ge : forall bl, N.of_nat (length bl) <= descs_len bl.
Proof.
  induction bl; cbn [length descs_len fold_right]; [lia|].
  unfold descs_len in IHbl. assert (1 <= desc_len a) by (unfold desc_len; lia). lia.
Qed.

Lemma p_desc_ok : forall e b pos r, desc_fits b -> pos < two64 ->
  p_desc e (desc_bytes e b pos ++ r) = Some (desc_of b pos, r).
Proof.
  intros e b pos r (H1 & H2 & H3 & H4) Hp. unfold p_desc, desc_bytes. repeat rewrite <- app_assoc.
  rewrite !p_chars_ok by auto.
  unfold u64. rewrite p_uint_enc by (rewrite pow256_8; auto).
  unfold u32. rewrite p_uint_enc by (rewrite pow256_4; auto).
  rewrite p_uint_enc by (vm_compute; reflexivity). reflexivity.
Qed.

Lemma p_many_descs : forall e bl pos r, Forall desc_fits bl -> pos + total_declared bl < two64 ->
  p_many (p_desc e) (length bl) (descs_bytes e bl pos ++ r) = Some (descs_of bl pos, r).
Proof.
  induction bl; intros pos r F Hp; cbn [length descs_bytes descs_of p_many]; auto.
  inversion F; subst. cbn [total_declared fold_right] in Hp. fold (total_declared bl) in Hp.
  rewrite <- app_assoc. rewrite p_desc_ok by (auto; lia).
  rewrite IHbl; auto. lia.
Qed.

Lemma p_bat_ok : forall e bl r,
  Forall desc_fits bl -> N.of_nat (length bl) < two32 -> bat_size bl < two32 ->
  data_start bl + total_declared bl < two64 ->
  p_bat e (bat e bl ++ r) = Some ((bat_size bl, bat_size bl, descs_of bl (data_start bl)), r).
Proof.
  intros e bl r F Hn Hs Hp. unfold p_bat, bat. repeat rewrite <- app_assoc.
  unfold u32 at 1. rewrite p_uint_enc by (rewrite pow256_4; auto).
  unfold u32 at 1. rewrite p_uint_enc by (rewrite pow256_4; auto).
  unfold p_count.
  assert (G : len (descs_bytes e bl (data_start bl) ++ r) <? N.of_nat (length bl) = false).
  { rewrite len_app, len_descs_bytes. pose proof (descs_len_ge bl). lia. }
  rewrite G, Nat2N.id, p_many_descs by auto.
  repeat f_equal. rewrite !len_app, len_u32, len_descs_bytes. unfold bat_size. lia.
Qed.

(* ------------------------------------------------------------------ extents *)
Lemma tile_check_descs : forall bl pos, tile_check pos (descs_of bl pos) (pos + total_declared bl) = None.
Proof.
  induction bl; intros pos; cbn [descs_of tile_check total_declared fold_right].
  - replace (pos =? pos + 0) with true by lia. reflexivity.
  - cbn [desc_of d_pos d_size]. rewrite N.eqb_refl. fold (total_declared bl).
    rewrite N.add_assoc. apply IHbl.
Qed.

(* the writer wrote as many bytes as it declared for every block *)
Definition sizes_honest (bl : list blk) : Prop := Forall (fun b => len (b_bytes b) = b_declared b) bl.

Lemma len_bodies : forall bl, sizes_honest bl -> len (flat_map b_bytes bl) = total_declared bl.
Proof.
  induction 1; cbn [flat_map total_declared fold_right]; auto.
  rewrite len_app, H. fold (total_declared l). unfold sizes_honest in IHForall. rewrite IHForall. reflexivity.
Qed.

Lemma len_bat : forall e bl, len (bat e bl) = 4 + bat_size bl.
Proof.
  intros. unfold bat. rewrite !len_app, !len_u32, len_descs_bytes. unfold bat_size. lia.
Qed.

Theorem layout_length : forall e nd bl, sizes_honest bl ->
  len (layout e nd bl) = data_start bl + total_declared bl.
Proof.
  intros. unfold layout. rewrite !len_app, len_header, len_bat, len_bodies by auto. unfold data_start. lia.
Qed.

(* first extent right after the table, contiguous, last one ends at end-of-file *)
Theorem extents_tile_file : forall e nd bl, sizes_honest bl ->
  tile_check (header_len + 4 + bat_size bl) (descs_of bl (data_start bl)) (len (layout e nd bl)) = None.
Proof. intros. rewrite layout_length by auto. apply tile_check_descs. Qed.

Lemma extents_aux : forall bl (pre : bytes) i b d,
  sizes_honest bl -> nth_error bl i = Some b -> nth_error (descs_of bl (len pre)) i = Some d ->
  extent (pre ++ flat_map b_bytes bl) (d_pos d) (d_size d) = b_bytes b.
Proof.
  induction bl; intros pre i b d Hh Hb Hd; [destruct i; discriminate|].
  inversion Hh; subst. destruct i; cbn [nth_error descs_of flat_map] in *.
  - inversion Hb; inversion Hd; subst. cbn [desc_of d_pos d_size]. unfold extent.
    rewrite skipn_exact by (unfold len; lia).
    rewrite firstn_exact; auto. unfold len in H1. lia.
  - rewrite app_assoc.
    apply (IHbl (pre ++ b_bytes a) i b d); auto.
    rewrite len_app, H1. exact Hd.
Qed.

(* the bytes designated by the i-th (position, size) pair are the i-th block's bytes *)
Theorem extents_hold : forall e nd bl i b d, sizes_honest bl ->
  nth_error bl i = Some b -> nth_error (descs_of bl (data_start bl)) i = Some d ->
  extent (layout e nd bl) (d_pos d) (d_size d) = b_bytes b.
Proof.
  intros e nd bl i b d Hh Hb Hd. unfold layout. rewrite app_assoc.
  apply extents_aux with (i := i); auto.
  rewrite len_app, len_header, len_bat. unfold data_start in Hd. rewrite <- N.add_assoc in Hd. exact Hd.
Qed.

(* ------------------------------------------------------------------ the checker accepts the layout *)
Lemma decode_blocks_ok : forall e bl pos cs,
  sizes_honest bl ->
  Forall2 (fun b c => decode_block e (b_type b) (b_bytes b) = Ok c) bl cs ->
  decode_blocks e (flat_map b_bytes bl) (descs_of bl pos) = Ok cs.
Proof.
  induction bl; intros pos cs Hh HD; inversion HD; subst; cbn [flat_map descs_of decode_blocks]; auto.
  inversion Hh; subst. cbn [desc_of d_size d_type].
  rewrite take_app_n by auto. rewrite H1. rewrite (IHbl _ l'); auto.
Qed.

Definition blk_names (bl : list blk) : list (bytes * bytes) := map (fun b => (b_n1 b, b_n2 b)) bl.

Lemma descs_names : forall bl pos, map (fun d => (d_n1 d, d_n2 d)) (descs_of bl pos) = blk_names bl.
Proof. induction bl; intros; cbn [descs_of map blk_names]; auto. unfold blk_names in IHbl. rewrite IHbl. reflexivity. Qed.

Theorem check_file_layout : forall e nd bl cs,
  nd < two32 ->
  Forall desc_fits bl -> N.of_nat (length bl) < two32 -> bat_size bl < two32 ->
  data_start bl + total_declared bl < two64 ->
  nodup_names (blk_names bl) = true ->
  sizes_honest bl ->
  Forall2 (fun b c => decode_block e (b_type b) (b_bytes b) = Ok c) bl cs ->
  check_file (layout e nd bl)
  = Ok {| fv_endian := e; fv_ndims := nd; fv_descs := descs_of bl (data_start bl); fv_blocks := cs |}.
Proof.
  intros e nd bl cs Hnd F Hn Hs Hp Hdup Hh HD.
  unfold check_file. rewrite deduce_byteorder_layout.
  unfold layout at 1. rewrite p_header_ok by auto.
  rewrite p_bat_ok by auto.
  rewrite N.eqb_refl. cbn [negb].
  rewrite descs_names, Hdup. cbn [negb].
  replace (len (layout e nd bl) - len (flat_map b_bytes bl)) with (data_start bl).
  2:{ rewrite layout_length, len_bodies by auto. lia. }
  rewrite layout_length by auto. rewrite tile_check_descs.
  rewrite (decode_blocks_ok e bl (data_start bl) cs); auto.
Qed.
