(* SQW/ProofsObj.v — the typed-object codec: the independent decoder (Format.decode_obj)
   inverts the writer model (Model.encode_obj) on every well-formed object tree,
   consuming exactly the bytes the writer produced (C13 `decode_object (encode_object o) = o`,
   C12 `blocks decode completely within their extent`). *)
From Coq Require Import NArith String List Lia ZifyBool Bool Arith.
From Verif.SQW Require Import Bytes Format Model.
Import ListNotations.
Local Open Scope N_scope.

(* ------------------------------------------------------------------ induction principle for obj *)
Section ObjInd.
  Variable P : obj -> Prop.
  Hypothesis HChar : forall sh d, P (OChar sh d).
  Hypothesis HF64 : forall sh d, P (OF64 sh d).
  Hypothesis HLog : forall sh d, P (OLogical sh d).
  Hypothesis HCell : forall sh items, Forall P items -> P (OCell sh items).
  Hypothesis HStruct : forall sh names vals, P vals -> P (OStruct sh names vals).
  Hypothesis HStruct0 : forall sh, P (OStruct0 sh).
  Hypothesis HSer : forall o, P o -> P (OSer o).
  Fixpoint obj_ind' (o : obj) : P o :=
    match o with
    | OChar sh d => HChar sh d
    | OF64 sh d => HF64 sh d
    | OLogical sh d => HLog sh d
    | OCell sh items =>
        HCell sh items ((fix go (l : list obj) : Forall P l :=
                           match l with
                           | [] => Forall_nil P
                           | x :: t => Forall_cons x (obj_ind' x) (go t)
                           end) items)
    | OStruct sh names vals => HStruct sh names vals (obj_ind' vals)
    | OStruct0 sh => HStruct0 sh
    | OSer o' => HSer o' (obj_ind' o')
    end.
End ObjInd.

(* ------------------------------------------------------------------ well-formed trees *)
Definition dims_ok (sh : list N) : Prop := (length sh < 256)%nat /\ Forall (fun d => d < two32) sh.

Fixpoint wf (o : obj) : Prop :=
  match o with
  | OChar sh d => dims_ok sh /\ len d = volume sh
  | OF64 sh d => dims_ok sh /\ N.of_nat (length d) = volume sh /\ Forall (fun x => x < two64) d
  | OLogical sh d => dims_ok sh /\ len d = volume sh
  | OCell sh items =>
      dims_ok sh /\ N.of_nat (length items) = volume sh
      /\ (fix all (l : list obj) : Prop := match l with [] => True | x :: t => wf x /\ all t end) items
  | OStruct sh names vals =>
      dims_ok sh /\ volume sh <> 0 /\ N.of_nat (length names) < two32
      /\ Forall (fun n => len n < two32) names /\ wf vals
      /\ exists csh items, vals = OCell csh items /\ volume csh = N.of_nat (length names) * volume sh
  | OStruct0 sh => dims_ok sh /\ volume sh = 0
  | OSer o' => wf o'
  end.

Fixpoint depth (o : obj) : nat :=
  match o with
  | OCell _ items => S (fold_right (fun i a => Nat.max (depth i) a) 0%nat items)
  | OStruct _ _ v => S (depth v)
  | OSer o' => S (depth o')
  | _ => 1%nat
  end.

Lemma wf_all_Forall : forall items,
  (fix all (l : list obj) : Prop := match l with [] => True | x :: t => wf x /\ all t end) items
  <-> Forall wf items.
Proof.
  induction items; split; intros H; auto.
  - destruct H; constructor; auto. apply IHitems; auto.
  - inversion H; subst. split; auto. apply IHitems; auto.
Qed.

Lemma depth_in_le : forall items a, In a items ->
  (depth a <= fold_right (fun i acc => Nat.max (depth i) acc) 0 items)%nat.
Proof.
  induction items; intros x H; [contradiction|].
  cbn [fold_right]. destruct H as [->|H]; [lia|]. specialize (IHitems x H). lia.
Qed.

(* ------------------------------------------------------------------ unfolding equations of the decoder *)
Lemma decode_obj_ser : forall f e r0,
  decode_obj (S f) e (32 :: r0) = ('(o, r) <- decode_obj f e r0 ;; Some (OSer o, r)).
Proof. reflexivity. Qed.
Lemma decode_obj_char : forall f e r0,
  decode_obj (S f) e (1 :: r0) =
  ('(sh, r1) <- p_shape e r0 ;; '(d, r) <- take r1 (volume sh) ;; Some (OChar sh d, r)).
Proof. reflexivity. Qed.
Lemma decode_obj_f64 : forall f e r0,
  decode_obj (S f) e (3 :: r0) =
  ('(sh, r1) <- p_shape e r0 ;; '(d, r) <- p_count (p_uint e 8) (volume sh) r1 ;; Some (OF64 sh d, r)).
Proof. reflexivity. Qed.
Lemma decode_obj_logical : forall f e r0,
  decode_obj (S f) e (0 :: r0) =
  ('(sh, r1) <- p_shape e r0 ;; '(d, r) <- take r1 (volume sh) ;; Some (OLogical sh d, r)).
Proof. reflexivity. Qed.
Lemma decode_obj_cell : forall f e r0,
  decode_obj (S f) e (23 :: r0) =
  ('(sh, r1) <- p_shape e r0 ;; '(items, r) <- p_count (decode_obj f e) (volume sh) r1 ;; Some (OCell sh items, r)).
Proof. reflexivity. Qed.
Lemma decode_obj_struct : forall f e r0,
  decode_obj (S f) e (24 :: r0) =
  ('(sh, r1) <- p_shape e r0 ;;
   if volume sh =? 0 then Some (OStruct0 sh, r1)
   else
     '(nf, r2) <- p_uint e 4 r1 ;;
     '(sizes, r3) <- p_count (p_uint e 4) nf r2 ;;
     '(names, r4) <- p_names sizes r3 ;;
     '(vals, r5) <- decode_obj f e r4 ;;
     match vals with
     | OCell csh _ => if volume csh =? nf * volume sh then Some (OStruct sh names vals, r5) else None
     | _ => None
     end).
Proof. reflexivity. Qed.

(* ------------------------------------------------------------------ pieces *)
Lemma p_shape_enc : forall e sh r, dims_ok sh -> p_shape e (enc_shape e sh ++ r) = Some (sh, r).
Proof.
  intros e sh r [Hn Hd]. unfold p_shape, enc_shape. cbn [app p_u8].
  unfold u32. rewrite p_count_uints; auto; try lia; try (rewrite pow256_4; exact Hd).
Qed.

Lemma p_names_concat : forall names r, p_names (map len names) (concat names ++ r) = Some (names, r).
Proof.
  induction names; intros r; cbn [map concat p_names]; auto.
  rewrite <- app_assoc, take_app, IHnames. reflexivity.
Qed.

Lemma flat_map_map_enc : forall e (names : list bytes),
  flat_map (fun n => u32 e (len n)) names = flat_map (enc e 4) (map len names).
Proof. induction names; cbn [flat_map map]; auto. rewrite IHnames. reflexivity. Qed.

Lemma encode_obj_nonempty : forall e o, 1 <= len (encode_obj e o).
Proof. intros e []; cbn [encode_obj]; rewrite len_cons; lia. Qed.

(* ------------------------------------------------------------------ the round trip *)
Theorem decode_encode_obj : forall e o, wf o ->
  forall fuel rest, (depth o <= fuel)%nat ->
  decode_obj fuel e (encode_obj e o ++ rest) = Some (o, rest).
Proof.
  intros e o. induction o using obj_ind'; intros W fuel rest Hf;
    (destruct fuel as [|f]; [cbn [depth] in Hf; lia|]); cbn [encode_obj]; rewrite <- ?app_comm_cons.
  - (* char *)
    destruct W as [Wd Wl]. rewrite decode_obj_char, <- app_assoc, p_shape_enc by auto.
    rewrite take_app_n by auto. reflexivity.
  - (* f64 *)
    destruct W as [Wd [Wl Wv]]. rewrite decode_obj_f64, <- app_assoc, p_shape_enc by auto.
    unfold f64. rewrite p_count_uints; auto; try lia; try (rewrite pow256_8; exact Wv).
  - (* logical *)
    destruct W as [Wd Wl]. rewrite decode_obj_logical, <- app_assoc, p_shape_enc by auto.
    rewrite take_app_n by auto. reflexivity.
  - (* cell *)
    destruct W as [Wd [Wl Wi]]. apply wf_all_Forall in Wi.
    rewrite decode_obj_cell, <- app_assoc, p_shape_enc by auto.
    rewrite (p_count_flat obj (decode_obj f e) (encode_obj e) items rest); auto.
    + intros; apply encode_obj_nonempty.
    + intros a r' Hin. rewrite Forall_forall in H, Wi. apply H; auto.
      cbn [depth] in Hf. pose proof (depth_in_le items a Hin). lia.
  - (* struct *)
    destruct W as [Wd [Wv [Wn [Wl [Wvals [csh [items [-> Hvol]]]]]]]].
    rewrite decode_obj_struct. repeat rewrite <- app_assoc. rewrite p_shape_enc by auto.
    replace (volume sh =? 0) with false by lia.
    unfold u32 at 1. rewrite p_uint_enc by (rewrite pow256_4; auto).
    rewrite flat_map_map_enc.
    rewrite p_count_uints; auto; try lia.
    2:{ rewrite map_length; reflexivity. }
    2:{ rewrite pow256_4. rewrite Forall_map. exact Wl. }
    rewrite p_names_concat.
    rewrite IHo; auto.
    2:{ cbn [depth] in Hf |- *. lia. }
    replace (volume csh =? N.of_nat (length names) * volume sh) with true by lia.
    reflexivity.
  - (* empty struct array *)
    destruct W as [Wd Wv]. rewrite decode_obj_struct, p_shape_enc by auto.
    replace (volume sh =? 0) with true by lia. reflexivity.
  - (* self-serialising prefix *)
    rewrite decode_obj_ser. rewrite IHo; auto. cbn [depth] in Hf. lia.
Qed.

(* a whole block: nothing is left over *)
Corollary decode_encode_block : forall e o, wf o -> (depth o <= obj_fuel)%nat ->
  decode_obj obj_fuel e (encode_obj e o) = Some (o, []).
Proof.
  intros. rewrite <- (app_nil_r (encode_obj e o)). apply decode_encode_obj; auto.
Qed.

(* ------------------------------------------------------------------ executable well-formedness *)
Definition dims_okb (sh : list N) : bool := (N.of_nat (length sh) <? 256) && forallb (fun d => d <? two32) sh.
Fixpoint wfb (o : obj) : bool :=
  match o with
  | OChar sh d => dims_okb sh && (len d =? volume sh)
  | OF64 sh d => dims_okb sh && (N.of_nat (length d) =? volume sh) && forallb (fun x => x <? two64) d
  | OLogical sh d => dims_okb sh && (len d =? volume sh)
  | OCell sh items => dims_okb sh && (N.of_nat (length items) =? volume sh) && forallb wfb items
  | OStruct sh names vals =>
      dims_okb sh && negb (volume sh =? 0) && (N.of_nat (length names) <? two32)
      && forallb (fun n => len n <? two32) names && wfb vals
      && match vals with OCell csh _ => volume csh =? N.of_nat (length names) * volume sh | _ => false end
  | OStruct0 sh => dims_okb sh && (volume sh =? 0)
  | OSer o' => wfb o'
  end.

Lemma dims_okb_sound : forall sh, dims_okb sh = true -> dims_ok sh.
Proof.
  intros sh H. unfold dims_okb in H. apply andb_prop in H. destruct H as [H1 H2]. split; [lia|].
  rewrite forallb_forall in H2. apply Forall_forall. intros x Hx. specialize (H2 x Hx). lia.
Qed.

Lemma wfb_sound : forall o, wfb o = true -> wf o.
Proof.
  induction o using obj_ind'; cbn [wfb wf]; intros W; rewrite ?andb_true_iff in W.
  - destruct W as [W1 W2]. split; [apply dims_okb_sound; auto | lia].
  - destruct W as [[W1 W2] W3]. split; [apply dims_okb_sound; auto|]. split; [lia|].
    rewrite forallb_forall in W3. apply Forall_forall. intros x Hx. specialize (W3 x Hx). lia.
  - destruct W as [W1 W2]. split; [apply dims_okb_sound; auto | lia].
  - destruct W as [[W1 W2] W3]. split; [apply dims_okb_sound; auto|]. split; [lia|].
    apply wf_all_Forall. rewrite forallb_forall in W3. rewrite Forall_forall in H |- *.
    intros x Hx. apply H; auto.
  - destruct W as [[[[[W1 W2] W3] W4] W5] W6].
    split; [apply dims_okb_sound; auto|]. split; [lia|]. split; [lia|]. split.
    { rewrite forallb_forall in W4. apply Forall_forall. intros x Hx. specialize (W4 x Hx). lia. }
    split; [auto|].
    destruct o; try discriminate. exists sh0, items. split; [reflexivity | lia].
  - destruct W as [W1 W2]. split; [apply dims_okb_sound; auto | lia].
  - auto.
Qed.

(* satisfiability: a struct with a string, a number, a nested prefixed struct and a cell of strings *)
Example wf_example :
  let o := ir_instrument {| in_name := bs "LET"%string; in_src_name := bs "ISIS"%string; in_src_target := bs "TS2"%string;
                            in_src_freq := f64_of_N 10 |} in
  wf o /\ decode_obj obj_fuel BE (encode_obj BE o) = Some (o, []).
Proof. split; [apply wfb_sound; vm_compute; reflexivity | vm_compute; reflexivity]. Qed.
