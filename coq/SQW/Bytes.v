(* SQW/Bytes.v — bytes as [list N], fixed-width unsigned integers in either byte
   order (encode by div/mod 256, no shifts), the elementary parser steps used by
   the independent decoder (Format.v), and their inversion lemmas.
   f64 / f32 payloads are opaque bit patterns (N < 2^64 / 2^32). *)
From Coq Require Import NArith List Lia ZifyBool Bool.
Import ListNotations.
Local Open Scope N_scope.

Definition bytes := list N.
Inductive endian := LE | BE.
Definition endian_eqb (a b : endian) : bool :=
  match a, b with LE, LE | BE, BE => true | _, _ => false end.

(* ------------------------------------------------------------------ integers *)
(* low byte first; [N.land n 255] = n mod 256 and [N.shiftr n 8] = n / 256 (lemmas below), written with
   bit operations because they evaluate much faster than binary division *)
Fixpoint le_bytes (k : nat) (n : N) : bytes :=
  match k with O => [] | S k' => N.land n 255 :: le_bytes k' (N.shiftr n 8) end.
Fixpoint le_val (l : bytes) : N :=
  match l with [] => 0 | b :: r => b + 256 * le_val r end.
Definition enc (e : endian) (k : nat) (n : N) : bytes :=
  match e with LE => le_bytes k n | BE => rev (le_bytes k n) end.
Definition dec (e : endian) (l : bytes) : N :=
  match e with LE => le_val l | BE => le_val (rev l) end.

Definition u32 (e : endian) (n : N) : bytes := enc e 4 n.
Definition u64 (e : endian) (n : N) : bytes := enc e 8 n.
Definition f64 (e : endian) (bits : N) : bytes := enc e 8 bits.
Definition f32 (e : endian) (bits : N) : bytes := enc e 4 bits.

Definition two32 : N := 4294967296.
Definition two64 : N := 18446744073709551616.

Lemma land255 : forall n, N.land n 255 = n mod 256.
Proof. intros. change 255 with (N.ones 8). rewrite N.land_ones. reflexivity. Qed.
Lemma shiftr8 : forall n, N.shiftr n 8 = n / 256.
Proof. intros. rewrite N.shiftr_div_pow2. reflexivity. Qed.

Lemma le_bytes_length : forall k n, length (le_bytes k n) = k.
Proof. induction k; intros; cbn [le_bytes length]; auto. Qed.

Lemma enc_length : forall e k n, length (enc e k n) = k.
Proof. intros [] k n; unfold enc; [|rewrite rev_length]; apply le_bytes_length. Qed.

Lemma pow256_succ : forall k, 256 ^ N.of_nat (S k) = 256 * 256 ^ N.of_nat k.
Proof. intros; rewrite Nat2N.inj_succ, N.pow_succ_r'; reflexivity. Qed.

Lemma le_val_le_bytes : forall k n, n < 256 ^ N.of_nat k -> le_val (le_bytes k n) = n.
Proof.
  induction k; intros n H.
  - change (256 ^ N.of_nat 0) with 1 in H. cbn [le_bytes le_val]. lia.
  - rewrite pow256_succ in H. cbn [le_bytes le_val]. rewrite land255, shiftr8.
    rewrite IHk.
    + pose proof (N.div_mod' n 256). lia.
    + apply N.div_lt_upper_bound; lia.
Qed.

Lemma dec_enc : forall e k n, n < 256 ^ N.of_nat k -> dec e (enc e k n) = n.
Proof.
  intros [] k n H; unfold dec, enc; [|rewrite rev_involutive]; apply le_val_le_bytes; auto.
Qed.

Lemma le_bytes_small : forall k n, Forall (fun b => b < 256) (le_bytes k n).
Proof.
  induction k; intros; cbn [le_bytes]; constructor; auto.
  rewrite land255. apply N.mod_lt; lia.
Qed.

Lemma enc_small : forall e k n, Forall (fun b => b < 256) (enc e k n).
Proof.
  intros [] k n; unfold enc; [apply le_bytes_small|].
  apply Forall_rev, le_bytes_small.
Qed.

Lemma pow256_4 : 256 ^ N.of_nat 4 = two32. Proof. reflexivity. Qed.
Lemma pow256_8 : 256 ^ N.of_nat 8 = two64. Proof. reflexivity. Qed.
Lemma pow256_1 : 256 ^ N.of_nat 1 = 256. Proof. reflexivity. Qed.

(* ------------------------------------------------------------------ parser steps *)
Definition parser (A : Type) := bytes -> option (A * bytes).

(* first n bytes; structural on the input so a hostile count cannot blow up *)
Fixpoint take (bs : bytes) (n : N) {struct bs} : option (bytes * bytes) :=
  if n =? 0 then Some ([], bs)
  else match bs with
       | [] => None
       | b :: r => match take r (n - 1) with
                   | Some (l, r') => Some (b :: l, r')
                   | None => None
                   end
       end.

Definition len (l : bytes) : N := N.of_nat (length l).

Lemma take_app : forall l r, take (l ++ r) (len l) = Some (l, r).
Proof.
  unfold len. induction l; intros r.
  - cbn [length app]. destruct r; reflexivity.
  - cbn [length app take].
    replace (N.of_nat (S (length l)) =? 0) with false by lia.
    replace (N.of_nat (S (length l)) - 1) with (N.of_nat (length l)) by lia.
    rewrite IHl. reflexivity.
Qed.

Lemma take_app_n : forall l r n, n = len l -> take (l ++ r) n = Some (l, r).
Proof. intros; subst; apply take_app. Qed.

Lemma take_length : forall bs n l r, take bs n = Some (l, r) -> bs = l ++ r /\ len l = n.
Proof.
  unfold len. induction bs; intros n l r H; cbn [take] in H.
  - destruct (n =? 0) eqn:E; [|discriminate]. inversion H; subst. split; auto. cbn. lia.
  - destruct (n =? 0) eqn:E.
    + inversion H; subst. split; auto. cbn. lia.
    + destruct (take bs (n - 1)) as [[l' r']|] eqn:T; [|discriminate].
      inversion H; subst. apply IHbs in T. destruct T as [-> T]. split; auto.
      cbn [length]. lia.
Qed.

Definition p_uint (e : endian) (k : nat) : parser N :=
  fun bs => match take bs (N.of_nat k) with
            | Some (l, r) => Some (dec e l, r)
            | None => None
            end.

Lemma p_uint_enc : forall e k n r, n < 256 ^ N.of_nat k -> p_uint e k (enc e k n ++ r) = Some (n, r).
Proof.
  intros. unfold p_uint. rewrite take_app_n.
  - rewrite dec_enc; auto.
  - unfold len. rewrite enc_length. reflexivity.
Qed.

Definition p_u8 : parser N := fun bs => match bs with [] => None | b :: r => Some (b, r) end.

(* n repetitions of a parser *)
Fixpoint p_many {A} (p : parser A) (n : nat) : parser (list A) :=
  fun bs => match n with
            | O => Some ([], bs)
            | S k => match p bs with
                     | Some (a, r) => match p_many p k r with
                                      | Some (l, r') => Some (a :: l, r')
                                      | None => None
                                      end
                     | None => None
                     end
            end.

(* a count read from the file: every item needs at least one byte *)
Definition p_count {A} (p : parser A) (n : N) : parser (list A) :=
  fun bs => if len bs <? n then None else p_many p (N.to_nat n) bs.

Lemma p_many_flat : forall A (p : parser A) (encode : A -> bytes) (l : list A) (r : bytes),
  (forall a r', In a l -> p (encode a ++ r') = Some (a, r')) ->
  p_many p (length l) (flat_map encode l ++ r) = Some (l, r).
Proof.
  induction l; intros r H; cbn [length flat_map p_many]; auto.
  rewrite <- app_assoc. rewrite H by (left; auto).
  rewrite IHl; auto. intros; apply H; right; auto.
Qed.

Lemma flat_map_len_ge : forall A (encode : A -> bytes) (l : list A),
  (forall a, In a l -> 1 <= len (encode a)) -> N.of_nat (length l) <= len (flat_map encode l).
Proof.
  unfold len. induction l; intros H; cbn [length flat_map]; [lia|].
  rewrite app_length. specialize (H a (or_introl eq_refl)) as Ha.
  assert (N.of_nat (length l) <= N.of_nat (length (flat_map encode l))) by (apply IHl; intros; apply H; right; auto).
  lia.
Qed.

Lemma p_count_flat : forall A (p : parser A) (encode : A -> bytes) (l : list A) (r : bytes) n,
  n = N.of_nat (length l) ->
  (forall a, In a l -> 1 <= len (encode a)) ->
  (forall a r', In a l -> p (encode a ++ r') = Some (a, r')) ->
  p_count p n (flat_map encode l ++ r) = Some (l, r).
Proof.
  intros A p encode l r n -> Hlen H. unfold p_count.
  pose proof (flat_map_len_ge A encode l Hlen) as G.
  assert (len (flat_map encode l ++ r) <? N.of_nat (length l) = false) as ->.
  { unfold len in *. rewrite app_length. lia. }
  rewrite Nat2N.id. apply p_many_flat; auto.
Qed.

(* fixed-width integer arrays *)
Lemma p_count_uints : forall e k (l : list N) r n, (0 < k)%nat ->
  n = N.of_nat (length l) -> Forall (fun x => x < 256 ^ N.of_nat k) l ->
  p_count (p_uint e k) n (flat_map (enc e k) l ++ r) = Some (l, r).
Proof.
  intros e k l r n Hk -> F. apply p_count_flat; auto.
  - intros. unfold len. rewrite enc_length. lia.
  - intros a r' Hin. apply p_uint_enc. rewrite Forall_forall in F; auto.
Qed.

Lemma flat_map_enc_length : forall e k (l : list N),
  length (flat_map (enc e k) l) = (k * length l)%nat.
Proof.
  induction l; cbn [flat_map length]; [lia|].
  rewrite app_length, enc_length, IHl. lia.
Qed.

Lemma len_app : forall a b, len (a ++ b) = len a + len b.
Proof. intros; unfold len; rewrite app_length; lia. Qed.

Lemma len_cons : forall a b, len (a :: b) = 1 + len b.
Proof. intros; unfold len; cbn [length]; lia. Qed.

Lemma len_nil : len [] = 0. Proof. reflexivity. Qed.

Lemma len_enc : forall e k n, len (enc e k n) = N.of_nat k.
Proof. intros; unfold len; rewrite enc_length; reflexivity. Qed.

Lemma len_flat_enc : forall e k l, len (flat_map (enc e k) l) = N.of_nat k * N.of_nat (length l).
Proof. intros; unfold len; rewrite flat_map_enc_length; lia. Qed.

(* option-monad notation for the decoders *)
Notation "' pat <- c1 ;; c2" :=
  (match c1 with Some pat => c2 | None => None end)
  (at level 61, pat pattern, c1 at next level, right associativity).
Notation "x <- c1 ;; c2" :=
  (match c1 with Some x => c2 | None => None end)
  (at level 61, c1 at next level, right associativity).

Example dec_enc_example : dec BE (u32 BE 1962) = 1962 /\ u32 LE 6 = [6;0;0;0] /\ u32 BE 6 = [0;0;0;6].
Proof. vm_compute. auto. Qed.
