(* SQW/ProofsC13.v — C13 assembly: decoding the written file with the independent decoder and
   reading it with the documented content view yields exactly [Check.expected_view], the flat
   description of what was supplied (pixels in order rounded once, pixel metadata, one record
   per run with 1-based ids, shared instrument / sample objects, dnd metadata, zero histogram). *)
From Coq Require Import NArith ZArith String List Lia ZifyBool Bool Arith.
From Verif.SQW Require Import Bytes Format Model Content Check ProofsObj ProofsPix ProofsFile ProofsBuilder
     ProofsC12 ProofsContent.
Import ListNotations.
Local Open Scope N_scope.

Definition mkblk (e : endian) (kv : bkey * obj) : blk :=
  let body := encode_obj e (snd kv) in
  {| b_type := s_data_block; b_n1 := fst (key_name (fst kv)); b_n2 := snd (key_name (fst kv));
     b_declared := len body; b_bytes := body |}.

(* integers that are stored as binary64 are below 2^53; at least one run *)
Definition content_ok (cs : list call) : Prop :=
  nfiles_of cs < two53
  /\ match last_pix cs with
     | Some (p, xs, _) => xs <> [] /\ pw_npix p < two53
                          /\ Forall (fun x => x_run_id x + 1 < two53 /\ x_emode x < two53) xs
     | None => True end
  /\ match last_dnd cs with
     | Some m => Forall (fun n => n < two53) (ax_nbins (dm_axes m))
                 /\ Forall (fun n => n + 1 < two53) (ax_dax (dm_axes m))
     | None => True end.

Definition wrap_key (key : string) (r : option view) : res view :=
  match r with Some v => Ok v | None => Err ("content:" ++ key) end.
Definition block_view_key (k : bkey) (o : obj) : res view :=
  match k with
  | KMain => wrap_key "/main_header" (view_main o)
  | KDet => wrap_key "/detpar" (view_det o)
  | KDmeta => wrap_key "data/metadata" (view_dnd o)
  | KInst => wrap_key "experiment_info/instruments" (view_inst o)
  | KSamp => wrap_key "experiment_info/samples" (view_samp o)
  | KExp => wrap_key "experiment_info/expdata" (view_exp o)
  | KPmeta => wrap_key "pix/metadata" (view_pixmeta o)
  | KNd => Err "content:unknown-block:data/nd_data"
  | KPwrap => Err "content:unknown-block:pix/data_wrap"
  end.

Lemma block_view_k : forall e k o p, block_view (desc_of (mkblk e (k, o)) p) (CObj o) = block_view_key k o.
Proof. intros e k o p. destruct k; reflexivity. Qed.

Lemma blocks_view_cons : forall b bl p c cs,
  blocks_view (descs_of (b :: bl) p) (c :: cs)
  = match block_view (desc_of b p) c with
    | Err w => Err w
    | Ok v => match blocks_view (descs_of bl (p + b_declared b)) cs with Err w => Err w | Ok r => Ok (v ++ r)%list end
    end.
Proof. reflexivity. Qed.

Lemma block_view_nd : forall b p v, (b_n1 b, b_n2 b) = n_nd ->
  block_view (desc_of b p) (Format.CDnd v) = Ok (view_nd v).
Proof. intros b p v H. inversion H as [[H1 H2]]. unfold block_view. cbn [desc_of d_n1 d_n2]. rewrite H1, H2. reflexivity. Qed.
Lemma block_view_pix : forall b p nr np vals, (b_n1 b, b_n2 b) = n_pwrap ->
  block_view (desc_of b p) (Format.CPix nr np vals) = Ok (view_pix nr np vals).
Proof. intros b p nr np vals H. inversion H as [[H1 H2]]. unfold block_view. cbn [desc_of d_n1 d_n2]. rewrite H1, H2. reflexivity. Qed.

Lemma dnd_expected_env : forall m ev,
  dnd_expected m {| env_full := []; env_path := env_path ev; env_name := env_name ev; env_date_main := [];
                    env_date_dnd := env_date_dnd ev |} = dnd_expected m ev.
Proof. intros m []; reflexivity. Qed.

Lemma blocks_spec_mk : forall e ev b chunk title cs,
  blocks_spec e ev b chunk title cs
  = map (mkblk e) (prepared_list ev title cs)
    ++ match last_dnd cs with
       | Some m => [{| b_type := s_dnd_block; b_n1 := fst n_nd; b_n2 := snd n_nd;
                       b_declared := dnd_declared_size (ax_nbins (dm_axes m));
                       b_bytes := dnd_write e (ax_nbins (dm_axes m)) |}]
       | None => [] end
    ++ match last_pix cs with
       | Some (p, _, _) => [{| b_type := s_pix_block; b_n1 := fst n_pwrap; b_n2 := snd n_pwrap;
                               b_declared := pix_declared_size p; b_bytes := pix_write e b chunk p |}]
       | None => [] end.
Proof. reflexivity. Qed.

Theorem view_of_written_blocks : forall e ev title cs chunk p0,
  content_ok cs ->
  blocks_view (descs_of (blocks_spec e ev BoundNPixels chunk title cs) p0) (contents_spec ev title cs)
  = Ok (expected_view ev title cs).
Proof.
  intros e ev title cs chunk p0 (Hnf & Hpix & Hdnd).
  rewrite blocks_spec_mk. unfold contents_spec, prepared_list, expected_view.
  cbn [canonical_order all_keys flat_map pspec].
  fold (nfiles_of cs).
  destruct (has_det cs);
  destruct (last_dnd cs) as [[a pr]|];
  destruct (last_inst cs) as [[iname isn ist ifr]|];
  destruct (last_samp cs) as [[sname sal san]|];
  destruct (last_pix cs) as [[[p xs] nd]|];
  cbn [app map];
  repeat (rewrite blocks_view_cons;
          first [rewrite block_view_k; cbn [block_view_key]
                | rewrite block_view_nd by reflexivity; rewrite (view_nd_ok {| dm_axes := a; dm_proj := pr |})
                | rewrite block_view_pix by reflexivity; rewrite view_pix_ok ]);
  cbn [snd fst];
  rewrite ?view_main_ok, ?view_det_ok, ?view_samp_ok, ?view_inst_ok by assumption;
  try (destruct Hdnd as [? ?]; cbn [dm_axes] in *; rewrite (view_dnd_ok a pr) by assumption;
       rewrite dnd_expected_env);
  try (destruct Hpix as (? & ? & ?); rewrite (view_exp_ok xs), view_pixmeta_ok by assumption);
  cbn [wrap_key blocks_view descs_of];
  f_equal; cbn [app in_name in_src_name in_src_target in_src_freq sa_name sa_alatt sa_angdeg];
  repeat rewrite <- app_assoc; cbn [app]; rewrite ?app_nil_r;
  reflexivity.
Qed.

(* C13 main theorem: decode (independent decoder + documented content view) of the written file = what was supplied *)
Theorem decoded_content_is_supplied : forall e ev title cs chunk,
  1 <= chunk -> ndims_of cs < two32 ->
  ir_ok ev title cs -> pix_ok cs -> dnd_ok cs ->
  fits (blocks_spec e ev BoundNPixels chunk title cs) ->
  content_ok cs ->
  exists fv,
    check_file (encode_file canonical_order e ev BoundNPixels title cs chunk) = Ok fv
    /\ view_of_file fv = Ok (expected_view ev title cs).
Proof.
  intros. eexists. split.
  - apply written_file_checks; auto.
  - unfold view_of_file. cbn [fv_descs fv_blocks]. apply view_of_written_blocks; auto.
Qed.

Example content_ok_example : content_ok (demo_calls 20).
Proof.
  unfold content_ok. split; [vm_compute; reflexivity|]. split; [|exact I].
  cbn. split; [discriminate|]. split; [vm_compute; reflexivity|].
  repeat constructor; vm_compute; reflexivity.
Qed.

Example decoded_content_example :
  match check_file (encode_file canonical_order LE demo_env BoundNPixels (bs "t") (demo_calls 3) 2) with
  | Ok fv => view_of_file fv = Ok (expected_view demo_env (bs "t") (demo_calls 3))
  | Err _ => False
  end.
Proof. vm_compute. reflexivity. Qed.
