(* SQW/Model.v — hand-written executable model of the SQW WRITER
   (/repo/src/scippneutron/io/sqw/_build.py, _models.py, _ir.py, _read_write.py,
   _low_level_io.py).  Definitions only; the theorems are in Proofs*.v and the
   model is tied to the code (a) by running it on the inputs of the real writer
   and comparing the bytes inside Coq on every run (props/C12.py, C13.py) and
   (b) for the canonical block order, the pixel row tables and the loop bound of
   _PixWrap.write by definitions regenerated from the source on every run
   (coq-run/C12/Tie.v).

   Floating-point payloads are bit patterns; unit conversion is NOT modelled:
   the model receives the values already converted to the documented unit. *)
From Coq Require Import NArith ZArith String List Bool.
From Verif.SQW Require Import Bytes Format.
Import ListNotations.
Local Open Scope N_scope.

(* ------------------------------------------------------------------ IR -> bytes  (_read_write.py) *)
Definition enc_shape (e : endian) (sh : list N) : bytes :=
  N.of_nat (length sh) :: flat_map (u32 e) sh.

Fixpoint encode_obj (e : endian) (o : obj) : bytes :=
  match o with
  | OChar sh d => 1 :: enc_shape e sh ++ d
  | OF64 sh d => 3 :: enc_shape e sh ++ flat_map (f64 e) d
  | OLogical sh d => 0 :: enc_shape e sh ++ d
  | OCell sh items => 23 :: enc_shape e sh ++ flat_map (encode_obj e) items
  | OStruct sh names vals =>
      24 :: enc_shape e sh ++ u32 e (N.of_nat (length names))
         ++ flat_map (fun n => u32 e (len n)) names ++ concat names ++ encode_obj e vals
  | OStruct0 sh => 24 :: enc_shape e sh
  | OSer o' => 32 :: encode_obj e o'
  end.

(* ------------------------------------------------------------------ small integers as binary64 *)
(* exact for n < 2^53: nfiles, npix, run ids, 1-based indices, versions *)
Definition f64_of_N (n : N) : N :=
  if n =? 0 then 0
  else let e := N.log2 n in (1023 + e) * 2 ^ 52 + (n - 2 ^ e) * 2 ^ (52 - e).

(* ------------------------------------------------------------------ binary64 -> binary32, round to nearest even *)
Definition p63 : N := 9223372036854775808.       (* 2^63 *)
Definition p52 : N := 4503599627370496.          (* 2^52 *)
Definition p31 : N := 2147483648.                (* 2^31 *)
Definition f64_to_f32 (p : N) : N :=
  let sbit := if N.testbit p 63 then p31 else 0 in
  let ex := N.land (N.shiftr p 52) 2047 in
  let m := N.land p 4503599627370495 in               (* low 52 bits *)
  if ex =? 2047 then
    (if m =? 0 then sbit + 2139095040 else sbit + 2143289344 + N.land (N.shiftr m 29) 4194303)
  else
    let M := if ex =? 0 then m else p52 + m in
    if M =? 0 then sbit
    else
      let E := (Z.of_N (N.max ex 1) - 1075)%Z in          (* value = M * 2^E *)
      let b := Z.of_N (N.log2 M) in
      let e32 := (b + E + 127)%Z in                        (* biased binary32 exponent if normal *)
      let shift := Z.max (b - 23) (-149 - E) in
      let Mz := Z.of_N M in
      let q := if (shift <=? 0)%Z then Z.shiftl Mz (- shift)
               else
                 let q0 := Z.shiftr Mz shift in
                 let rem := (Mz - Z.shiftl q0 shift)%Z in
                 let half := Z.shiftl 1 (shift - 1) in
                 if (half <? rem)%Z then (q0 + 1)%Z
                 else if (rem =? half)%Z && Z.odd q0 then (q0 + 1)%Z else q0 in
      let bits := if (1 <=? e32)%Z then ((e32 - 1) * 8388608 + q)%Z else q in
      let bits := if (2139095040 <=? bits)%Z then 2139095040%Z else bits in
      sbit + Z.to_N bits.

(* order of finite binary64 patterns: sign-magnitude *)
Definition f64_key (p : N) : Z :=
  if N.testbit p 63 then (- Z.of_N (p - p63))%Z else Z.of_N p.

(* ------------------------------------------------------------------ fields  (_ir._serialize_field) *)
Definition f_str (s : bytes) : obj := OChar (match s with [] => [] | _ => [len s] end) s.
Definition f_f64 (v : N) : obj := OF64 [1] [v].
Definition f_int (n : N) : obj := f_f64 (f64_of_N n).
Definition f_bool (b : bool) : obj := OLogical [1] [if b then 1 else 0].
(* numpy array of shape [npshape] (C order data): the file holds the reversed shape *)
Definition f_arr (npshape : list N) (d : list N) : obj := OF64 (rev npshape) d.
Definition f_vec (d : list N) : obj := OF64 [N.of_nat (length d)] d.
Definition f_strcell (l : list bytes) : obj :=
  OCell [N.of_nat (length l)] (map (fun s => OChar [len s] s) l).

Definition fields := list (bytes * obj).

Definition mk_struct1 (fs : fields) : obj :=
  OStruct [1] (map fst fs) (OCell [N.of_nat (length fs); 1] (map snd fs)).

(* write_object_array: a single struct whose scalar 'serial_name' starts with "IX_" gets the 0x20 prefix *)
Definition starts_ix (s : bytes) : bool :=
  match s with 73 :: 88 :: 95 :: _ => true | _ => false end.
Definition s_serial_name : bytes := bs "serial_name".
Definition serial_name_of (fs : fields) : option bytes :=
  match find (fun kv => bytes_eqb (fst kv) s_serial_name) fs with
  | Some (_, OChar sh d) => match sh with [] | [_] => Some d | _ => None end
  | _ => None
  end.
Definition struct1 (fs : fields) : obj :=
  match serial_name_of fs with
  | Some s => if starts_ix s then OSer (mk_struct1 fs) else mk_struct1 fs
  | None => mk_struct1 fs
  end.

(* ObjectArray(ty=struct, shape=(n,), data=[...])  (_write_struct combines the field values) *)
Definition struct_arr (structs : list fields) : obj :=
  match structs with
  | [] => OStruct0 [0]
  | [one] => struct1 one
  | first :: _ =>
      let n := N.of_nat (length structs) in
      OStruct [n] (map fst first)
              (OCell [N.of_nat (length first); 1; n] (flat_map (map snd) structs))
  end.

Definition fld (name : string) (o : obj) : bytes * obj := (bs name, o).

(* ------------------------------------------------------------------ models -> IR  (_models.py) *)
Record main_header := { mh_full_filename : bytes; mh_title : bytes; mh_nfiles : N; mh_date : bytes }.
Definition ir_main_header (m : main_header) : obj :=
  struct1 [ fld "serial_name" (f_str (bs "main_header_cl")); fld "version" (f_int 2);
            fld "full_filename" (f_str (mh_full_filename m)); fld "title" (f_str (mh_title m));
            fld "nfiles" (f_int (mh_nfiles m)); fld "creation_date" (f_str (mh_date m));
            fld "creation_date_defined_privately" (f_bool false) ].

Record pix_meta := { pm_full_filename : bytes; pm_npix : N; pm_nrows : N; pm_range : list N (* min,max per row *) }.
Definition ir_pix_meta (m : pix_meta) : obj :=
  struct1 [ fld "serial_name" (f_str (bs "pix_metadata")); fld "version" (f_int 1);
            fld "full_filename" (f_str (pm_full_filename m)); fld "npix" (f_int (pm_npix m));
            fld "data_range" (f_arr [pm_nrows m; 2] (pm_range m)) ].

(* all floating-point members are binary64 patterns ALREADY in the documented unit (meV, rad) *)
Record experiment := {
  x_filename : bytes; x_filepath : bytes; x_run_id : N;      (* 0-based, as supplied *)
  x_efix : list N;                                           (* 1 value (scalar) or one per detector *)
  x_emode : N;                                               (* 1 direct, 2 indirect *)
  x_en_rows : N; x_en : list N;                              (* en as (x_en_rows, n_en) C order; rows = 1 for a 1-d en *)
  x_psi : N; x_u : list N; x_v : list N; x_omega : N; x_dpsi : N; x_gl : N; x_gs : N
}.
Definition exp_fields (x : experiment) : fields :=
  let n_en := if x_en_rows x =? 0 then 0 else N.of_nat (length (x_en x)) / x_en_rows x in
  [ fld "filename" (f_str (x_filename x)); fld "filepath" (f_str (x_filepath x));
    fld "run_id" (f_int (x_run_id x + 1));
    fld "efix" (f_vec (x_efix x)); fld "emode" (f_int (x_emode x));
    fld "en" (f_arr [x_en_rows x; n_en] (x_en x));
    fld "psi" (f_f64 (x_psi x)); fld "u" (f_vec (x_u x)); fld "v" (f_vec (x_v x));
    fld "omega" (f_f64 (x_omega x)); fld "dpsi" (f_f64 (x_dpsi x));
    fld "gl" (f_f64 (x_gl x)); fld "gs" (f_f64 (x_gs x));
    fld "angular_is_degree" (f_bool false) ].
Definition ir_expdata (xs : list experiment) : obj :=
  struct1 [ fld "serial_name" (f_str (bs "IX_experiment")); fld "version" (f_int 3);
            fld "array_dat" (struct_arr (map exp_fields xs)) ].

Record sample := { sa_name : bytes; sa_alatt : list N (* angstrom *); sa_angdeg : list N (* deg *) }.
Definition ir_sample (s : sample) : obj :=
  struct1 [ fld "serial_name" (f_str (bs "IX_sample")); fld "version" (f_int 3);
            fld "alatt" (f_vec (sa_alatt s)); fld "angdeg" (f_vec (sa_angdeg s));
            fld "name" (f_str (sa_name s)) ].

Record instrument := { in_name : bytes; in_src_name : bytes; in_src_target : bytes; in_src_freq : N }.
Definition ir_instrument (i : instrument) : obj :=
  struct1 [ fld "serial_name" (f_str (bs "IX_null_inst")); fld "version" (f_int 2);
            fld "source" (struct1 [ fld "serial_name" (f_str (bs "IX_source")); fld "version" (f_int 2);
                                    fld "name" (f_str (in_src_name i));
                                    fld "target_name" (f_str (in_src_target i));
                                    fld "frequency" (f_f64 (in_src_freq i)) ]);
            fld "name" (f_str (in_name i)) ].

(* UniqueRefContainer(UniqueObjContainer(objects, indices)) ; indices are 0-based as in Python *)
Definition ir_unique_ref (global_name baseclass : bytes) (objects : list obj) (indices : list N) : obj :=
  struct1 [ fld "serial_name" (f_str (bs "unique_references_container")); fld "version" (f_int 1);
            fld "stored_baseclass" (f_str baseclass); fld "global_name" (f_str global_name);
            fld "unique_objects"
              (struct1 [ fld "serial_name" (f_str (bs "unique_objects_container")); fld "version" (f_int 1);
                         fld "baseclass" (f_str baseclass);
                         fld "unique_objects" (OCell [N.of_nat (length objects)] objects);
                         fld "idx" (OF64 [N.of_nat (length indices)]
                                         (map (fun i => f64_of_N (i + 1)) indices)) ]) ].
(* _broadcast_unique_ref: ONE object, referenced by every run *)
Definition broadcast_ref (global_name baseclass : bytes) (o : obj) (n : N) : obj :=
  ir_unique_ref global_name baseclass [o] (repeat 0 (N.to_nat n)).

Record line_axes := {
  ax_title : bytes; ax_label : list bytes;
  ax_img_scales : list N; ax_img_range : list N (* (4,2) C order *);
  ax_nbins : list N (* integers *); ax_single_bin : list bool; ax_dax : list N (* 0-based *);
  ax_offset : list N; ax_changes_aspect : bool
}.
Definition axes_fields (a : line_axes) (filename filepath : bytes) : fields :=
  [ fld "serial_name" (f_str (bs "line_axes")); fld "version" (f_int 7);
    fld "filename" (f_str filename); fld "filepath" (f_str filepath);
    fld "title" (f_str (ax_title a)); fld "label" (f_strcell (ax_label a));
    fld "img_scales" (f_vec (ax_img_scales a));
    fld "img_range" (f_arr [N.of_nat (length (ax_img_range a)) / 2; 2] (ax_img_range a));
    fld "nbins_all_dims" (f_vec (map f64_of_N (ax_nbins a)));
    fld "single_bin_defines_iax"
        (OLogical [N.of_nat (length (ax_nbins a))] (map (fun b : bool => if b then 1 else 0) (ax_single_bin a)));
    fld "dax" (f_vec (map (fun d => f64_of_N (d + 1)) (ax_dax a)));
    fld "offset" (f_vec (ax_offset a));
    fld "changes_aspect_ratio" (f_bool (ax_changes_aspect a)) ].

Record line_proj := {
  pr_alatt : list N; pr_angdeg : list N; pr_offset : list N; pr_title : bytes; pr_label : list bytes;
  pr_u : list N; pr_v : list N; pr_w : list N (* [] if absent *); pr_nonorth : bool; pr_type : bytes
}.
Definition proj_fields (p : line_proj) : fields :=
  [ fld "serial_name" (f_str (bs "line_proj")); fld "version" (f_int 7);
    fld "alatt" (f_vec (pr_alatt p)); fld "angdeg" (f_vec (pr_angdeg p));
    fld "offset" (f_vec (pr_offset p)); fld "title" (f_str (pr_title p));
    fld "label" (f_strcell (pr_label p));
    fld "u" (f_vec (pr_u p)); fld "v" (f_vec (pr_v p)); fld "w" (f_vec (pr_w p));
    fld "nonorthogonal" (f_bool (pr_nonorth p)); fld "type" (f_str (pr_type p)) ].

Record dnd_meta := { dm_axes : line_axes; dm_proj : line_proj }.
Definition ir_dnd_meta (m : dnd_meta) (filename filepath date : bytes) : obj :=
  struct1 [ fld "serial_name" (f_str (bs "dnd_metadata")); fld "version" (f_int 1);
            fld "axes" (struct1 (axes_fields (dm_axes m) filename filepath));
            fld "proj" (struct1 (proj_fields (dm_proj m)));
            fld "creation_date_str" (f_str date) ].

Definition ir_detpar : obj :=
  ir_unique_ref (bs "GLOBAL_NAME_DETECTORS_CONTAINER") (bs "IX_detector_array") [] [].

(* ------------------------------------------------------------------ pixel block  (_PixWrap) *)
(* rows: n_rows lists of n_pixels binary64 patterns in the row's unit *)
Record pixwrap := { pw_rows : list (list N); pw_int : list bool (* row is an integer row (for the empty-range value) *) }.
Definition pw_nrows (p : pixwrap) : N := N.of_nat (length (pw_rows p)).
Definition pw_npix (p : pixwrap) : N := N.of_nat (length (hd [] (pw_rows p))).
Definition pix_declared_size (p : pixwrap) : N := 4 + 8 + pw_nrows p * 4 * pw_npix p.

(* pixel i = the i-th value of every row, each rounded once to binary32 *)
Fixpoint transpose_rows (n : nat) (rows : list (list N)) : list (list N) :=
  match n with
  | O => []
  | S k => map (fun r => f64_to_f32 (hd 0 r)) rows :: transpose_rows k (map (@tl N) rows)
  end.
Definition pixels_of (p : pixwrap) : list (list N) := transpose_rows (N.to_nat (pw_npix p)) (pw_rows p).
Definition enc_pixels (e : endian) (px : list (list N)) : bytes := flat_map (flat_map (f32 e)) px.

Inductive bound_kind := BoundNRows | BoundNPixels.
Definition loop_stop (b : bound_kind) (nrows npix : N) : N :=
  match b with BoundNRows => nrows | BoundNPixels => npix end.
(* len(range(0, stop, chunk)) *)
Definition n_iters (stop chunk : N) : N := (stop + chunk - 1) / chunk.

(* for offset in range(0, stop, chunk): n = min(chunk, remaining); remaining -= n; write rows[offset:offset+chunk][:n] *)
Fixpoint pix_loop (e : endian) (iters : nat) (offset chunk remaining : N) (px : list (list N)) : bytes :=
  match iters with
  | O => []
  | S k =>
      let n := N.min chunk remaining in
      enc_pixels e (firstn (N.to_nat n) (skipn (N.to_nat offset) px))
        ++ pix_loop e k (offset + chunk) chunk (remaining - n) px
  end.

Definition pix_write (e : endian) (b : bound_kind) (chunk : N) (p : pixwrap) : bytes :=
  u32 e (pw_nrows p) ++ u64 e (pw_npix p)
  ++ pix_loop e (N.to_nat (n_iters (loop_stop b (pw_nrows p) (pw_npix p)) chunk)) 0 chunk (pw_npix p) (pixels_of p).

(* per-row (min, max) of the converted values; scipp's identity elements for an empty row *)
Definition dbl_max : N := 9218868437227405311.        (* 0x7FEFFFFFFFFFFFFF *)
Definition dbl_lowest : N := 18442240474082181119.    (* 0xFFEFFFFFFFFFFFFF *)
Definition i64_max_f : N := 4890909195324358656.      (* 2^63 as binary64 *)
Definition i64_min_f : N := 14114281232179134464.     (* -2^63 as binary64 *)
(* (key, pattern) of the first smallest / largest element *)
Definition row_min (r : list N) (d : N) : N :=
  match r with
  | [] => d
  | x :: t => snd (fold_left (fun a y => let k := f64_key y in if (k <? fst a)%Z then (k, y) else a) t (f64_key x, x))
  end.
Definition row_max (r : list N) (d : N) : N :=
  match r with
  | [] => d
  | x :: t => snd (fold_left (fun a y => let k := f64_key y in if (fst a <? k)%Z then (k, y) else a) t (f64_key x, x))
  end.
Fixpoint ranges (rows : list (list N)) (ints : list bool) : list N :=
  match rows with
  | [] => []
  | r :: t =>
      let i := hd false ints in
      row_min r (if i then i64_max_f else dbl_max) :: row_max r (if i then i64_min_f else dbl_lowest)
        :: ranges t (tl ints)
  end.

(* ------------------------------------------------------------------ dnd placeholder *)
Definition dnd_declared_size (shape : list N) : N := 4 + 4 * N.of_nat (length shape) + 3 * 8 * prod_dims shape.
Definition dnd_write (e : endian) (shape : list N) : bytes :=
  u32 e (N.of_nat (length shape)) ++ flat_map (u32 e) shape
  ++ repeat 0 (N.to_nat (8 * prod_dims shape)) ++ repeat 0 (N.to_nat (8 * prod_dims shape))
  ++ repeat 0 (N.to_nat (8 * prod_dims shape)).

(* ------------------------------------------------------------------ container layout  (SqwBuilder.create) *)
Record blk := { b_type : bytes; b_n1 : bytes; b_n2 : bytes; b_declared : N; b_bytes : bytes }.

Definition chars (e : endian) (s : bytes) : bytes := u32 e (len s) ++ s.
Definition header (e : endian) (ndims : N) : bytes :=
  (u32 e 6 ++ s_horace) ++ f64 e f64_4_0 ++ u32 e 1 ++ u32 e ndims.
Definition header_len : N := 26.

Definition desc_bytes (e : endian) (b : blk) (pos : N) : bytes :=
  chars e (b_type b) ++ chars e (b_n1 b) ++ chars e (b_n2 b) ++ u64 e pos ++ u32 e (b_declared b) ++ u32 e 0.
Definition desc_len (b : blk) : N := 4 + len (b_type b) + (4 + len (b_n1 b)) + (4 + len (b_n2 b)) + 16.
Fixpoint descs_bytes (e : endian) (bl : list blk) (pos : N) : bytes :=
  match bl with
  | [] => []
  | b :: t => desc_bytes e b pos ++ descs_bytes e t (pos + b_declared b)
  end.
Definition descs_len (bl : list blk) : N := fold_right (fun b a => desc_len b + a) 0 bl.
(* the value of the BAT size field: everything after it *)
Definition bat_size (bl : list blk) : N := 4 + descs_len bl.
Definition data_start (bl : list blk) : N := header_len + 4 + bat_size bl.
Definition bat (e : endian) (bl : list blk) : bytes :=
  u32 e (bat_size bl) ++ u32 e (N.of_nat (length bl)) ++ descs_bytes e bl (data_start bl).
Definition layout (e : endian) (ndims : N) (bl : list blk) : bytes :=
  header e ndims ++ bat e bl ++ flat_map b_bytes bl.

(* ------------------------------------------------------------------ builder state *)
Definition bname := (bytes * bytes)%type.
Definition n_main : bname := (bs "", bs "main_header").
Definition n_detpar : bname := (bs "", bs "detpar").
Definition n_dmeta : bname := (bs "data", bs "metadata").
Definition n_nd : bname := (bs "data", bs "nd_data").
Definition n_inst : bname := (bs "experiment_info", bs "instruments").
Definition n_samp : bname := (bs "experiment_info", bs "samples").
Definition n_exp : bname := (bs "experiment_info", bs "expdata").
Definition n_pmeta : bname := (bs "pix", bs "metadata").
Definition n_pwrap : bname := (bs "pix", bs "data_wrap").
(* the nine block names the builder knows, as an enumeration (key_name gives the strings) *)
Inductive bkey := KMain | KDet | KDmeta | KNd | KInst | KSamp | KExp | KPmeta | KPwrap.
Definition bkey_eqb (a b : bkey) : bool :=
  match a, b with
  | KMain, KMain | KDet, KDet | KDmeta, KDmeta | KNd, KNd | KInst, KInst | KSamp, KSamp
  | KExp, KExp | KPmeta, KPmeta | KPwrap, KPwrap => true
  | _, _ => false
  end.
Definition key_name (k : bkey) : bname :=
  match k with
  | KMain => n_main | KDet => n_detpar | KDmeta => n_dmeta | KNd => n_nd | KInst => n_inst
  | KSamp => n_samp | KExp => n_exp | KPmeta => n_pmeta | KPwrap => n_pwrap
  end.
Definition all_keys : list bkey := [KMain; KDet; KDmeta; KNd; KInst; KSamp; KExp; KPmeta; KPwrap].
Definition key_of_name (n : bname) : option bkey := find (fun k => name_eqb (key_name k) n) all_keys.
(* the tuple `order` in _to_canonical_block_order (tied to the source by coq-run/C12/Tie.v) *)
Definition canonical_order : list bkey := all_keys.

Inductive rblock :=
| RMain
| RExp (xs : list experiment)
| RPixMeta (p : pixwrap)
| RDet
| RDndMeta (m : dnd_meta).

(* Python dict with insertion order *)
Fixpoint dict_set {V} (d : list (bkey * V)) (k : bkey) (v : V) : list (bkey * V) :=
  match d with
  | [] => [(k, v)]
  | (k', v') :: t => if bkey_eqb k' k then (k', v) :: t else (k', v') :: dict_set t k v
  end.
Fixpoint dict_get {V} (d : list (bkey * V)) (k : bkey) : option V :=
  match d with
  | [] => None
  | (k', v') :: t => if bkey_eqb k' k then Some v' else dict_get t k
  end.

Record bstate := {
  st_blocks : list (bkey * rblock);
  st_nfiles : N;                         (* main_header.nfiles *)
  st_dnd : option (list N);              (* _dnd_placeholder.shape *)
  st_pix : option pixwrap;
  st_inst : option instrument;
  st_samp : option sample;
  st_ndims : N
}.
Definition st_init : bstate :=
  {| st_blocks := [(KMain, RMain)]; st_nfiles := 0; st_dnd := None; st_pix := None;
     st_inst := None; st_samp := None; st_ndims := 0 |}.

Inductive call :=
| CPix (p : pixwrap) (xs : list experiment) (ndims : N)     (* add_pixel_data *)
| CDet                                                       (* add_empty_detector_params *)
| CDnd (m : dnd_meta)                                        (* add_empty_dnd_data *)
| CInst (i : instrument)                                     (* add_default_instrument *)
| CSamp (s : sample).                                        (* add_default_sample *)

Definition apply_call (st : bstate) (c : call) : bstate :=
  match c with
  | CPix p xs nd =>
      {| st_blocks := dict_set (dict_set (st_blocks st) KExp (RExp xs)) KPmeta (RPixMeta p);
         st_nfiles := N.of_nat (length xs); st_dnd := st_dnd st; st_pix := Some p;
         st_inst := st_inst st; st_samp := st_samp st; st_ndims := nd |}
  | CDet =>
      {| st_blocks := dict_set (st_blocks st) KDet RDet;
         st_nfiles := st_nfiles st; st_dnd := st_dnd st; st_pix := st_pix st;
         st_inst := st_inst st; st_samp := st_samp st; st_ndims := st_ndims st |}
  | CDnd m =>
      {| st_blocks := dict_set (st_blocks st) KDmeta (RDndMeta m);
         st_nfiles := st_nfiles st; st_dnd := Some (ax_nbins (dm_axes m)); st_pix := st_pix st;
         st_inst := st_inst st; st_samp := st_samp st; st_ndims := st_ndims st |}
  | CInst i =>
      {| st_blocks := st_blocks st; st_nfiles := st_nfiles st; st_dnd := st_dnd st; st_pix := st_pix st;
         st_inst := Some i; st_samp := st_samp st; st_ndims := st_ndims st |}
  | CSamp s =>
      {| st_blocks := st_blocks st; st_nfiles := st_nfiles st; st_dnd := st_dnd st; st_pix := st_pix st;
         st_inst := st_inst st; st_samp := Some s; st_ndims := st_ndims st |}
  end.
Definition run_calls (cs : list call) : bstate := fold_left apply_call cs st_init.

(* strings that depend on the sink and on the clock *)
Record env := {
  env_full : bytes;        (* os.fspath(path) or "in_memory" *)
  env_path : bytes;        (* parent directory or "" *)
  env_name : bytes;        (* file name or "" *)
  env_date_main : bytes;   (* creation_date of the main header, isoformat, seconds *)
  env_date_dnd : bytes
}.

Definition ir_of (ev : env) (title : bytes) (st : bstate) (r : rblock) : obj :=
  match r with
  | RMain => ir_main_header {| mh_full_filename := env_full ev; mh_title := title;
                               mh_nfiles := st_nfiles st; mh_date := env_date_main ev |}
  | RExp xs => ir_expdata xs
  | RPixMeta p => ir_pix_meta {| pm_full_filename := env_full ev; pm_npix := pw_npix p;
                                 pm_nrows := pw_nrows p; pm_range := ranges (pw_rows p) (pw_int p) |}
  | RDet => ir_detpar
  | RDndMeta m => ir_dnd_meta m (env_name ev) (env_path ev) (env_date_dnd ev)
  end.

(* _prepare_data_blocks: IR of every regular block, instruments/samples appended, canonical order *)
Definition to_canonical {V} (order : list bkey) (d : list (bkey * V)) : list (bkey * V) :=
  flat_map (fun k => match dict_get d k with Some v => [(k, v)] | None => [] end) order
  ++ filter (fun kv => negb (existsb (bkey_eqb (fst kv)) order)) d.

Definition prepared (order : list bkey) (ev : env) (title : bytes) (st : bstate) : list (bkey * obj) :=
  let d0 := map (fun kv => (fst kv, ir_of ev title st (snd kv))) (st_blocks st) in
  let d1 := match st_inst st with
            | Some i => dict_set d0 KInst (broadcast_ref (bs "GLOBAL_NAME_INSTRUMENTS_CONTAINER") (bs "IX_inst")
                                                          (ir_instrument i) (st_nfiles st))
            | None => d0 end in
  let d2 := match st_samp st with
            | Some s => dict_set d1 KSamp (broadcast_ref (bs "GLOBAL_NAME_SAMPLES_CONTAINER") (bs "IX_samp")
                                                          (ir_sample s) (st_nfiles st))
            | None => d1 end in
  to_canonical order d2.

(* _serialize_data_blocks: regular blocks, then the dnd placeholder, then the pixel wrap *)
Definition file_blocks (order : list bkey) (e : endian) (ev : env) (b : bound_kind) (chunk : N)
           (title : bytes) (st : bstate) : list blk :=
  map (fun kv => let body := encode_obj e (snd kv) in
                 {| b_type := s_data_block; b_n1 := fst (key_name (fst kv)); b_n2 := snd (key_name (fst kv));
                    b_declared := len body; b_bytes := body |}) (prepared order ev title st)
  ++ match st_dnd st with
     | Some sh => [{| b_type := s_dnd_block; b_n1 := fst n_nd; b_n2 := snd n_nd;
                      b_declared := dnd_declared_size sh; b_bytes := dnd_write e sh |}]
     | None => [] end
  ++ match st_pix st with
     | Some p => [{| b_type := s_pix_block; b_n1 := fst n_pwrap; b_n2 := snd n_pwrap;
                     b_declared := pix_declared_size p; b_bytes := pix_write e b chunk p |}]
     | None => [] end.

Definition encode_file (order : list bkey) (e : endian) (ev : env) (b : bound_kind) (title : bytes)
           (cs : list call) (chunk : N) : bytes :=
  let st := run_calls cs in
  layout e (st_ndims st) (file_blocks order e ev b chunk title st).
