(* SQW/ProofsPix.v — the pixel block and the dnd placeholder.

   * for every byte order, pixel count and chunk size >= 1, a chunk loop that runs
     `range(0, STOP, chunk)` writes exactly the first min(N, chunk*ceil(STOP/chunk)) pixels
     ([pix_loop_prefix], induction over the loop);
   * with STOP = n_pixels that is every pixel: the block is 12 + 4*n_rows*N bytes long, equals
     the declared size and decodes completely ([pix_write_full], [pix_write_length], [decode_pix_write]);
   * with STOP = n_rows (the expression in the source tree the checks were developed against) it is
     NOT, e.g. 20 pixels / chunk 1 ([pix_bytes_truncated_refuted], [pix_rows_bound_written]);
   * the dnd placeholder has its declared size and decodes to a zero histogram of the declared shape. *)
From Coq Require Import NArith ZArith List Lia ZifyBool Bool Arith.
From Verif.SQW Require Import Bytes Format Model.
Import ListNotations.
Local Open Scope N_scope.

(* ------------------------------------------------------------------ list facts *)
Lemma firstn_add_skipn : forall A (a b : nat) (L : list A),
  firstn a L ++ firstn b (skipn a L) = firstn (a + b) L.
Proof.
  induction a; intros b L; cbn [firstn skipn Nat.add app]; auto.
  destruct L; cbn [firstn skipn app].
  - rewrite firstn_nil. reflexivity.
  - rewrite IHa. reflexivity.
Qed.

Lemma skipn_add : forall A (a b : nat) (L : list A), skipn (a + b) L = skipn b (skipn a L).
Proof.
  induction a; intros b L; cbn [skipn Nat.add]; auto.
  destruct L; cbn [skipn]; auto. rewrite skipn_nil. reflexivity.
Qed.

Lemma enc_pixels_app : forall e a b, enc_pixels e (a ++ b) = enc_pixels e a ++ enc_pixels e b.
Proof. intros; unfold enc_pixels; apply flat_map_app. Qed.

(* ------------------------------------------------------------------ the chunk loop *)
Lemma pix_loop_gen : forall e chunk (px : list (list N)) n, n = N.of_nat (length px) -> forall iters off,
  pix_loop e iters off chunk (n - off) px
  = enc_pixels e (firstn (N.to_nat (N.min (n - off) (N.of_nat iters * chunk))) (skipn (N.to_nat off) px)).
Proof.
  intros e chunk px n Hn. induction iters; intros off; cbn [pix_loop].
  - replace (N.to_nat (N.min (n - off) (N.of_nat 0 * chunk))) with 0%nat by lia. reflexivity.
  - set (r := n - off). set (m := N.min chunk r).
    replace (r - m) with (n - (off + chunk)) by lia.
    rewrite (IHiters (off + chunk)).
    set (L := skipn (N.to_nat off) px).
    assert (HL : length L = N.to_nat r).
    { unfold L. rewrite skipn_length. unfold r. lia. }
    replace (skipn (N.to_nat (off + chunk)) px) with (skipn (N.to_nat m) L).
    2:{ unfold L. replace (N.to_nat (off + chunk)) with (N.to_nat off + N.to_nat chunk)%nat by lia.
        rewrite skipn_add. fold L.
        destruct (N.le_gt_cases chunk r) as [Hc|Hc].
        - replace m with chunk by lia. reflexivity.
        - rewrite (skipn_all2 L) by lia. rewrite (skipn_all2 L) by lia. reflexivity. }
    rewrite <- enc_pixels_app, firstn_add_skipn. f_equal. f_equal. lia.
Qed.

(* what `for offset in range(0, stop, chunk)` writes *)
Theorem pix_loop_prefix : forall e chunk stop (px : list (list N)) n, n = N.of_nat (length px) ->
  pix_loop e (N.to_nat (n_iters stop chunk)) 0 chunk n px
  = enc_pixels e (firstn (N.to_nat (N.min n (n_iters stop chunk * chunk))) px).
Proof.
  intros e chunk stop px n Hn.
  pose proof (pix_loop_gen e chunk px n Hn (N.to_nat (n_iters stop chunk)) 0) as H.
  rewrite N.sub_0_r in H. rewrite H.
  rewrite N2Nat.id. reflexivity.
Qed.

Lemma n_iters_covers : forall n chunk, 1 <= chunk -> n <= n_iters n chunk * chunk.
Proof.
  intros n chunk Hc. unfold n_iters.
  pose proof (N.div_mod' (n + chunk - 1) chunk) as D.
  pose proof (N.mod_lt (n + chunk - 1) chunk) as M.
  nia.
Qed.

Theorem pix_loop_all : forall e chunk (px : list (list N)) n, 1 <= chunk -> n = N.of_nat (length px) ->
  pix_loop e (N.to_nat (n_iters n chunk)) 0 chunk n px = enc_pixels e px.
Proof.
  intros e chunk px n Hc Hn. rewrite pix_loop_prefix by auto.
  pose proof (n_iters_covers n chunk Hc).
  replace (N.min n (n_iters n chunk * chunk)) with n by lia.
  subst n. rewrite Nat2N.id, firstn_all. reflexivity.
Qed.

(* ------------------------------------------------------------------ pixels_of *)
Lemma transpose_rows_length : forall n rows, length (transpose_rows n rows) = n.
Proof. induction n; intros; cbn [transpose_rows length]; auto. Qed.

Lemma transpose_rows_widths : forall n rows,
  Forall (fun px => length px = length rows) (transpose_rows n rows).
Proof.
  induction n; intros rows; cbn [transpose_rows]; constructor.
  - rewrite map_length. reflexivity.
  - specialize (IHn (map (@tl N) rows)). rewrite map_length in IHn. exact IHn.
Qed.

Lemma pixels_of_length : forall p, N.of_nat (length (pixels_of p)) = pw_npix p.
Proof. intros; unfold pixels_of; rewrite transpose_rows_length, N2Nat.id; reflexivity. Qed.

Lemma enc_pixels_concat : forall e px, enc_pixels e px = flat_map (enc e 4) (concat px).
Proof.
  induction px; cbn [enc_pixels flat_map concat]; auto.
  rewrite flat_map_app. unfold enc_pixels in IHpx. rewrite IHpx. reflexivity.
Qed.

Lemma concat_length_uniform : forall (px : list (list N)) w,
  Forall (fun q => length q = w) px -> length (concat px) = (w * length px)%nat.
Proof.
  induction 1; cbn [concat length]; [lia|]. rewrite app_length, IHForall, H. lia.
Qed.

Lemma len_enc_pixels : forall e px w, Forall (fun q => length q = w) px ->
  len (enc_pixels e px) = 4 * N.of_nat w * N.of_nat (length px).
Proof.
  intros. rewrite enc_pixels_concat, len_flat_enc, (concat_length_uniform px w); auto. lia.
Qed.

(* ------------------------------------------------------------------ the block, with the loop over n_pixels *)
Theorem pix_write_full : forall e chunk p, 1 <= chunk ->
  pix_write e BoundNPixels chunk p = u32 e (pw_nrows p) ++ u64 e (pw_npix p) ++ enc_pixels e (pixels_of p).
Proof.
  intros e chunk p Hc. unfold pix_write. cbn [loop_stop].
  rewrite (pix_loop_all e chunk (pixels_of p) (pw_npix p)); auto.
  symmetry; apply pixels_of_length.
Qed.

Theorem pix_write_length : forall e chunk p, 1 <= chunk ->
  len (pix_write e BoundNPixels chunk p) = pix_declared_size p.
Proof.
  intros e chunk p Hc. rewrite pix_write_full by auto.
  rewrite !len_app. unfold u32, u64. rewrite !len_enc.
  rewrite (len_enc_pixels e (pixels_of p) (length (pw_rows p))).
  - unfold pix_declared_size. rewrite pixels_of_length. unfold pw_nrows. lia.
  - apply transpose_rows_widths.
Qed.

(* 9 rows: 12 + 36 * N *)
Corollary pix_write_length_9 : forall e chunk p, 1 <= chunk -> pw_nrows p = 9 ->
  len (pix_write e BoundNPixels chunk p) = 12 + 36 * pw_npix p.
Proof. intros. rewrite pix_write_length by auto. unfold pix_declared_size. rewrite H0. lia. Qed.

Theorem decode_pix_write : forall e chunk p, 1 <= chunk ->
  pw_nrows p < two32 -> pw_npix p < two64 ->
  Forall (fun v => v < two32) (concat (pixels_of p)) ->
  decode_pix e (pix_write e BoundNPixels chunk p) = Some ((pw_nrows p, pw_npix p, concat (pixels_of p)), []).
Proof.
  intros e chunk p Hc Hr Hn Hv. rewrite pix_write_full by auto. unfold decode_pix.
  unfold u32 at 1. rewrite p_uint_enc by (rewrite pow256_4; auto).
  unfold u64. rewrite p_uint_enc by (rewrite pow256_8; auto).
  rewrite enc_pixels_concat. rewrite <- (app_nil_r (flat_map (enc e 4) (concat (pixels_of p)))).
  rewrite p_count_uints; auto; try lia.
  rewrite (concat_length_uniform (pixels_of p) (length (pw_rows p))) by apply transpose_rows_widths.
  pose proof (pixels_of_length p). unfold pw_nrows. lia.
Qed.

(* ------------------------------------------------------------------ the loop over n_rows truncates *)
Theorem pix_rows_bound_written : forall e chunk p,
  pix_write e BoundNRows chunk p
  = u32 e (pw_nrows p) ++ u64 e (pw_npix p)
    ++ enc_pixels e (firstn (N.to_nat (N.min (pw_npix p) (n_iters (pw_nrows p) chunk * chunk))) (pixels_of p)).
Proof.
  intros. unfold pix_write. cbn [loop_stop].
  rewrite (pix_loop_prefix e chunk (pw_nrows p) (pixels_of p) (pw_npix p)); auto.
  symmetry; apply pixels_of_length.
Qed.

Definition demo_pix (n : nat) : pixwrap :=
  {| pw_rows := repeat (repeat 0 n) 9; pw_int := repeat false 9 |}.

(* 20 pixels, chunk size 1: 9 pixels written, 336 bytes instead of the declared 732 *)
Theorem pix_bytes_truncated_refuted :
  exists p chunk, 1 <= chunk /\ pw_nrows p = 9 /\
    len (pix_write LE BoundNRows chunk p) <> pix_declared_size p.
Proof. exists (demo_pix 20), 1. vm_compute. repeat split; discriminate. Qed.

Example pix_truncated_sizes :
  len (pix_write LE BoundNRows 1 (demo_pix 20)) = 336 /\ pix_declared_size (demo_pix 20) = 732
  /\ len (pix_write LE BoundNPixels 1 (demo_pix 20)) = 732
  /\ len (pix_write BE BoundNRows 2 (demo_pix 7)) = 12 + 36 * 7.      (* the case the upstream test happens to use *)
Proof. vm_compute. auto. Qed.

Example pix_full_example :
  decode_pix BE (pix_write BE BoundNPixels 3 (demo_pix 7)) = Some ((9, 7, repeat 0 63), []).
Proof. vm_compute. reflexivity. Qed.

(* ------------------------------------------------------------------ dnd placeholder *)
Lemma enc_zero : forall e k, enc e k 0 = repeat 0 k.
Proof.
  assert (H : forall k, le_bytes k 0 = repeat 0 k).
  { induction k; cbn [le_bytes repeat]; auto. rewrite N.land_0_l, N.shiftr_0_l, IHk. reflexivity. }
  intros [] k; unfold enc; rewrite H; auto.
  induction k; cbn [repeat rev]; auto. rewrite IHk.
  clear. induction k; cbn [repeat app]; auto. rewrite IHk. reflexivity.
Qed.

Lemma zeros_as_u64 : forall e k, repeat 0 (8 * k)%nat = flat_map (enc e 8) (repeat 0 k).
Proof.
  induction k; cbn [repeat flat_map]; auto.
  replace (8 * S k)%nat with (8 + 8 * k)%nat by lia. rewrite repeat_app, IHk, enc_zero. reflexivity.
Qed.

Theorem dnd_write_length : forall e sh, len (dnd_write e sh) = dnd_declared_size sh.
Proof.
  intros. unfold dnd_write, dnd_declared_size. rewrite !len_app. unfold u32. rewrite len_enc, len_flat_enc.
  unfold len. rewrite !repeat_length. lia.
Qed.

Theorem decode_dnd_write : forall e sh,
  N.of_nat (length sh) < two32 -> Forall (fun d => d < two32) sh ->
  let z := repeat 0 (N.to_nat (prod_dims sh)) in
  decode_dnd e (dnd_write e sh) = Some ({| dv_shape := sh; dv_signal := z; dv_error := z; dv_npix := z |}, []).
Proof.
  intros e sh Hn Hd z. unfold dnd_write, decode_dnd.
  unfold u32 at 1. rewrite p_uint_enc by (rewrite pow256_4; auto).
  unfold u32. rewrite p_count_uints; auto; try lia.
  replace (N.to_nat (8 * prod_dims sh)) with (8 * N.to_nat (prod_dims sh))%nat by lia.
  rewrite (zeros_as_u64 e). fold z.
  assert (Hz : Forall (fun x => x < 256 ^ N.of_nat 8) z).
  { unfold z. apply Forall_forall. intros x Hx. apply repeat_spec in Hx. subst. reflexivity. }
  assert (Hl : prod_dims sh = N.of_nat (length z)) by (unfold z; rewrite repeat_length; lia).
  rewrite p_count_uints; auto; try lia.
  rewrite p_count_uints; auto; try lia.
  rewrite <- (app_nil_r (flat_map (enc e 8) z)).
  rewrite p_count_uints; auto; try lia.
Qed.

Example dnd_example : decode_dnd LE (dnd_write LE [2; 1; 3]) =
  Some ({| dv_shape := [2; 1; 3]; dv_signal := repeat 0 6; dv_error := repeat 0 6; dv_npix := repeat 0 6 |}, [])
  /\ dnd_declared_size [2; 1; 3] = 160.
Proof. vm_compute. auto. Qed.

(* ------------------------------------------------------------------ binary32 patterns fit 32 bits *)
Lemma f64_to_f32_lt : forall p, f64_to_f32 p < two32.
Proof.
  intros p. unfold f64_to_f32.
  set (sbit := if N.testbit p 63 then p31 else 0).
  assert (Hsb : sbit <= 2147483648) by (unfold sbit, p31; destruct (N.testbit p 63); lia).
  destruct (N.land (N.shiftr p 52) 2047 =? 2047).
  - destruct (N.land p 4503599627370495 =? 0).
    + unfold two32; lia.
    + assert (M : N.land (N.shiftr (N.land p 4503599627370495) 29) 4194303 < 4194304).
      { change 4194303 with (N.ones 22). rewrite N.land_ones. apply N.mod_lt. discriminate. }
      unfold two32. lia.
  - match goal with |- context [if ?c then _ else _] => destruct c end; [unfold two32; lia|].
    match goal with |- _ + Z.to_N (if ?c then _ else ?b) < _ => destruct c eqn:E end.
    + unfold two32. change (Z.to_N 2139095040) with 2139095040. lia.
    + apply Z.leb_gt in E.
      match type of E with (?b < _)%Z => set (bits := b) in * end.
      assert (Z.to_N bits < 2139095040) by lia. unfold two32. lia.
Qed.
