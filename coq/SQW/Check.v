(* SQW/Check.v — the comparisons the correspondence runs execute INSIDE Coq
   (vm_compute) for C12 and C13: how the harness' observations are written down,
   the unit table used to check conversions in exact rational arithmetic, what
   the supplied builder calls are expected to look like in the file
   ([expected_view]), and the two per-case checkers.  Definitions only. *)
From Coq Require Import NArith ZArith QArith Qabs String List Bool Uint63.
From Verif.SQW Require Import Bytes Format Model Content.
Import ListNotations.
Local Open Scope N_scope.

(* ------------------------------------------------------------------ transport: 7 bytes per primitive int *)
Definition byte_of_int (x : int) : N := Z.to_N (Uint63.to_Z x).
Definition word_bytes (w : int) : bytes :=
  [byte_of_int ((w >> 48) land 255); byte_of_int ((w >> 40) land 255); byte_of_int ((w >> 32) land 255);
   byte_of_int ((w >> 24) land 255); byte_of_int ((w >> 16) land 255); byte_of_int ((w >> 8) land 255);
   byte_of_int (w land 255)]%uint63.
Definition unblob (n : N) (ws : list (list int)) : bytes :=
  firstn (N.to_nat n) (flat_map word_bytes (concat ws)).
(* big-endian groups of k bytes *)
Fixpoint be_val (acc : N) (l : bytes) : N := match l with [] => acc | b :: r => be_val (256 * acc + b) r end.
Fixpoint groups (fuel : nat) (k : nat) (l : bytes) : list N :=
  match fuel with
  | O => []
  | S f => match l with [] => [] | _ => be_val 0 (firstn k l) :: groups f k (skipn k l) end
  end.
Definition f64s (b : bytes) : list N := groups (S (length b)) 8 b.
Definition u32s (b : bytes) : list N := groups (S (length b)) 4 b.

Fixpoint list_eqb (a b : list N) : bool :=
  match a, b with
  | [], [] => true
  | x :: a', y :: b' => (x =? y) && list_eqb a' b'
  | _, _ => false
  end.
Fixpoint first_diff (i : N) (a b : list N) : N :=
  match a, b with
  | x :: a', y :: b' => if x =? y then first_diff (i + 1) a' b' else i
  | _, _ => i
  end.

(* ------------------------------------------------------------------ units: (multiplier, dimension) *)
Local Open Scope string_scope.
Local Open Scope N_scope.
Local Open Scope Q_scope.
Definition pi_q : Q := 3141592653589793238462643383279 # 1000000000000000000000000000000.
(* dimension vector: length, energy, count, angle ; a 5th entry marks non-physical tags *)
Definition unit_info (u : string) : option (Q * list Z) :=
  let L := fun (s : Q) (p : Z) => Some (s, [p; 0; 0; 0; 0]%Z) in
  let E := fun (s : Q) => Some (s, [0; 1; 0; 0; 0]%Z) in
  let C := fun (s : Q) (p : Z) => Some (s, [0; 0; p; 0; 0]%Z) in
  let A := fun (s : Q) => Some (s, [0; 0; 0; 1; 0]%Z) in
  if String.eqb u "none" then Some (1%Q, [0; 0; 0; 0; 0]%Z)
  else if String.eqb u "dimensionless" then Some (1%Q, [0; 0; 0; 0; 0]%Z)
  else if String.eqb u "ints" then Some (1%Q, [0; 0; 0; 0; 1]%Z)
  else if String.eqb u "shape" then Some (1%Q, [0; 0; 0; 0; 2]%Z)
  else if String.eqb u "1/angstrom" then L (10000000000 # 1) (-1)%Z
  else if String.eqb u "1/nm" then L (1000000000 # 1) (-1)%Z
  else if String.eqb u "1/um" then L (1000000 # 1) (-1)%Z
  else if String.eqb u "1/pm" then L (1000000000000 # 1) (-1)%Z
  else if String.eqb u "1/m" then L 1 (-1)%Z
  else if String.eqb u "angstrom" then L (1 # 10000000000) 1%Z
  else if String.eqb u "nm" then L (1 # 1000000000) 1%Z
  else if String.eqb u "pm" then L (1 # 1000000000000) 1%Z
  else if String.eqb u "um" then L (1 # 1000000) 1%Z
  else if String.eqb u "m" then L 1 1%Z
  else if String.eqb u "meV" then E (1 # 1000)
  else if String.eqb u "eV" then E 1
  else if String.eqb u "ueV" then E (1 # 1000000)
  else if String.eqb u "keV" then E (1000 # 1)
  else if String.eqb u "count" then C 1 1%Z
  else if String.eqb u "counts" then C 1 1%Z
  else if String.eqb u "kcount" then C (1000 # 1) 1%Z
  else if String.eqb u "Mcount" then C (1000000 # 1) 1%Z
  else if String.eqb u "count**2" then C 1 2%Z
  else if String.eqb u "counts^2" then C 1 2%Z
  else if String.eqb u "kcount**2" then C (1000000 # 1) 2%Z
  else if String.eqb u "Mcount**2" then C (1000000000000 # 1) 2%Z
  else if String.eqb u "rad" then A 1
  else if String.eqb u "mrad" then A (1 # 1000)
  else if String.eqb u "deg" then A (pi_q / (180 # 1))
  else None.

Local Close Scope Q_scope.
Fixpoint dims_eqb (a b : list Z) : bool :=
  match a, b with
  | [], [] => true
  | x :: a', y :: b' => Z.eqb x y && dims_eqb a' b'
  | _, _ => false
  end.

(* exact value of a finite binary64 pattern *)
Definition q_of_f64 (p : N) : Q :=
  let sign := if N.testbit p 63 then 1%N else 0%N in
  let ex := N.land (N.shiftr p 52) 2047 in
  let m := N.land p 4503599627370495 in
  let M := Z.of_N (if ex =? 0 then m else p52 + m)%N in
  let E := (Z.of_N (N.max ex 1) - 1075)%Z in
  let a := if (0 <=? E)%Z then Qmake (Z.shiftl M E) 1 else Qmake M (Z.to_pos (Z.shiftl 1 (- E))) in
  if (sign =? 0)%N then a else Qopp a.
Definition is_finite64 (p : N) : bool := negb ((N.land (N.shiftr p 52) 2047 =? 2047)%N).

Definition q_close (a b tol : Q) : bool := Qle_bool (Qabs (a - b)%Q) (tol * Qabs b)%Q.
Fixpoint vals_close (su : Q) (x : list N) (sv : Q) (y : list N) (tol : Q) : bool :=
  match x, y with
  | [], [] => true
  | a :: x', b :: y' =>
      is_finite64 a && is_finite64 b
      && q_close (Qred (q_of_f64 a * su)%Q) (Qred (q_of_f64 b * sv)%Q) tol && vals_close su x' sv y' tol
  | _, _ => false
  end.

(* one conversion done by the harness' oracle: supplied (unit, values) -> documented unit, values *)
Record qty := { q_what : string; q_unit : string; q_vals : list N; q_target : string; q_conv : list N }.
Definition conv_tol : Q := Qmake 1 1000000000000000.
Definition conv_ok (q : qty) : string :=
  match unit_info (q_unit q), unit_info (q_target q) with
  | Some (su, du), Some (st, dt) =>
      if negb (dims_eqb du dt) then "oracle-dimension:" ++ q_what q
      else if vals_close st (q_conv q) su (q_vals q) conv_tol then "" else "conversion:" ++ q_what q
  | _, _ => "oracle-unknown-unit:" ++ q_what q
  end.

(* ------------------------------------------------------------------ comparing observations *)
Definition cmp_obs (who path : string) (e a : robs) : string :=
  match e, a with
  | RStr x, RStr y => if bytes_eqb x y then "" else who ++ "-string:" ++ path
  | RInt x, RInt y => if (x =? y)%N then "" else who ++ "-int:" ++ path
  | RU32 x, RU32 y => if list_eqb x y then "" else who ++ "-f32:" ++ path
  | RNum u x, RNum v y =>
      if String.eqb u v then (if list_eqb x y then "" else who ++ "-value:" ++ path)
      else match unit_info u, unit_info v with
           | Some (su, du), Some (sv, dv) =>
               if negb (dims_eqb du dv) then who ++ "-unit-dimension:" ++ path
               else if vals_close sv y su x (Qmake 1 100000000000000) then "" else who ++ "-value:" ++ path
           | _, _ => who ++ "-unknown-unit:" ++ path
           end
  | _, _ => who ++ "-kind:" ++ path
  end.

Fixpoint vlookup (path : string) (v : view) : option robs :=
  match v with
  | [] => None
  | (p, o) :: t => if String.eqb p path then Some o else vlookup path t
  end.

(* every entry of [want] must be present in [got] and agree *)
Fixpoint cmp_views (who : string) (want got : view) : list string :=
  match want with
  | [] => []
  | (p, o) :: t =>
      match vlookup p got with
      | None => (who ++ "-missing:" ++ p) :: cmp_views who t got
      | Some a => let r := cmp_obs who p o a in
                  if String.eqb r "" then cmp_views who t got else r :: cmp_views who t got
      end
  end.
(* every entry of [got] that [want] knows must agree (the reader reports a subset) *)
Fixpoint cmp_known (who : string) (got want : view) : list string :=
  match got with
  | [] => []
  | (p, a) :: t =>
      match vlookup p want with
      | None => (who ++ "-unexpected:" ++ p) :: cmp_known who t want
      | Some o => let r := cmp_obs who p o a in
                  if String.eqb r "" then cmp_known who t want else r :: cmp_known who t want
      end
  end.

(* ------------------------------------------------------------------ what the supplied calls must look like *)
Fixpoint mapi {A B} (f : nat -> A -> list B) (i : nat) (l : list A) : list B :=
  match l with [] => [] | a :: t => (f i a ++ mapi f (S i) t)%list end.

Definition exp_run_view (i : nat) (x : experiment) : view :=
  let p := fun s => idx_path "exp." i s in
  let n_en := if (x_en_rows x =? 0)%N then 0%N else (N.of_nat (length (x_en x)) / x_en_rows x)%N in
  [(p ".filename", RStr (x_filename x)); (p ".filepath", RStr (x_filepath x)); (p ".run_id", RInt (x_run_id x));
   (p ".emode", RInt (x_emode x)); (p ".efix", RNum "meV" (x_efix x)); (p ".en", RNum "meV" (x_en x));
   (p ".en_shape", RNum "shape" [n_en; x_en_rows x]);
   (p ".psi", RNum "rad" [x_psi x]); (p ".omega", RNum "rad" [x_omega x]); (p ".dpsi", RNum "rad" [x_dpsi x]);
   (p ".gl", RNum "rad" [x_gl x]); (p ".gs", RNum "rad" [x_gs x]);
   (p ".u", RNum "dimensionless" (x_u x)); (p ".v", RNum "dimensionless" (x_v x))].

Fixpoint str_entries (pfx : string) (i : nat) (l : list bytes) : view :=
  match l with [] => [] | s :: t => (idx_path pfx i "", RStr s) :: str_entries pfx (S i) t end.

Definition dnd_expected (m : dnd_meta) (ev : env) : view :=
  let a := dm_axes m in
  let p := dm_proj m in
  ([("dnd.date", RStr (env_date_dnd ev)); ("dnd.ax.title", RStr (ax_title a));
    ("dnd.ax.filename", RStr (env_name ev)); ("dnd.ax.filepath", RStr (env_path ev));
    ("dnd.ax.nlabel", RInt (N.of_nat (length (ax_label a))))]
   ++ str_entries "dnd.ax.label." 0 (ax_label a)
   ++ each_num "dnd.ax.img_scales." 0 multi_units (singles (ax_img_scales a))
   ++ each_num "dnd.ax.img_range." 0 multi_units (pairs (ax_img_range a))
   ++ each_num "dnd.ax.offset." 0 multi_units (singles (ax_offset a))
   ++ [("dnd.ax.nbins", RNum "ints" (ax_nbins a));
       ("dnd.ax.single_bin", RNum "ints" (map (fun b : bool => if b then 1%N else 0%N) (ax_single_bin a)));
       ("dnd.ax.dax", RNum "ints" (ax_dax a)); ("dnd.ax.changes_aspect", RInt (if ax_changes_aspect a then 1 else 0));
       ("dnd.pr.title", RStr (pr_title p)); ("dnd.pr.nlabel", RInt (N.of_nat (length (pr_label p))))]
   ++ str_entries "dnd.pr.label." 0 (pr_label p)
   ++ [("dnd.pr.alatt", RNum "angstrom" (pr_alatt p)); ("dnd.pr.angdeg", RNum "deg" (pr_angdeg p))]
   ++ each_num "dnd.pr.offset." 0 multi_units (singles (pr_offset p))
   ++ [("dnd.pr.u", RNum "1/angstrom" (pr_u p)); ("dnd.pr.v", RNum "1/angstrom" (pr_v p));
       ("dnd.pr.has_w", RInt (match pr_w p with [] => 0 | _ => 1 end))]
   ++ (match pr_w p with [] => [] | _ => [("dnd.pr.w", RNum "1/angstrom" (pr_w p))] end)
   ++ [("dnd.pr.nonorth", RInt (if pr_nonorth p then 1 else 0)); ("dnd.pr.type", RStr (pr_type p))])%list.
Definition nd_expected (m : dnd_meta) : view :=
  [("nd.shape", RNum "shape" (ax_nbins (dm_axes m))); ("nd.shapes_equal", RInt 1); ("nd.all_zero", RInt 1);
   ("nd.volume", RInt (prod_dims (ax_nbins (dm_axes m))))].

(* the LAST call of each kind is the one that counts *)
Definition last_pix (cs : list call) := fold_left (fun a c => match c with CPix p xs nd => Some (p, xs, nd) | _ => a end) cs None.
Definition last_dnd (cs : list call) := fold_left (fun a c => match c with CDnd m => Some m | _ => a end) cs None.
Definition last_inst (cs : list call) := fold_left (fun a c => match c with CInst i => Some i | _ => a end) cs None.
Definition last_samp (cs : list call) := fold_left (fun a c => match c with CSamp s => Some s | _ => a end) cs None.
Definition has_det (cs : list call) := existsb (fun c => match c with CDet => true | _ => false end) cs.

(* in the order of the blocks in the file *)
Definition expected_view (ev : env) (title : bytes) (cs : list call) : view :=
  let nfiles := match last_pix cs with Some (_, xs, _) => N.of_nat (length xs) | None => 0%N end in
  ([("main.full_filename", RStr (env_full ev)); ("main.title", RStr title);
    ("main.nfiles", RInt nfiles); ("main.date", RStr (env_date_main ev))]
   ++ (if has_det cs then [("det.n", RInt 0); ("det.n_unique", RInt 0)] else [])
   ++ (match last_dnd cs with Some m => dnd_expected m ev | None => [] end)
   ++ (match last_inst cs with
       | Some i => [("inst.n", RInt nfiles); ("inst.shared", RInt 1); ("inst.n_unique", RInt 1);
                    ("inst.0.name", RStr (in_name i)); ("inst.0.src_name", RStr (in_src_name i));
                    ("inst.0.src_target", RStr (in_src_target i)); ("inst.0.freq", RNum "none" [in_src_freq i])]
       | None => [] end)
   ++ (match last_samp cs with
       | Some s => [("samp.n", RInt nfiles); ("samp.shared", RInt 1); ("samp.n_unique", RInt 1);
                    ("samp.0.name", RStr (sa_name s)); ("samp.0.alatt", RNum "angstrom" (sa_alatt s));
                    ("samp.0.angdeg", RNum "deg" (sa_angdeg s))]
       | None => [] end)
   ++ (match last_pix cs with
       | Some (p, xs, _) =>
           ("exp.n", RInt (N.of_nat (length xs))) :: mapi exp_run_view 0 xs
           ++ [("pixmeta.full_filename", RStr (env_full ev)); ("pixmeta.npix", RInt (pw_npix p));
               ("pixmeta.range", RNum "none" (ranges (pw_rows p) (pw_int p)));
               ("pixmeta.range_shape", RNum "shape" [2%N; pw_nrows p])]
       | None => [] end)
   ++ (match last_dnd cs with Some m => nd_expected m | None => [] end)
   ++ (match last_pix cs with
       | Some (p, _, _) => [("pix.shape", RNum "shape" [pw_npix p; pw_nrows p]); ("pix.f32", RU32 (concat (pixels_of p)))]
       | None => [] end))%list.

(* block names in the table: a function of WHICH kinds of calls were made, not of their order *)
Definition expected_names (cs : list call) : list bname :=
  let pix := match last_pix cs with Some _ => true | None => false end in
  let dnd := match last_dnd cs with Some _ => true | None => false end in
  ([n_main] ++ (if has_det cs then [n_detpar] else []) ++ (if dnd then [n_dmeta] else [])
   ++ (match last_inst cs with Some _ => [n_inst] | None => [] end)
   ++ (match last_samp cs with Some _ => [n_samp] | None => [] end)
   ++ (if pix then [n_exp; n_pmeta] else []) ++ (if dnd then [n_nd] else []) ++ (if pix then [n_pwrap] else []))%list.
Definition keys_of_names (l : list bname) : list bkey :=
  flat_map (fun n => match key_of_name n with Some k => [k] | None => [] end) l.

(* the same with the order of the regular blocks taken from a given tuple (the one regenerated from the source) *)
Definition present (cs : list call) (k : bkey) : bool :=
  match k with
  | KMain => true
  | KDet => has_det cs
  | KDmeta => match last_dnd cs with Some _ => true | None => false end
  | KInst => match last_inst cs with Some _ => true | None => false end
  | KSamp => match last_samp cs with Some _ => true | None => false end
  | KExp | KPmeta => match last_pix cs with Some _ => true | None => false end
  | KNd | KPwrap => false
  end.
Definition expected_names_ord (order : list bkey) (cs : list call) : list bname :=
  (map key_name (filter (present cs) order)
   ++ (match last_dnd cs with Some _ => [n_nd] | None => [] end)
   ++ (match last_pix cs with Some _ => [n_pwrap] | None => [] end))%list.

Definition expected_type (n : bname) : bytes :=
  if name_eqb n n_nd then s_dnd_block else if name_eqb n n_pwrap then s_pix_block else s_data_block.

Fixpoint names_eqb (a b : list bname) : bool :=
  match a, b with
  | [], [] => true
  | x :: a', y :: b' => name_eqb x y && names_eqb a' b'
  | _, _ => false
  end.

(* ------------------------------------------------------------------ cases *)
Record case := {
  c_endian : endian;                 (* the byte order asked for ("native" resolved by the harness) *)
  c_env : env;
  c_title : bytes;
  c_calls : list call;
  c_chunk : N;
  c_file : bytes;                    (* the bytes the implementation produced *)
  c_convs : list qty;
  c_dates_ok : bool;
  (* the package's reader on the produced file *)
  c_r_open : bool;                   (* Sqw.open succeeded *)
  c_r_endian : endian;
  c_r_header_ok : bool;              (* prog_name = 'horace', version 4.0, type SQW *)
  c_r_ndims : N;
  c_r_names : list bname;
  c_r_view : view;
  c_r_errors : list string           (* blocks the reader could not return *)
}.

Definition join (l : list string) : string := fold_right (fun s a => if String.eqb a "" then s else s ++ "+" ++ a) "" l.
Definition nonempty (l : list string) : list string := filter (fun s => negb (String.eqb s "")) l.
Definition dec_str (n : N) : string := nat_str (N.to_nat n).

Definition ndims_of (cs : list call) : N := match last_pix cs with Some (_, _, nd) => nd | None => 0%N end.

(* C12: structure *)
Definition check_c12 (order : list bname) (bound : bound_kind) (c : case) : string :=
  let model := encode_file (keys_of_names order) (c_endian c) (c_env c) bound (c_title c) (c_calls c) (c_chunk c) in
  let m := if list_eqb model (c_file c) then ""
           else "model-bytes@" ++ dec_str (first_diff 0 model (c_file c)) in
  let f := match check_file (c_file c) with
           | Err why => "format:" ++ why
           | Ok fv =>
               let names := map (fun d => (d_n1 d, d_n2 d)) (fv_descs fv) in
               join (nonempty [
                 (if endian_eqb (fv_endian fv) (c_endian c) then "" else "byteorder-not-recognised");
                 (if (fv_ndims fv =? ndims_of (c_calls c))%N then "" else "header-ndims");
                 (if names_eqb names (expected_names_ord (keys_of_names order) (c_calls c)) then "" else "bat-order");
                 (if forallb (fun d => bytes_eqb (d_type d) (expected_type (d_n1 d, d_n2 d))) (fv_descs fv)
                  then "" else "bat-block-type");
                 (if forallb (fun d => (d_locked d =? 0)%N) (fv_descs fv) then "" else "bat-locked")])
           end in
  let r := if negb (c_r_open c) then "reader-open-failed"
           else join (nonempty [
                 (if endian_eqb (c_r_endian c) (c_endian c) then "" else "reader-byteorder");
                 (if c_r_header_ok c then "" else "reader-file-header");
                 (if (c_r_ndims c =? ndims_of (c_calls c))%N then "" else "reader-ndims");
                 (if names_eqb (c_r_names c) (expected_names_ord (keys_of_names order) (c_calls c)) then "" else "reader-block-names")]) in
  join (nonempty [m; f; r]).

(* C13: content *)
Definition check_c13 (c : case) : string :=
  let want := expected_view (c_env c) (c_title c) (c_calls c) in
  let f := match check_file (c_file c) with
           | Err why => ["file-does-not-decode:" ++ why]
           | Ok fv => match view_of_file fv with
                      | Err why => ["file-" ++ why]
                      | Ok got => cmp_views "file" want got
                      end
           end in
  let q := nonempty (map conv_ok (c_convs c)) in
  let r := if negb (c_r_open c) then ["reader-open-failed"]
           else (map (fun b => String.append "reader-error:" b) (c_r_errors c) ++ cmp_known "reader" (c_r_view c) want)%list in
  let d := if c_dates_ok c then [] else ["creation-date-not-time-of-writing"] in
  join (firstn 6 (f ++ q ++ r ++ d)%list).

(* shard report: "OK <n>" or "F<i>:<reason>;..." *)
Fixpoint report_aux (i : nat) (rs : list string) (acc : string) (nfail : nat) : string * nat :=
  match rs with
  | [] => (acc, nfail)
  | r :: rs' =>
      if String.eqb r "" then report_aux (S i) rs' acc nfail
      else report_aux (S i) rs' (acc ++ "F" ++ nat_str i ++ ":" ++ r ++ ";") (S nfail)
  end.
Definition report (rs : list string) : string :=
  let '(s, nf) := report_aux 0 rs "" 0 in
  if Nat.eqb nf 0 then "OK " ++ nat_str (List.length rs) else s.
