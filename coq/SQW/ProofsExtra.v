(* SQW/ProofsExtra.v — boundary markers and satisfiability examples that no other file depends on. *)
From Coq Require Import NArith ZArith String List Lia ZifyBool Bool.
From Verif.SQW Require Import Bytes Format Model Content Check ProofsObj ProofsPix ProofsFile ProofsBuilder ProofsC12.
Import ListNotations.
Local Open Scope N_scope.

(* u32 size fields: 1e5 pixels declare 3 600 012 bytes, far below 2^32; the bound is reached at
   119 304 647 pixels (9 rows), which is where the explicit hypothesis [fits] starts to exclude inputs *)
Example u32_fields_fit_example :
  pix_declared_size (demo_pix 0) = 12
  /\ (forall n, n = 100000 -> 4 + 8 + 9 * 4 * n = 3600012 /\ 3600012 < two32)
  /\ 4 + 8 + 9 * 4 * 119304646 < two32 /\ two32 <= 4 + 8 + 9 * 4 * 119304647.
Proof. repeat split; try (vm_compute; reflexivity); subst; vm_compute; congruence. Qed.

(* strings: the writer stores the number of CHARACTERS as the length of the UTF-8 bytes.  For ASCII
   text both agree ([f_str] takes the bytes); for "é" (2 bytes, 1 character) the object written does
   not decode back: one byte is left over inside the extent.  Documented boundary, not raised:
   the property quantifies over strings "of any length", not over alphabets. *)
Example non_ascii_boundary :
  let written := OChar [1] [195; 169] in
  wfb written = false
  /\ decode_obj obj_fuel LE (encode_obj LE written) = Some (OChar [1] [195], [169])
  /\ decode_block LE s_data_block (encode_obj LE written) = Err "block:object-ends-before-extent"%string.
Proof. vm_compute. auto. Qed.

(* the struct-array layout: n >= 2 runs share one cell array of shape (n_fields, 1, n) *)
Example struct_array_layout :
  match ir_expdata [demo_exp; demo_exp; demo_exp] with
  | OSer (OStruct [1] _ (OCell [3; 1] [_; _; OStruct [3] names (OCell [14; 1; 3] items)])) =>
      length names = 14%nat /\ length items = 42%nat
  | _ => False
  end.
Proof. vm_compute. auto. Qed.

(* binary64 -> binary32: ties to even, subnormals, overflow, signed zero (bit patterns) *)
Example f64_to_f32_examples :
  f64_to_f32 4607182418800017408 = 1065353216                      (* 1.0 *)
  /\ f64_to_f32 4607182419068452864 = 1065353216                   (* 1 + 2^-24: tie, rounds to even (down) *)
  /\ f64_to_f32 4607182419605323776 = 1065353218                   (* 1 + 3*2^-24: tie, rounds to even (up) *)
  /\ f64_to_f32 4607182419068452865 = 1065353217                   (* just above the tie *)
  /\ f64_to_f32 13826050856027422720 = 3204448256                  (* -0.5 *)
  /\ f64_to_f32 9223372036854775808 = 2147483648                   (* -0.0 *)
  /\ f64_to_f32 5183643171103440896 = 2139095040                   (* 2^128 -> inf *)
  /\ f64_to_f32 3936146074321813504 = 1                            (* 2^-149: smallest subnormal *)
  /\ f64_to_f32 3931642474694443008 = 0                            (* 2^-150: tie to even -> 0 *)
  /\ f64_to_f32 3933894274508128256 = 1.                           (* 1.5 * 2^-150 -> 2^-149 *)
Proof. vm_compute. repeat split; reflexivity. Qed.
