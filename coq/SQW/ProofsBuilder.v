(* SQW/ProofsBuilder.v — the builder: which blocks a sequence of builder calls produces
   and in which order.  The block list of the written file is a function of the LAST
   call of each kind only ([file_blocks_spec]); hence any two call sequences that
   contain the same calls (any order, any subset, repetitions allowed) give the same
   file ([encode_file_order_independent]); the names in the table are
   [expected_names] — each present block once, in a fixed order ([bat_names]). *)
From Coq Require Import NArith String List Lia ZifyBool Bool Arith.
From Verif.SQW Require Import Bytes Format Model Content Check ProofsFile.
Import ListNotations.
Local Open Scope N_scope.

(* ------------------------------------------------------------------ dictionary facts *)
Lemma bkey_eqb_eq : forall a b, bkey_eqb a b = true -> a = b.
Proof. destruct a, b; cbn; intros H; try discriminate; reflexivity. Qed.
Lemma bkey_eqb_refl : forall a, bkey_eqb a a = true.
Proof. destruct a; reflexivity. Qed.

Lemma dict_get_set : forall V (d : list (bkey * V)) k v k',
  dict_get (dict_set d k v) k' = if bkey_eqb k k' then Some v else dict_get d k'.
Proof.
  induction d as [|[k0 v0] t IH]; intros k v k'; cbn [dict_set dict_get]; auto.
  destruct (bkey_eqb k0 k) eqn:E; cbn [dict_get].
  - apply bkey_eqb_eq in E. subst k0. destruct (bkey_eqb k k'); reflexivity.
  - rewrite IH. destruct (bkey_eqb k0 k') eqn:E1; auto.
    destruct (bkey_eqb k k') eqn:E2; auto.
    apply bkey_eqb_eq in E1, E2. subst. rewrite bkey_eqb_refl in E. discriminate.
Qed.

Lemma dict_get_map : forall V W (f : V -> W) (d : list (bkey * V)) k,
  dict_get (map (fun kv => (fst kv, f (snd kv))) d) k = option_map f (dict_get d k).
Proof.
  induction d as [|[k0 v0] t IH]; intros k; cbn [map dict_get fst snd]; auto.
  destruct (bkey_eqb k0 k); auto.
Qed.

Lemma filter_none : forall A (f : A -> bool) l, (forall x, f x = false) -> filter f l = [].
Proof. induction l; intros H; cbn [filter]; auto. rewrite H. auto. Qed.

Lemma to_canonical_all : forall V (d : list (bkey * V)),
  to_canonical canonical_order d
  = flat_map (fun k => match dict_get d k with Some v => [(k, v)] | None => [] end) canonical_order.
Proof.
  intros. unfold to_canonical. rewrite filter_none, app_nil_r; auto.
  intros [k v]. cbn [fst]. destruct k; reflexivity.
Qed.

(* ------------------------------------------------------------------ the state after a call sequence *)
Lemma last_pix_snoc : forall cs c,
  last_pix (cs ++ [c]) = match c with CPix p xs nd => Some (p, xs, nd) | _ => last_pix cs end.
Proof. intros; unfold last_pix; rewrite fold_left_app; destruct c; reflexivity. Qed.
Lemma last_dnd_snoc : forall cs c,
  last_dnd (cs ++ [c]) = match c with CDnd m => Some m | _ => last_dnd cs end.
Proof. intros; unfold last_dnd; rewrite fold_left_app; destruct c; reflexivity. Qed.
Lemma last_inst_snoc : forall cs c,
  last_inst (cs ++ [c]) = match c with CInst i => Some i | _ => last_inst cs end.
Proof. intros; unfold last_inst; rewrite fold_left_app; destruct c; reflexivity. Qed.
Lemma last_samp_snoc : forall cs c,
  last_samp (cs ++ [c]) = match c with CSamp s => Some s | _ => last_samp cs end.
Proof. intros; unfold last_samp; rewrite fold_left_app; destruct c; reflexivity. Qed.
Lemma has_det_snoc : forall cs c,
  has_det (cs ++ [c]) = has_det cs || match c with CDet => true | _ => false end.
Proof. intros; unfold has_det; rewrite existsb_app; cbn [existsb]; rewrite orb_false_r; reflexivity. Qed.

Definition spec (cs : list call) (k : bkey) : option rblock :=
  match k with
  | KMain => Some RMain
  | KExp => match last_pix cs with Some (_, xs, _) => Some (RExp xs) | None => None end
  | KPmeta => match last_pix cs with Some (p, _, _) => Some (RPixMeta p) | None => None end
  | KDet => if has_det cs then Some RDet else None
  | KDmeta => match last_dnd cs with Some m => Some (RDndMeta m) | None => None end
  | _ => None
  end.
Definition nfiles_of (cs : list call) : N :=
  match last_pix cs with Some (_, xs, _) => N.of_nat (length xs) | None => 0 end.

Record inv (cs : list call) (st : bstate) : Prop := {
  i_pix : st_pix st = match last_pix cs with Some (p, _, _) => Some p | None => None end;
  i_nfiles : st_nfiles st = nfiles_of cs;
  i_ndims : st_ndims st = ndims_of cs;
  i_dnd : st_dnd st = match last_dnd cs with Some m => Some (ax_nbins (dm_axes m)) | None => None end;
  i_inst : st_inst st = last_inst cs;
  i_samp : st_samp st = last_samp cs;
  i_get : forall k, dict_get (st_blocks st) k = spec cs k
}.

Lemma run_calls_inv : forall cs, inv cs (run_calls cs).
Proof.
  induction cs as [|c cs IH] using rev_ind.
  - constructor; try reflexivity. intros k; destruct k; reflexivity.
  - unfold run_calls in *. rewrite fold_left_app. cbn [fold_left].
    set (st := fold_left apply_call cs st_init) in *.
    destruct IH as [Hp Hn Hd Hdn Hi Hs Hg].
    constructor; unfold nfiles_of, ndims_of in *;
      rewrite ?last_pix_snoc, ?last_dnd_snoc, ?last_inst_snoc, ?last_samp_snoc;
      destruct c; cbn [apply_call st_pix st_nfiles st_ndims st_dnd st_inst st_samp st_blocks]; auto.
    all: intros k; unfold spec; rewrite ?dict_get_set, Hg; unfold spec;
      rewrite ?last_pix_snoc, ?last_dnd_snoc, ?has_det_snoc; destruct k; cbn [bkey_eqb orb];
      rewrite ?orb_false_r, ?orb_true_r; reflexivity.
Qed.

(* ------------------------------------------------------------------ the prepared blocks *)
Definition pspec (ev : env) (title : bytes) (cs : list call) (k : bkey) : option obj :=
  match k with
  | KMain => Some (ir_main_header {| mh_full_filename := env_full ev; mh_title := title;
                                     mh_nfiles := nfiles_of cs; mh_date := env_date_main ev |})
  | KDet => if has_det cs then Some ir_detpar else None
  | KDmeta => match last_dnd cs with
              | Some m => Some (ir_dnd_meta m (env_name ev) (env_path ev) (env_date_dnd ev)) | None => None end
  | KInst => match last_inst cs with
             | Some i => Some (broadcast_ref (bs "GLOBAL_NAME_INSTRUMENTS_CONTAINER") (bs "IX_inst")
                                             (ir_instrument i) (nfiles_of cs))
             | None => None end
  | KSamp => match last_samp cs with
             | Some s => Some (broadcast_ref (bs "GLOBAL_NAME_SAMPLES_CONTAINER") (bs "IX_samp")
                                             (ir_sample s) (nfiles_of cs))
             | None => None end
  | KExp => match last_pix cs with Some (_, xs, _) => Some (ir_expdata xs) | None => None end
  | KPmeta => match last_pix cs with
              | Some (p, _, _) => Some (ir_pix_meta {| pm_full_filename := env_full ev; pm_npix := pw_npix p;
                                                       pm_nrows := pw_nrows p;
                                                       pm_range := ranges (pw_rows p) (pw_int p) |})
              | None => None end
  | KNd | KPwrap => None
  end.

Lemma prepared_spec : forall ev title cs,
  prepared canonical_order ev title (run_calls cs)
  = flat_map (fun k => match pspec ev title cs k with Some o => [(k, o)] | None => [] end) canonical_order.
Proof.
  intros. destruct (run_calls_inv cs) as [Hp Hn Hd Hdn Hi Hs Hg].
  unfold prepared. rewrite to_canonical_all. apply flat_map_ext. intros k.
  rewrite Hi, Hs.
  assert (G : forall k, dict_get (map (fun kv => (fst kv, ir_of ev title (run_calls cs) (snd kv)))
                                      (st_blocks (run_calls cs))) k
                        = option_map (ir_of ev title (run_calls cs)) (spec cs k)).
  { intros k0. rewrite dict_get_map, Hg. reflexivity. }
  destruct (last_inst cs) eqn:Ei, (last_samp cs) eqn:Es; rewrite ?dict_get_set, G;
    destruct k; cbn [bkey_eqb spec pspec option_map ir_of]; rewrite ?Hn, ?Ei, ?Es; try reflexivity;
    try (destruct (last_pix cs) as [[[p xs] nd]|]; reflexivity);
    try (destruct (has_det cs); reflexivity);
    try (destruct (last_dnd cs); reflexivity).
Qed.

(* the whole block list as a function of the last call of each kind *)
Definition blocks_spec (e : endian) (ev : env) (b : bound_kind) (chunk : N) (title : bytes) (cs : list call) : list blk :=
  map (fun kv => let body := encode_obj e (snd kv) in
                 {| b_type := s_data_block; b_n1 := fst (key_name (fst kv)); b_n2 := snd (key_name (fst kv));
                    b_declared := len body; b_bytes := body |})
      (flat_map (fun k => match pspec ev title cs k with Some o => [(k, o)] | None => [] end) canonical_order)
  ++ match last_dnd cs with
     | Some m => [{| b_type := s_dnd_block; b_n1 := fst n_nd; b_n2 := snd n_nd;
                     b_declared := dnd_declared_size (ax_nbins (dm_axes m));
                     b_bytes := dnd_write e (ax_nbins (dm_axes m)) |}]
     | None => [] end
  ++ match last_pix cs with
     | Some (p, _, _) => [{| b_type := s_pix_block; b_n1 := fst n_pwrap; b_n2 := snd n_pwrap;
                             b_declared := pix_declared_size p; b_bytes := pix_write e b chunk p |}]
     | None => [] end.

Theorem file_blocks_spec : forall e ev b chunk title cs,
  file_blocks canonical_order e ev b chunk title (run_calls cs) = blocks_spec e ev b chunk title cs.
Proof.
  intros. destruct (run_calls_inv cs) as [Hp Hn Hd Hdn Hi Hs Hg].
  unfold file_blocks, blocks_spec. rewrite prepared_spec, Hdn, Hp.
  destruct (last_dnd cs), (last_pix cs) as [[[p xs] nd]|]; reflexivity.
Qed.

Theorem encode_file_spec : forall e ev b title cs chunk,
  encode_file canonical_order e ev b title cs chunk
  = layout e (ndims_of cs) (blocks_spec e ev b chunk title cs).
Proof.
  intros. unfold encode_file. rewrite file_blocks_spec.
  destruct (run_calls_inv cs) as [Hp Hn Hd Hdn Hi Hs Hg]. rewrite Hd. reflexivity.
Qed.

(* ------------------------------------------------------------------ the table: each present block once, fixed order *)
Theorem bat_names : forall e ev b chunk title cs,
  blk_names (file_blocks canonical_order e ev b chunk title (run_calls cs)) = expected_names cs.
Proof.
  intros. rewrite file_blocks_spec. unfold blocks_spec, expected_names, blk_names.
  rewrite !map_app, map_map. cbn [canonical_order all_keys flat_map pspec].
  destruct (has_det cs), (last_dnd cs), (last_inst cs), (last_samp cs), (last_pix cs) as [[[p xs] nd]|];
    reflexivity.
Qed.

Theorem bat_types : forall e ev b chunk title cs,
  Forall (fun bk => b_type bk = expected_type (b_n1 bk, b_n2 bk))
         (file_blocks canonical_order e ev b chunk title (run_calls cs)).
Proof.
  intros. rewrite file_blocks_spec. unfold blocks_spec. cbn [canonical_order all_keys flat_map pspec].
  destruct (has_det cs), (last_dnd cs), (last_inst cs), (last_samp cs), (last_pix cs) as [[[p xs] nd]|];
    cbn [app map]; repeat constructor.
Qed.

Theorem bat_lists_each_block_once : forall cs, nodup_names (expected_names cs) = true.
Proof.
  intros. unfold expected_names.
  destruct (has_det cs), (last_dnd cs), (last_inst cs), (last_samp cs), (last_pix cs) as [[[p xs] nd]|];
    vm_compute; reflexivity.
Qed.

(* ------------------------------------------------------------------ independence of the call order *)
Theorem encode_file_order_independent : forall cs cs',
  last_pix cs = last_pix cs' -> last_dnd cs = last_dnd cs' -> last_inst cs = last_inst cs' ->
  last_samp cs = last_samp cs' -> has_det cs = has_det cs' ->
  forall e ev b title chunk,
    encode_file canonical_order e ev b title cs chunk = encode_file canonical_order e ev b title cs' chunk.
Proof.
  intros cs cs' H1 H2 H3 H4 H5 e ev b title chunk. rewrite !encode_file_spec.
  unfold blocks_spec, ndims_of. rewrite H1, H2.
  replace (flat_map (fun k => match pspec ev title cs k with Some o => [(k, o)] | None => [] end) canonical_order)
    with (flat_map (fun k => match pspec ev title cs' k with Some o => [(k, o)] | None => [] end) canonical_order).
  - reflexivity.
  - apply flat_map_ext. intros k. unfold pspec, nfiles_of. rewrite H1, H2, H3, H4, H5. reflexivity.
Qed.

(* the last call of a kind is determined by WHICH calls were made when no two different calls of
   the same kind occur (any permutation of any subset of the five builder calls) *)
Section LastSel.
  Variable A : Type.
  Variable sel : call -> option A.
  Definition last_sel (cs : list call) : option A :=
    fold_left (fun a c => match sel c with Some x => Some x | None => a end) cs None.

  Lemma last_sel_snoc : forall cs c,
    last_sel (cs ++ [c]) = match sel c with Some x => Some x | None => last_sel cs end.
  Proof. intros; unfold last_sel; rewrite fold_left_app; reflexivity. Qed.

  Lemma last_sel_some : forall cs x, last_sel cs = Some x -> exists c, In c cs /\ sel c = Some x.
  Proof.
    induction cs as [|c cs IH] using rev_ind; intros x H; [discriminate|].
    rewrite last_sel_snoc in H. destruct (sel c) eqn:E.
    - inversion H; subst. exists c. split; [apply in_or_app; right; left; reflexivity | exact E].
    - destruct (IH x H) as [c' [Hin Hs]]. exists c'. split; [apply in_or_app; left; exact Hin | exact Hs].
  Qed.

  Lemma last_sel_none : forall cs, last_sel cs = None -> forall c, In c cs -> sel c = None.
  Proof.
    induction cs as [|c cs IH] using rev_ind; intros H c' Hin; [contradiction|].
    rewrite last_sel_snoc in H. destruct (sel c) eqn:E; [discriminate|].
    apply in_app_or in Hin. destruct Hin as [Hin|[<-|[]]]; auto.
  Qed.

  Lemma last_sel_exists : forall cs c x, In c cs -> sel c = Some x -> exists y, last_sel cs = Some y.
  Proof.
    induction cs as [|c0 cs IH] using rev_ind; intros c x Hin Hs; [contradiction|].
    rewrite last_sel_snoc. destruct (sel c0) eqn:E; [eexists; reflexivity|].
    apply in_app_or in Hin. destruct Hin as [Hin|[<-|[]]]; [eapply IH; eauto | congruence].
  Qed.

  Theorem last_sel_same_calls : forall cs cs',
    (forall c1 c2 x1 x2, In c1 cs -> In c2 cs -> sel c1 = Some x1 -> sel c2 = Some x2 -> x1 = x2) ->
    (forall c, In c cs <-> In c cs') ->
    last_sel cs = last_sel cs'.
  Proof.
    intros cs cs' U M. destruct (last_sel cs) eqn:E1.
    - destruct (last_sel_some cs a E1) as [c [Hin Hs]].
      destruct (last_sel_exists cs' c a (proj1 (M c) Hin) Hs) as [y Hy]. rewrite Hy.
      destruct (last_sel_some cs' y Hy) as [c' [Hin' Hs']].
      f_equal. apply (U c c' a y); auto. apply M; auto.
    - destruct (last_sel cs') eqn:E2; auto.
      destruct (last_sel_some cs' a E2) as [c [Hin Hs]].
      rewrite (last_sel_none cs E1 c) in Hs by (apply M; auto). discriminate.
  Qed.
End LastSel.

Inductive kind := KdPix | KdDet | KdDnd | KdInst | KdSamp.
Definition kind_of (c : call) : kind :=
  match c with CPix _ _ _ => KdPix | CDet => KdDet | CDnd _ => KdDnd | CInst _ => KdInst | CSamp _ => KdSamp end.
(* no two DIFFERENT calls of the same kind *)
Definition consistent (cs : list call) : Prop :=
  forall c1 c2, In c1 cs -> In c2 cs -> kind_of c1 = kind_of c2 -> c1 = c2.

Definition sel_pix (c : call) := match c with CPix p xs nd => Some (p, xs, nd) | _ => None end.
Definition sel_dnd (c : call) := match c with CDnd m => Some m | _ => None end.
Definition sel_inst (c : call) := match c with CInst i => Some i | _ => None end.
Definition sel_samp (c : call) := match c with CSamp s => Some s | _ => None end.

Lemma fold_left_ext : forall A B (f g : A -> B -> A) l a, (forall a b, f a b = g a b) -> fold_left f l a = fold_left g l a.
Proof. induction l; intros a0 H; cbn [fold_left]; auto. rewrite H. apply IHl; auto. Qed.

Lemma last_pix_sel : forall cs, last_pix cs = last_sel _ sel_pix cs.
Proof. intros; unfold last_pix, last_sel; apply fold_left_ext; intros a []; reflexivity. Qed.
Lemma last_dnd_sel : forall cs, last_dnd cs = last_sel _ sel_dnd cs.
Proof. intros; unfold last_dnd, last_sel; apply fold_left_ext; intros a []; reflexivity. Qed.
Lemma last_inst_sel : forall cs, last_inst cs = last_sel _ sel_inst cs.
Proof. intros; unfold last_inst, last_sel; apply fold_left_ext; intros a []; reflexivity. Qed.
Lemma last_samp_sel : forall cs, last_samp cs = last_sel _ sel_samp cs.
Proof. intros; unfold last_samp, last_sel; apply fold_left_ext; intros a []; reflexivity. Qed.

(* C12: the file does not depend on the order of the builder calls *)
Theorem encode_file_same_calls : forall cs cs',
  consistent cs -> (forall c, In c cs <-> In c cs') ->
  forall e ev b title chunk,
    encode_file canonical_order e ev b title cs chunk = encode_file canonical_order e ev b title cs' chunk.
Proof.
  intros cs cs' C M. apply encode_file_order_independent.
  - rewrite !last_pix_sel. apply last_sel_same_calls; auto.
    intros c1 c2 x1 x2 H1 H2 S1 S2. destruct c1, c2; try discriminate.
    assert (E : CPix p xs ndims = CPix p0 xs0 ndims0) by (apply C; auto).
    cbn in S1, S2. congruence.
  - rewrite !last_dnd_sel. apply last_sel_same_calls; auto.
    intros c1 c2 x1 x2 H1 H2 S1 S2. destruct c1, c2; try discriminate.
    assert (E : CDnd m = CDnd m0) by (apply C; auto). cbn in S1, S2. congruence.
  - rewrite !last_inst_sel. apply last_sel_same_calls; auto.
    intros c1 c2 x1 x2 H1 H2 S1 S2. destruct c1, c2; try discriminate.
    assert (E : CInst i = CInst i0) by (apply C; auto). cbn in S1, S2. congruence.
  - rewrite !last_samp_sel. apply last_sel_same_calls; auto.
    intros c1 c2 x1 x2 H1 H2 S1 S2. destruct c1, c2; try discriminate.
    assert (E : CSamp s = CSamp s0) by (apply C; auto). cbn in S1, S2. congruence.
  - unfold has_det. destruct (existsb _ cs) eqn:E1; symmetry.
    + apply existsb_exists in E1. destruct E1 as [c [Hin Hc]]. apply existsb_exists. exists c. split; auto. apply M; auto.
    + destruct (existsb _ cs') eqn:E2; auto.
      apply existsb_exists in E2. destruct E2 as [c [Hin Hc]].
      assert (existsb (fun c0 => match c0 with CDet => true | _ => false end) cs = true)
        by (apply existsb_exists; exists c; split; auto; apply M; auto).
      congruence.
Qed.

(* with the model's own order the parametrised table order is [expected_names] *)
Lemma expected_names_ord_canonical : forall cs, expected_names_ord canonical_order cs = expected_names cs.
Proof.
  intros. unfold expected_names_ord, expected_names, present. cbn [canonical_order all_keys filter].
  destruct (has_det cs), (last_dnd cs), (last_inst cs), (last_samp cs), (last_pix cs) as [[[p xs] nd]|]; reflexivity.
Qed.
