(* SQW/ProofsContent.v — C13: what the documented content view (Content.v) of the written
   blocks is, for ALL supplied values:
   * integers stored as binary64 decode to themselves (nfiles, npix, 1-based run ids, indices);
   * pixel i of the block is the i-th value of each of the rows, each converted once by f64_to_f32;
   * main header, pixel metadata (N, per-row min/max), one experiment record per run with 1-based
     ids / meV / rad, containers that reference ONE object with idx = [1;...;1], sample, instrument,
     dnd metadata, zero histogram of the declared shape.
   The values are the binary64 patterns the model was given (already in the documented unit);
   that those are the supplied quantities converted is checked per case in exact rational
   arithmetic by Check.conv_ok. *)
From Coq Require Import NArith ZArith String List Lia ZifyBool Bool Arith.
From Verif.SQW Require Import Bytes Format Model Content Check ProofsObj ProofsPix ProofsFile.
Import ListNotations.
Local Open Scope N_scope.

Definition two53 : N := 9007199254740992.

(* ------------------------------------------------------------------ integers as binary64 *)
Theorem N_of_f64_of_N : forall n, n < two53 -> N_of_f64 (f64_of_N n) = Some n.
Proof.
  intros n H. unfold f64_of_N. destruct (N.eqb_spec n 0) as [->|Hn0]; [reflexivity|].
  set (e := N.log2 n).
  assert (He : 2 ^ e <= n < 2 ^ (N.succ e)) by (apply N.log2_spec; lia).
  assert (He52 : e < 53).
  { apply (N.pow_lt_mono_r_iff 2); [lia|]. change (2 ^ 53) with two53. lia. }
  set (k := 52 - e).
  assert (Hk : 2 ^ 52 = 2 ^ e * 2 ^ k) by (rewrite <- N.pow_add_r; f_equal; unfold k; lia).
  rewrite N.pow_succ_r' in He.
  assert (Ha : 0 < 2 ^ k) by (apply N.neq_0_lt_0, N.pow_nonzero; lia).
  set (a := 2 ^ k) in *. set (b := 2 ^ e) in *.
  set (r := (n - b) * a).
  assert (Hr : r < 2 ^ 52) by (unfold r; nia).
  set (p := (1023 + e) * 2 ^ 52 + r).
  unfold N_of_f64.
  assert (Hp0 : p =? 0 = false) by (unfold p; lia). rewrite Hp0.
  assert (Hdiv : p / 2 ^ 52 = 1023 + e).
  { symmetry. apply (N.div_unique p (2 ^ 52) (1023 + e) r); auto. unfold p. lia. }
  assert (Hmod : p mod 2 ^ 52 = r).
  { symmetry. apply (N.mod_unique p (2 ^ 52) (1023 + e) r); auto. unfold p. lia. }
  rewrite Hdiv, Hmod.
  replace ((1023 + e <? 1023) || (1075 <? 1023 + e)) with false by lia.
  replace (1023 + e - 1023) with e by lia. fold k. fold a.
  assert (HM : 2 ^ 52 + r = n * a) by (unfold r; nia).
  rewrite HM, N.mod_mul, N.div_mul by lia. reflexivity.
Qed.

Example f64_of_N_examples : f64_of_N 1 = 4607182418800017408 /\ f64_of_N 4 = f64_4_0 /\ N_of_f64 (f64_of_N 100000) = Some 100000.
Proof. vm_compute. auto. Qed.

(* ------------------------------------------------------------------ pixels: in order, rounded once *)
Lemma transpose_rows_nth : forall n rows i, (i < n)%nat ->
  nth i (transpose_rows n rows) [] = map (fun r => f64_to_f32 (nth i r 0)) rows.
Proof.
  induction n; intros rows i Hi; [lia|]. cbn [transpose_rows]. destruct i; cbn [nth].
  - apply map_ext. intros r. destruct r; reflexivity.
  - rewrite IHn by lia. rewrite map_map. apply map_ext. intros r. destruct r; cbn [tl nth]; auto.
    destruct i; reflexivity.
Qed.

(* pixel i of the written block holds, for each row r, f64_to_f32 of the i-th (converted) value of r *)
Theorem pixel_values : forall p i, (i < N.to_nat (pw_npix p))%nat ->
  nth i (pixels_of p) [] = map (fun r => f64_to_f32 (nth i r 0)) (pw_rows p).
Proof. intros. unfold pixels_of. apply transpose_rows_nth; auto. Qed.

(* ------------------------------------------------------------------ views of the typed blocks *)
Local Opaque f64_of_N N_of_f64.
(* normal forms with the two integer<->binary64 functions kept folded; auxiliary facts about symbolic
   sub-terms are brought to the same normal form and then used for rewriting *)
Ltac nf := lazy -[f64_of_N N_of_f64 two53].
Ltac nf_in H := lazy -[f64_of_N N_of_f64 two53] in H.
Ltac view_solve :=
  nf; repeat (rewrite N_of_f64_of_N by (try assumption; try (vm_compute; reflexivity))).

Theorem view_main_ok : forall full title nf date, nf < two53 ->
  view_main (ir_main_header {| mh_full_filename := full; mh_title := title; mh_nfiles := nf; mh_date := date |})
  = Some [("main.full_filename", RStr full); ("main.title", RStr title);
          ("main.nfiles", RInt nf); ("main.date", RStr date)]%string.
Proof. intros. view_solve. reflexivity. Qed.

Theorem view_pixmeta_ok : forall full npix nrows range, npix < two53 ->
  view_pixmeta (ir_pix_meta {| pm_full_filename := full; pm_npix := npix; pm_nrows := nrows; pm_range := range |})
  = Some [("pixmeta.full_filename", RStr full); ("pixmeta.npix", RInt npix);
          ("pixmeta.range", RNum "none" range); ("pixmeta.range_shape", RNum "shape" [2; nrows])]%string.
Proof. intros. view_solve. reflexivity. Qed.

(* one run record: 1-based id in the file, meV, radians *)
Theorem view_run_ok : forall i x, x_run_id x + 1 < two53 -> x_emode x < two53 ->
  view_run i (exp_fields x) = Some (exp_run_view i x).
Proof.
  intros i [fn fp rid efix emode enr en psi u v omega dpsi gl gs] H1 H2. cbn [x_run_id x_emode] in *.
  unfold exp_run_view, exp_fields, view_run.
  cbn [x_filename x_filepath x_run_id x_efix x_emode x_en_rows x_en x_psi x_u x_v x_omega x_dpsi x_gl x_gs].
  assert (F0 : (rid + 1 =? 0) = false) by lia.
  assert (F1 : rid + 1 - 1 = rid) by lia.
  set (r1 := rid + 1) in *. clearbody r1.
  nf_in F0. nf_in F1. view_solve. rewrite F0, F1. reflexivity.
Qed.

Lemma mapi_opt_runs : forall xs i,
  Forall (fun x => x_run_id x + 1 < two53 /\ x_emode x < two53) xs ->
  mapi_opt view_run i (map exp_fields xs) = Some (mapi exp_run_view i xs).
Proof.
  induction xs; intros i F; cbn [map mapi_opt mapi]; auto.
  inversion F as [|? ? [H1 H2] F']; subst. unfold obind. rewrite view_run_ok, IHxs by auto. reflexivity.
Qed.

Definition exp_names : list bytes := map fst (exp_fields
  {| x_filename := []; x_filepath := []; x_run_id := 0; x_efix := []; x_emode := 0; x_en_rows := 0; x_en := [];
     x_psi := 0; x_u := []; x_v := []; x_omega := 0; x_dpsi := 0; x_gl := 0; x_gs := 0 |}).
Lemma exp_fields_names : forall x, map fst (exp_fields x) = exp_names.
Proof. reflexivity. Qed.
Lemma zip_exp_fields : forall x, zip_fields exp_names (map snd (exp_fields x)) = exp_fields x.
Proof. reflexivity. Qed.

Lemma chunks_concat : forall A (k : nat) (l : list (list A)),
  Forall (fun x => length x = k) l -> chunks k (length l) (concat l) = l.
Proof.
  induction 1; cbn [length concat chunks]; auto.
  rewrite ProofsFile.firstn_exact, ProofsFile.skipn_exact by auto. rewrite IHForall. reflexivity.
Qed.

Lemma zip_fst_snd : forall (fs : list (bytes * obj)), zip_fields (map fst fs) (map snd fs) = fs.
Proof. induction fs as [|[k v] t IH]; cbn [map zip_fields fst snd]; auto. rewrite IH. reflexivity. Qed.

Lemma struct_elems_arr : forall (f1 f2 : fields) (rest : list fields) names,
  Forall (fun s => map fst s = names) (f1 :: f2 :: rest) ->
  struct_elems (struct_arr (f1 :: f2 :: rest)) = Some (f1 :: f2 :: rest).
Proof.
  intros f1 f2 rest names F. set (structs := f1 :: f2 :: rest) in *.
  assert (H1 : map fst f1 = names) by (inversion F; auto).
  unfold struct_arr. unfold structs at 1. cbv iota. fold structs.
  unfold struct_elems. cbn [unser]. rewrite H1.
  replace (N.to_nat (volume [N.of_nat (length structs)])) with (length (map (map snd) structs)).
  2:{ unfold volume, prod_dims. cbn [fold_right]. rewrite map_length, N.mul_1_r, Nat2N.id. reflexivity. }
  rewrite flat_map_concat_map.
  rewrite (chunks_concat _ (length names) (map (map snd) structs)).
  - f_equal. rewrite map_map. rewrite <- (map_id structs) at 2. apply map_ext_in.
    intros s Hs. rewrite Forall_forall in F. rewrite <- (F s Hs). apply zip_fst_snd.
  - apply Forall_forall. intros z Hz. apply in_map_iff in Hz. destruct Hz as [w [<- Hw]].
    rewrite Forall_forall in F. rewrite <- (F w Hw). rewrite !map_length. reflexivity.
Qed.

Lemma struct_elems_runs : forall xs, xs <> [] ->
  struct_elems (struct_arr (map exp_fields xs)) = Some (map exp_fields xs).
Proof.
  intros xs Hne. destruct xs as [|x [|y t]]; [congruence | reflexivity |].
  cbn [map]. apply (struct_elems_arr _ _ _ exp_names).
  repeat constructor. apply Forall_forall. intros z Hz. apply in_map_iff in Hz. destruct Hz as [w [<- _]]. reflexivity.
Qed.

(* one experiment record per run, in order *)
Theorem view_exp_ok : forall xs, xs <> [] ->
  Forall (fun x => x_run_id x + 1 < two53 /\ x_emode x < two53) xs ->
  view_exp (ir_expdata xs) = Some (("exp.n", RInt (N.of_nat (length xs))) :: mapi exp_run_view 0 xs)%string.
Proof.
  intros xs Hne F. unfold view_exp, ir_expdata.
  set (arr := struct_arr (map exp_fields xs)).
  set (fs := [fld "serial_name" (f_str (bs "IX_experiment")); fld "version" (f_int 3); fld "array_dat" arr]).
  assert (Hs : struct_one (struct1 fs) = Some fs) by reflexivity.
  unfold obind at 1. rewrite Hs.
  assert (Hc : has_class fs "IX_experiment" 3 = true).
  { unfold fs. generalize arr. intros arr0. view_solve. reflexivity. }
  rewrite Hc.
  assert (Hser : is_ser (struct1 fs) = true) by reflexivity.
  rewrite Hser. cbn [andb negb].
  assert (Hg : fget fs "array_dat" = Some arr) by reflexivity.
  unfold obind. rewrite Hg. unfold arr. rewrite struct_elems_runs by auto.
  rewrite mapi_opt_runs by auto. rewrite map_length. reflexivity.
Qed.

(* containers: ONE unique object, every run points to it (idx = [1;...;1]) *)
Definition idx_fold (l : list N) : option (list N) :=
  fold_right (fun p acc => obind acc (fun a => obind (N_of_f64 p) (fun m => Some (m :: a)))) (Some []) l.
Lemma idx_ones : forall n, idx_fold (map (fun i => f64_of_N (i + 1)) (repeat 0 n)) = Some (repeat 1 n).
Proof.
  unfold idx_fold. induction n; cbn [repeat map fold_right]; auto. rewrite IHn. unfold obind.
  rewrite N_of_f64_of_N by (vm_compute; reflexivity). reflexivity.
Qed.
Lemma forallb_ones : forall n, forallb (N.eqb 1) (repeat 1 n) = true.
Proof. induction n; cbn [repeat forallb]; auto. Qed.

Theorem view_samp_ok : forall name alatt angdeg n,
  view_samp (broadcast_ref (bs "GLOBAL_NAME_SAMPLES_CONTAINER") (bs "IX_samp")
                           (ir_sample {| sa_name := name; sa_alatt := alatt; sa_angdeg := angdeg |}) n)
  = Some [("samp.n", RInt n); ("samp.shared", RInt 1); ("samp.n_unique", RInt 1);
          ("samp.0.name", RStr name); ("samp.0.alatt", RNum "angstrom" alatt); ("samp.0.angdeg", RNum "deg" angdeg)]%string.
Proof.
  intros. unfold view_samp, view_container, unique_ref, broadcast_ref, ir_unique_ref.
  pose proof (idx_ones (N.to_nat n)) as HI.
  assert (HL : N.of_nat (length (repeat 1 (N.to_nat n))) = n) by (rewrite repeat_length; lia).
  pose proof (forallb_ones (N.to_nat n)) as HO.
  set (ones := repeat 1 (N.to_nat n)) in *.
  set (idxl := map (fun i => f64_of_N (i + 1)) (repeat 0 (N.to_nat n))) in *.
  clearbody idxl ones. unfold idx_fold in HI.
  nf_in HI. nf_in HL. nf_in HO. view_solve. rewrite HI. nf.
  repeat (rewrite N_of_f64_of_N by (vm_compute; reflexivity)). nf. rewrite HL, HO. reflexivity.
Qed.

Theorem view_inst_ok : forall name sname starget freq n,
  view_inst (broadcast_ref (bs "GLOBAL_NAME_INSTRUMENTS_CONTAINER") (bs "IX_inst")
                           (ir_instrument {| in_name := name; in_src_name := sname; in_src_target := starget;
                                             in_src_freq := freq |}) n)
  = Some [("inst.n", RInt n); ("inst.shared", RInt 1); ("inst.n_unique", RInt 1);
          ("inst.0.name", RStr name); ("inst.0.src_name", RStr sname); ("inst.0.src_target", RStr starget);
          ("inst.0.freq", RNum "none" [freq])]%string.
Proof.
  intros. unfold view_inst, view_container, unique_ref, broadcast_ref, ir_unique_ref.
  pose proof (idx_ones (N.to_nat n)) as HI.
  assert (HL : N.of_nat (length (repeat 1 (N.to_nat n))) = n) by (rewrite repeat_length; lia).
  pose proof (forallb_ones (N.to_nat n)) as HO.
  set (ones := repeat 1 (N.to_nat n)) in *.
  set (idxl := map (fun i => f64_of_N (i + 1)) (repeat 0 (N.to_nat n))) in *.
  clearbody idxl ones. unfold idx_fold in HI.
  nf_in HI. nf_in HL. nf_in HO. view_solve. rewrite HI. nf.
  repeat (rewrite N_of_f64_of_N by (vm_compute; reflexivity)). nf. rewrite HL, HO. reflexivity.
Qed.

Theorem view_det_ok : view_det ir_detpar = Some [("det.n", RInt 0); ("det.n_unique", RInt 0)]%string.
Proof. unfold view_det, unique_ref, ir_detpar, ir_unique_ref. view_solve. reflexivity. Qed.

(* pixel block and zero histogram *)
Theorem view_pix_ok : forall p,
  view_pix (pw_nrows p) (pw_npix p) (concat (pixels_of p))
  = [("pix.shape", RNum "shape" [pw_npix p; pw_nrows p]); ("pix.f32", RU32 (concat (pixels_of p)))]%string.
Proof. reflexivity. Qed.

Lemma forallb_zeros : forall n, forallb (N.eqb 0) (repeat 0 n) = true.
Proof. induction n; cbn [repeat forallb]; auto. Qed.

Theorem view_nd_ok : forall m,
  let z := repeat 0 (N.to_nat (prod_dims (ax_nbins (dm_axes m)))) in
  view_nd {| dv_shape := ax_nbins (dm_axes m); dv_signal := z; dv_error := z; dv_npix := z |} = nd_expected m.
Proof.
  intros. unfold view_nd, nd_expected. cbn [dv_shape dv_signal dv_error dv_npix]. unfold z.
  rewrite forallb_zeros, repeat_length, N2Nat.id. reflexivity.
Qed.

(* dnd metadata *)
Lemma each_str_labels : forall pfx l i,
  each_str pfx i (map (fun s => OChar [len s] s) l) = Some (str_entries pfx i l).
Proof.
  induction l; intros i; cbn [map each_str str_entries]; auto.
  unfold obind. cbn [as_str]. rewrite IHl. reflexivity.
Qed.

Lemma ints_minus_0 : forall l, Forall (fun n => n < two53) l -> ints_minus 0 (map f64_of_N l) = Some l.
Proof.
  unfold ints_minus. induction 1; cbn [map fold_right]; auto.
  rewrite IHForall. unfold obind. rewrite N_of_f64_of_N by auto.
  replace (x <? 0) with false by lia. rewrite N.sub_0_r. reflexivity.
Qed.
Lemma ints_minus_1 : forall l, Forall (fun n => n + 1 < two53) l ->
  ints_minus 1 (map (fun d => f64_of_N (d + 1)) l) = Some l.
Proof.
  unfold ints_minus. induction 1; cbn [map fold_right]; auto.
  rewrite IHForall. unfold obind. rewrite N_of_f64_of_N by auto.
  replace (x + 1 <? 1) with false by lia. replace (x + 1 - 1) with x by lia. reflexivity.
Qed.
Lemma bools_norm : forall l : list bool,
  map (fun b => if b =? 0 then 0 else 1) (map (fun b : bool => if b then 1 else 0) l)
  = map (fun b : bool => if b then 1 else 0) l.
Proof. induction l as [|[] l IH]; cbn [map]; auto; rewrite IH; reflexivity. Qed.

Theorem view_dnd_ok : forall a p fname fpath date,
  Forall (fun n => n < two53) (ax_nbins a) -> Forall (fun n => n + 1 < two53) (ax_dax a) ->
  view_dnd (ir_dnd_meta {| dm_axes := a; dm_proj := p |} fname fpath date)
  = Some (dnd_expected {| dm_axes := a; dm_proj := p |}
                       {| env_full := []; env_path := fpath; env_name := fname; env_date_main := []; env_date_dnd := date |}).
Proof.
  intros [atitle alabel ascales arange anbins asingle adax aoffset aaspect]
         [palatt pangdeg poffset ptitle plabel pu pv pw pnon ptype] fname fpath date Hn Hd.
  cbn [ax_nbins ax_dax] in Hn, Hd.
  unfold view_dnd, ir_dnd_meta, dnd_expected, axes_fields, proj_fields, f_strcell.
  cbn [dm_axes dm_proj ax_title ax_label ax_img_scales ax_img_range ax_nbins ax_single_bin ax_dax ax_offset
       ax_changes_aspect pr_alatt pr_angdeg pr_offset pr_title pr_label pr_u pr_v pr_w pr_nonorth pr_type
       env_date_dnd env_name env_path].
  pose proof (each_str_labels "dnd.ax.label." alabel 0) as HA.
  pose proof (each_str_labels "dnd.pr.label." plabel 0) as HP.
  assert (HAl : N.of_nat (length (map (fun s => OChar [len s] s) alabel)) = N.of_nat (length alabel)) by (rewrite map_length; reflexivity).
  assert (HPl : N.of_nat (length (map (fun s => OChar [len s] s) plabel)) = N.of_nat (length plabel)) by (rewrite map_length; reflexivity).
  pose proof (ints_minus_0 anbins Hn) as HN.
  pose proof (ints_minus_1 adax Hd) as HD.
  pose proof (bools_norm asingle) as HB.
  set (LA := map (fun s => OChar [len s] s) alabel) in *.
  set (LP := map (fun s => OChar [len s] s) plabel) in *.
  set (NB := map f64_of_N anbins) in *.
  set (DX := map (fun d => f64_of_N (d + 1)) adax) in *.
  set (SB := map (fun b : bool => if b then 1 else 0) asingle) in *.
  clearbody LA LP NB DX SB.
  nf_in HA. nf_in HP. nf_in HAl. nf_in HPl. nf_in HN. nf_in HD. nf_in HB.
  view_solve.
  rewrite HA. nf. rewrite HN. nf. rewrite HD. nf. rewrite HP. nf.
  rewrite HB, HAl, HPl.
  destruct aaspect, pnon, pw; reflexivity.
Qed.
