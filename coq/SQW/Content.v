(* SQW/Content.v — the documented CONTENT of an SQW file: which named fields the
   typed blocks hold and in which unit, written from the format documentation
   (Horace class layouts: main_header_cl 2.0, IX_experiment 3.0, pix_metadata 1.0,
   unique_references_container 1.0, IX_sample 3.0, IX_null_inst 2.0, IX_source 2.0,
   dnd_metadata 1.0, line_axes 7.0, line_proj 7.0).  It turns a decoded file
   (Format.fileview) into a flat list of (path, observation) — the same shape in
   which the harness reports what the package's reader returned and in which
   Check.v writes down what was supplied.  Definitions only. *)
From Coq Require Import NArith ZArith String List Bool DecimalString.
From Verif.SQW Require Import Bytes Format.
Import ListNotations.
Local Open Scope N_scope.

Inductive robs :=
| RNum (unit : string) (vals : list N)     (* binary64 patterns in that unit *)
| RStr (s : bytes)
| RInt (n : N)
| RU32 (vals : list N).                    (* binary32 patterns *)
Definition view := list (string * robs).

Definition nat_str (n : nat) : string := NilEmpty.string_of_uint (Nat.to_uint n).
Definition idx_path (pfx : string) (i : nat) (sfx : string) : string :=
  (pfx ++ nat_str i ++ sfx)%string.

(* ------------------------------------------------------------------ integers stored as binary64 *)
Definition N_of_f64 (p : N) : option N :=
  if p =? 0 then Some 0
  else
    let ex := p / 2 ^ 52 in           (* sign must be 0: ex < 2048 *)
    let m := p mod 2 ^ 52 in
    if (ex <? 1023) || (1075 <? ex) then None
    else
      let e := ex - 1023 in
      let M := 2 ^ 52 + m in
      if M mod 2 ^ (52 - e) =? 0 then Some (M / 2 ^ (52 - e)) else None.

(* ------------------------------------------------------------------ field access *)
Definition obind {A B} (c : option A) (f : A -> option B) : option B :=
  match c with Some a => f a | None => None end.
Notation "'let*' x ':=' c1 'in' c2" := (obind c1 (fun x => c2))
  (at level 61, x name, c1 at next level, right associativity).

Fixpoint unser (o : obj) : obj := match o with OSer o' => unser o' | _ => o end.
Definition is_ser (o : obj) : bool := match o with OSer _ => true | _ => false end.

Fixpoint zip_fields (names : list bytes) (items : list obj) : list (bytes * obj) :=
  match names, items with
  | n :: nt, i :: it => (n, i) :: zip_fields nt it
  | _, _ => []
  end.

Fixpoint chunks {A} (k : nat) (n : nat) (l : list A) : list (list A) :=
  match n with
  | O => []
  | S n' => firstn k l :: chunks k n' (skipn k l)
  end.

(* the elements of a struct array, each as (field name, value) list *)
Definition struct_elems (o : obj) : option (list (list (bytes * obj))) :=
  match unser o with
  | OStruct sh names (OCell _ items) =>
      let nf := length names in
      Some (List.map (zip_fields names) (chunks nf (N.to_nat (volume sh)) items))
  | OStruct0 _ => Some []
  | _ => None
  end.
Definition struct_one (o : obj) : option (list (bytes * obj)) :=
  match struct_elems o with Some [one] => Some one | _ => None end.

Fixpoint lookup (name : bytes) (fs : list (bytes * obj)) : option obj :=
  match fs with
  | [] => None
  | (k, v) :: t => if bytes_eqb k name then Some v else lookup name t
  end.
Definition fget (fs : list (bytes * obj)) (name : string) : option obj := lookup (bs name) fs.

Definition as_str (o : obj) : option bytes := match o with OChar _ d => Some d | _ => None end.
Definition as_f64s (o : obj) : option (list N) := match o with OF64 _ d => Some d | _ => None end.
Definition as_f64 (o : obj) : option N := match o with OF64 _ [x] => Some x | _ => None end.
Definition as_int (o : obj) : option N := match as_f64 o with Some p => N_of_f64 p | None => None end.
Definition as_bool (o : obj) : option N := match o with OLogical _ [b] => Some (if b =? 0 then 0 else 1) | _ => None end.
Definition as_bools (o : obj) : option (list N) := match o with OLogical _ d => Some d | _ => None end.
Definition as_cell (o : obj) : option (list obj) := match o with OCell _ items => Some items | _ => None end.
Definition shape_of (o : obj) : list N :=
  match o with OChar s _ | OF64 s _ | OLogical s _ | OCell s _ | OStruct s _ _ | OStruct0 s => s | OSer _ => [] end.

Definition s_field (fs : list (bytes * obj)) (name : string) : option bytes :=
  let* o := fget fs name  in as_str o.
Definition i_field (fs : list (bytes * obj)) (name : string) : option N :=
  let* o := fget fs name  in as_int o.
Definition v_field (fs : list (bytes * obj)) (name : string) : option (list N) :=
  let* o := fget fs name  in as_f64s o.
Definition b_field (fs : list (bytes * obj)) (name : string) : option N :=
  let* o := fget fs name  in as_bool o.

Definition has_class (fs : list (bytes * obj)) (cls : string) (version : N) : bool :=
  match s_field fs "serial_name", i_field fs "version" with
  | Some s, Some v => bytes_eqb s (bs cls) && (v =? version)
  | _, _ => false
  end.

Fixpoint mapi_opt {A B} (f : nat -> A -> option (list B)) (i : nat) (l : list A) : option (list B) :=
  match l with
  | [] => Some []
  | a :: t => let* x := f i a  in let* r := mapi_opt f (S i) t  in Some (x ++ r)
  end.

Local Open Scope string_scope.
Local Open Scope N_scope.

(* ------------------------------------------------------------------ per-class views *)
Definition view_main (o : obj) : option view :=
  let* fs := struct_one o  in
  if negb (has_class fs "main_header_cl" 2) then None else
  let* full := s_field fs "full_filename"  in let* title := s_field fs "title"  in
  let* nf := i_field fs "nfiles"  in let* date := s_field fs "creation_date"  in
  Some [("main.full_filename", RStr full); ("main.title", RStr title);
        ("main.nfiles", RInt nf); ("main.date", RStr date)].

Definition view_pixmeta (o : obj) : option view :=
  let* fs := struct_one o  in
  if negb (has_class fs "pix_metadata" 1) then None else
  let* full := s_field fs "full_filename"  in let* np := i_field fs "npix"  in
  let* ro := fget fs "data_range"  in let* r := as_f64s ro  in
  Some [("pixmeta.full_filename", RStr full); ("pixmeta.npix", RInt np);
        ("pixmeta.range", RNum "none" r); ("pixmeta.range_shape", RNum "shape" (shape_of ro))].

Definition view_run (i : nat) (fs : list (bytes * obj)) : option view :=
  let p := fun s => idx_path "exp." i s in
  let* fname := s_field fs "filename"  in let* fpath := s_field fs "filepath"  in
  let* rid := i_field fs "run_id"  in
  if rid =? 0 then None else            (* run ids are 1-based in the file *)
  let* efix := v_field fs "efix"  in let* emode := i_field fs "emode"  in
  let* eno := fget fs "en"  in let* en := as_f64s eno  in
  let* psi := v_field fs "psi"  in let* u := v_field fs "u"  in let* v := v_field fs "v"  in
  let* omega := v_field fs "omega"  in let* dpsi := v_field fs "dpsi"  in let* gl := v_field fs "gl"  in let* gs := v_field fs "gs"  in
  let* deg := b_field fs "angular_is_degree"  in
  let au := if deg =? 0 then "rad" else "deg" in
  Some [(p ".filename", RStr fname); (p ".filepath", RStr fpath); (p ".run_id", RInt (rid - 1));
        (p ".emode", RInt emode); (p ".efix", RNum "meV" efix); (p ".en", RNum "meV" en);
        (p ".en_shape", RNum "shape" (shape_of eno));
        (p ".psi", RNum au psi); (p ".omega", RNum au omega); (p ".dpsi", RNum au dpsi);
        (p ".gl", RNum au gl); (p ".gs", RNum au gs);
        (p ".u", RNum "dimensionless" u); (p ".v", RNum "dimensionless" v)].

Definition view_exp (o : obj) : option view :=
  let* fs := struct_one o  in
  if negb (has_class fs "IX_experiment" 3 && is_ser o) then None else
  let* arr := fget fs "array_dat"  in let* runs := struct_elems arr  in
  let* rv := mapi_opt view_run 0 runs  in
  Some (("exp.n", RInt (N.of_nat (length runs))) :: rv).

(* unique_references_container 1.0 holding unique_objects_container 1.0:
   returns (stored_baseclass, global_name, the unique objects, the 1-based indices) *)
Definition unique_ref (o : obj) : option (bytes * bytes * list obj * list N) :=
  let* fs := struct_one o  in
  if negb (has_class fs "unique_references_container" 1) then None else
  let* base := s_field fs "stored_baseclass"  in let* gname := s_field fs "global_name"  in
  let* inner := fget fs "unique_objects"  in let* ifs := struct_one inner  in
  if negb (has_class ifs "unique_objects_container" 1) then None else
  let* base2 := s_field ifs "baseclass"  in
  if negb (bytes_eqb base base2) then None else
  let* co := fget ifs "unique_objects"  in let* objs := as_cell co  in
  let* io := fget ifs "idx"  in let* idxp := as_f64s io  in
  let* idx := fold_right (fun p acc => let* a := acc  in let* n := N_of_f64 p  in Some (n :: a)) (Some []) idxp  in
  Some (base, gname, objs, idx).

(* "every run references ONE shared object": one unique object, every index = 1 *)
Definition shared_flag (objs : list obj) (idx : list N) : N :=
  match objs with
  | [_] => if forallb (N.eqb 1) idx then 1 else 0
  | [] => match idx with [] => 1 | _ => 0 end
  | _ => 0
  end.

Definition view_sample_obj (pfx : string) (o : obj) : option view :=
  let* fs := struct_one o  in
  if negb (has_class fs "IX_sample" 3 && is_ser o) then None else
  let* name := s_field fs "name"  in let* al := v_field fs "alatt"  in let* an := v_field fs "angdeg"  in
  Some [(pfx ++ "name", RStr name); (pfx ++ "alatt", RNum "angstrom" al); (pfx ++ "angdeg", RNum "deg" an)].

Definition view_instrument_obj (pfx : string) (o : obj) : option view :=
  let* fs := struct_one o  in
  if negb (has_class fs "IX_null_inst" 2 && is_ser o) then None else
  let* name := s_field fs "name"  in let* so := fget fs "source"  in let* sfs := struct_one so  in
  if negb (has_class sfs "IX_source" 2 && is_ser so) then None else
  let* sn := s_field sfs "name"  in let* tn := s_field sfs "target_name"  in let* fr := v_field sfs "frequency"  in
  Some [(pfx ++ "name", RStr name); (pfx ++ "src_name", RStr sn); (pfx ++ "src_target", RStr tn);
        (pfx ++ "freq", RNum "none" fr)].

Definition view_container (pfx : string) (cls gname : string) (vobj : string -> obj -> option view) (o : obj)
  : option view :=
  let* t := unique_ref o in let '(base, gn, objs, idx) := t in
  if negb (bytes_eqb base (bs cls) && bytes_eqb gn (bs gname)) then None else
  let* first := match objs with
           | [] => Some []
           | x :: _ => vobj (pfx ++ "0.") x
           end  in
  Some ((pfx ++ "n", RInt (N.of_nat (length idx))) :: (pfx ++ "shared", RInt (shared_flag objs idx))
        :: (pfx ++ "n_unique", RInt (N.of_nat (length objs))) :: first).

Definition view_inst (o : obj) : option view :=
  view_container "inst." "IX_inst" "GLOBAL_NAME_INSTRUMENTS_CONTAINER" view_instrument_obj o.
Definition view_samp (o : obj) : option view :=
  view_container "samp." "IX_samp" "GLOBAL_NAME_SAMPLES_CONTAINER" view_sample_obj o.
Definition view_det (o : obj) : option view :=
  let* t := unique_ref o in let '(base, gn, objs, idx) := t in
  if negb (bytes_eqb base (bs "IX_detector_array") && bytes_eqb gn (bs "GLOBAL_NAME_DETECTORS_CONTAINER")) then None
  else Some [("det.n", RInt (N.of_nat (length idx))); ("det.n_unique", RInt (N.of_nat (length objs)))].

Definition multi_units : list string := ["1/angstrom"; "1/angstrom"; "1/angstrom"; "meV"].
Fixpoint each_num (pfx : string) (i : nat) (units : list string) (vals : list (list N)) : view :=
  match units, vals with
  | u :: ut, v :: vt => (idx_path pfx i "", RNum u v) :: each_num pfx (S i) ut vt
  | _, _ => []
  end.
Fixpoint each_str (pfx : string) (i : nat) (l : list obj) : option view :=
  match l with
  | [] => Some []
  | o :: t => let* s := as_str o  in let* r := each_str pfx (S i) t  in Some ((idx_path pfx i "", RStr s) :: r)
  end.
Definition singles (l : list N) : list (list N) := List.map (fun x => [x]) l.
Fixpoint pairs (l : list N) : list (list N) :=
  match l with a :: b :: t => [a; b] :: pairs t | _ => [] end.
(* the stored integers (as binary64) minus [d] *)
Definition ints_minus (d : N) (l : list N) : option (list N) :=
  fold_right (fun p acc => let* a := acc  in let* n := N_of_f64 p  in if n <? d then None else Some ((n - d) :: a)) (Some []) l.

Definition view_dnd (o : obj) : option view :=
  let* fs := struct_one o  in
  if negb (has_class fs "dnd_metadata" 1) then None else
  let* date := s_field fs "creation_date_str"  in
  let* ao := fget fs "axes"  in let* a := struct_one ao  in
  let* po := fget fs "proj"  in let* p := struct_one po  in
  if negb (has_class a "line_axes" 7 && has_class p "line_proj" 7) then None else
  let* atitle := s_field a "title"  in let* afn := s_field a "filename"  in let* afp := s_field a "filepath"  in
  let* alo := fget a "label"  in let* al := as_cell alo  in let* alv := each_str "dnd.ax.label." 0 al  in
  let* sc := v_field a "img_scales"  in let* rg := v_field a "img_range"  in let* off := v_field a "offset"  in
  let* nb := v_field a "nbins_all_dims"  in let* nbi := ints_minus 0 nb  in
  let* sbo := fget a "single_bin_defines_iax"  in let* sb := as_bools sbo  in
  let* dx := v_field a "dax"  in let* dxi := ints_minus 1 dx  in
  let* car := b_field a "changes_aspect_ratio"  in
  let* ptitle := s_field p "title"  in let* plo := fget p "label"  in let* pl := as_cell plo  in let* plv := each_str "dnd.pr.label." 0 pl  in
  let* palatt := v_field p "alatt"  in let* pang := v_field p "angdeg"  in let* poff := v_field p "offset"  in
  let* pu := v_field p "u"  in let* pv := v_field p "v"  in let* pw := v_field p "w"  in
  let* pno := b_field p "nonorthogonal"  in let* pty := s_field p "type"  in
  Some (([("dnd.date", RStr date); ("dnd.ax.title", RStr atitle); ("dnd.ax.filename", RStr afn);
         ("dnd.ax.filepath", RStr afp); ("dnd.ax.nlabel", RInt (N.of_nat (length al)))]
        ++ alv
        ++ each_num "dnd.ax.img_scales." 0 multi_units (singles sc)
        ++ each_num "dnd.ax.img_range." 0 multi_units (pairs rg)
        ++ each_num "dnd.ax.offset." 0 multi_units (singles off)
        ++ [("dnd.ax.nbins", RNum "ints" nbi); ("dnd.ax.single_bin", RNum "ints" (List.map (fun b => if b =? 0 then 0 else 1) sb));
            ("dnd.ax.dax", RNum "ints" dxi); ("dnd.ax.changes_aspect", RInt car);
            ("dnd.pr.title", RStr ptitle); ("dnd.pr.nlabel", RInt (N.of_nat (length pl)))]
        ++ plv
        ++ [("dnd.pr.alatt", RNum "angstrom" palatt); ("dnd.pr.angdeg", RNum "deg" pang)]
        ++ each_num "dnd.pr.offset." 0 multi_units (singles poff)
        ++ [("dnd.pr.u", RNum "1/angstrom" pu); ("dnd.pr.v", RNum "1/angstrom" pv);
            ("dnd.pr.has_w", RInt (match pw with [] => 0 | _ => 1 end))]
        ++ (match pw with [] => [] | _ => [("dnd.pr.w", RNum "1/angstrom" pw)] end)
        ++ [("dnd.pr.nonorth", RInt pno); ("dnd.pr.type", RStr pty)])%list).

Definition view_pix (nrows npix : N) (vals : list N) : view :=
  [("pix.shape", RNum "shape" [npix; nrows]); ("pix.f32", RU32 vals)].

Definition view_nd (v : dnd_view) : view :=
  let z := forallb (N.eqb 0) in
  [("nd.shape", RNum "shape" (dv_shape v));
   ("nd.shapes_equal", RInt 1);      (* one shape field governs all three arrays *)
   ("nd.all_zero", RInt (if z (dv_signal v) && z (dv_error v) && z (dv_npix v) then 1 else 0));
   ("nd.volume", RInt (N.of_nat (length (dv_signal v))))].

(* ------------------------------------------------------------------ whole file *)
Definition block_view (d : desc) (c : content) : res view :=
  let n1 := str_of_bytes (d_n1 d) in
  let n2 := str_of_bytes (d_n2 d) in
  let key := n1 ++ "/" ++ n2 in
  let wrap := fun (r : option view) => match r with Some v => Ok v | None => Err ("content:" ++ key) end in
  match c with
  | CPix nr np vals => if String.eqb key "pix/data_wrap" then Ok (view_pix nr np vals) else Err ("content-type:" ++ key)
  | CDnd v => if String.eqb key "data/nd_data" then Ok (view_nd v) else Err ("content-type:" ++ key)
  | CObj o =>
      if String.eqb key "/main_header" then wrap (view_main o)
      else if String.eqb key "/detpar" then wrap (view_det o)
      else if String.eqb key "data/metadata" then wrap (view_dnd o)
      else if String.eqb key "experiment_info/instruments" then wrap (view_inst o)
      else if String.eqb key "experiment_info/samples" then wrap (view_samp o)
      else if String.eqb key "experiment_info/expdata" then wrap (view_exp o)
      else if String.eqb key "pix/metadata" then wrap (view_pixmeta o)
      else Err ("content:unknown-block:" ++ key)
  end.

Fixpoint blocks_view (ds : list desc) (cs : list content) : res view :=
  match ds, cs with
  | [], [] => Ok []
  | d :: dt, c :: ct =>
      match block_view d c with
      | Err w => Err w
      | Ok v => match blocks_view dt ct with Err w => Err w | Ok r => Ok (v ++ r)%list end
      end
  | _, _ => Err "content:block-count"
  end.

Definition view_of_file (f : fileview) : res view := blocks_view (fv_descs f) (fv_blocks f).
