(* C05/NeverInf.v — "never infinite for finite inputs", in FLOATING POINT.

   The value branch of energy_transfer_{direct,indirect}_from_tof computes, in the
   dtype chosen by _common_dtype (binary64, or binary32 when energy and tof are both float32),

        delta_tof = tof - t0  (indirect: -t0 + tof, the same real number)
                                                  d  := rnd (t - t0)
        guard:   not (delta_tof <= 0)             0 < d
        delta_tof**2                              D  := rnd (d * d)
        scale / delta_tof**2                      q  := rnd (scale / D)
        E_fixed - q   (direct)  /  q - E_fixed    (indirect)

   An infinity can only come from D underflowing to 0 (division by zero) or from an
   overflow of d, D, q or of the final difference.  Both are excluded below.

   Formats: generic_format radix2 (FLT_exp emin prec) with emin = 3 - emax - prec
   (binary64: FLT_exp (-1074) 53, binary32: FLT_exp (-149) 24), i.e. WITH gradual
   underflow; rnd = round to nearest, ties to even, into that format.  Flocq's
   IEEE-754 operations (BinarySingleNaN) return a finite result exactly when the
   rounded real result is < 2^emax in magnitude; the last theorems of the file
   (..._ieee) use this to state the result on the data type with infinities and NaN. *)
From Coq Require Import Reals ZArith Lra Lia.
From Flocq Require Import Core.
From Flocq Require Import IEEE754.BinarySingleNaN.
Open Scope R_scope.

(* largest finite number of the format: (2^prec - 1) * 2^(emax - prec) *)
Definition max_finite (prec emax : Z) : R := bpow radix2 emax - bpow radix2 (emax - prec).
(* smallest positive NORMAL number of the format *)
Definition min_normal (prec emax : Z) : R := bpow radix2 (3 - emax - 1).

Section Generic.
Variables prec emax : Z.
Context (Hp : Prec_gt_0 prec) (Hpe : Prec_lt_emax prec emax).
Notation emin := (3 - emax - prec)%Z.
Notation fexp := (FLT_exp emin prec).
Notation F := (generic_format radix2 fexp).
Notation rnd := (round radix2 fexp ZnearestE).
Notation ulp := (Ulp.ulp radix2 fexp).
Notation bpow := (bpow radix2).

Lemma prec_pos : (0 < prec)%Z.
Proof using Hp. exact Hp. Qed.

Lemma F_bpow : forall e, (emin <= e)%Z -> F (bpow e).
Proof using Hp. intros e He. apply generic_format_FLT_bpow; [exact Hp | exact He]. Qed.

Lemma bpow_double : forall e, bpow (2 * e) = bpow e * bpow e.
Proof. intros e. rewrite <- bpow_plus. f_equal. lia. Qed.

Lemma bpow_le_max_finite : forall e, (e < emax)%Z -> bpow e <= max_finite prec emax.
Proof using Hp.
  intros e He. unfold max_finite. pose proof prec_pos as P.
  (* 2^e <= 2^(emax-1) = 2^emax - 2^(emax-1) <= 2^emax - 2^(emax-prec) *)
  assert (H1 : bpow e <= bpow (emax - 1)) by (apply bpow_le; lia).
  assert (H2 : bpow (emax - prec) <= bpow (emax - 1)) by (apply bpow_le; lia).
  assert (H3 : bpow emax = 2 * bpow (emax - 1)).
  { replace emax with (1 + (emax - 1))%Z at 1 by lia. rewrite bpow_plus. reflexivity. }
  lra.
Qed.

Lemma max_finite_lt : max_finite prec emax < bpow emax.
Proof. unfold max_finite. pose proof (bpow_gt_0 radix2 (emax - prec)). lra. Qed.

(* (a) the difference of two format numbers 0 <= t0 < t is at least one ulp of the smaller *)
Lemma diff_ge_ulp : forall t t0, F t -> F t0 -> 0 <= t0 -> 0 < rnd (t - t0) ->
  t0 < t /\ ulp t0 <= t - t0 /\ ulp t0 <= rnd (t - t0) /\ rnd (t - t0) <= t.
Proof using Hp.
  intros t t0 Ft Ft0 H0 Hg.
  assert (Hlt : t0 < t).
  { destruct (Rlt_or_le t0 t) as [H|H]; [exact H|]. exfalso.
    assert (rnd (t - t0) <= 0); [|lra].
    apply round_le_generic; [apply FLT_exp_valid; exact Hp | apply valid_rnd_N | apply generic_format_0 | lra]. }
  assert (Hs : succ radix2 fexp t0 <= t).
  { apply succ_le_lt; [apply FLT_exp_valid; exact Hp | exact Ft0 | exact Ft | exact Hlt]. }
  rewrite succ_eq_pos in Hs by exact H0.
  split; [exact Hlt|]. split; [lra|]. split.
  - apply round_ge_generic; [apply FLT_exp_valid; exact Hp | apply valid_rnd_N | | lra].
    apply generic_format_ulp; [apply FLT_exp_valid; exact Hp |].
    apply monotone_exp_not_FTZ; [apply FLT_exp_valid; exact Hp | apply FLT_exp_monotone].
  - apply round_le_generic; [apply FLT_exp_valid; exact Hp | apply valid_rnd_N | exact Ft | lra].
Qed.

(* ulp t0 >= 2^(mag t0 - prec) > t0 * 2^-prec *)
Lemma ulp_ge_mag : forall t0, 0 < t0 -> bpow (mag radix2 t0 - prec) <= ulp t0.
Proof.
  intros t0 H0. rewrite ulp_neq_0 by lra. apply bpow_le. unfold cexp, FLT_exp. lia.
Qed.

(* (b), (c), (d): from a power-of-two window on d *)
Lemma core : forall g e2 s e4 e6 d scale E,
  (emin <= 2 * g)%Z -> (emin <= 2 * e2)%Z -> (emin <= s - 2 * g)%Z ->
  (e4 < e6)%Z -> (s - 2 * g < e6)%Z -> (emin <= e6)%Z ->
  bpow g <= d -> d <= bpow e2 -> 0 <= scale -> scale <= bpow s -> Rabs E <= bpow e4 ->
  let D := rnd (d * d) in let q := rnd (scale / D) in
  bpow (2 * g) <= D /\ D <= bpow (2 * e2) /\ 0 <= q /\ q <= bpow (s - 2 * g)
  /\ Rabs (rnd (E - q)) <= bpow e6 /\ Rabs (rnd (q - E)) <= bpow e6.
Proof using Hp.
  intros g e2 s e4 e6 d scale E Z1 Z2 Z3 Z4 Z5 Z6 Hd1 Hd2 Hs0 Hs HE D q.
  assert (V : Valid_exp fexp) by (apply FLT_exp_valid; exact Hp).
  pose proof (bpow_gt_0 radix2 g) as Pg.
  assert (HD1 : bpow (2 * g) <= D).
  { apply round_ge_generic; [exact V | apply valid_rnd_N | apply F_bpow; exact Z1 |].
    rewrite bpow_double. apply Rmult_le_compat; lra. }
  assert (HD2 : D <= bpow (2 * e2)).
  { apply round_le_generic; [exact V | apply valid_rnd_N | apply F_bpow; exact Z2 |].
    rewrite bpow_double. apply Rmult_le_compat; lra. }
  pose proof (bpow_gt_0 radix2 (2 * g)) as P2g.
  assert (Hq0 : 0 <= q).
  { apply round_ge_generic; [exact V | apply valid_rnd_N | apply generic_format_0 |].
    apply Rmult_le_pos; [exact Hs0 | apply Rlt_le, Rinv_0_lt_compat; lra]. }
  assert (Hq1 : q <= bpow (s - 2 * g)).
  { apply round_le_generic; [exact V | apply valid_rnd_N | apply F_bpow; exact Z3 |].
    unfold Z.sub. rewrite bpow_plus, bpow_opp. unfold Rdiv.
    apply Rmult_le_compat; [exact Hs0 | apply Rlt_le, Rinv_0_lt_compat; lra | exact Hs |].
    apply Rinv_le; lra. }
  assert (Hsum : bpow e4 + bpow (s - 2 * g) <= bpow e6).
  { assert (bpow e4 <= bpow (e6 - 1)) by (apply bpow_le; lia).
    assert (bpow (s - 2 * g) <= bpow (e6 - 1)) by (apply bpow_le; lia).
    replace e6 with (1 + (e6 - 1))%Z at 1 by lia. rewrite bpow_plus. change (bpow 1) with 2. lra. }
  repeat split; try assumption.
  - apply abs_round_le_generic; [exact V | apply valid_rnd_N | apply F_bpow; exact Z6 |].
    apply Rabs_le. apply Rabs_le_inv in HE. lra.
  - apply abs_round_le_generic; [exact V | apply valid_rnd_N | apply F_bpow; exact Z6 |].
    apply Rabs_le. apply Rabs_le_inv in HE. lra.
Qed.

(* ---- the statement with ABSOLUTE magnitude bounds:  2^-e1 <= t0,  t <= 2^e2,  0 <= scale <= 2^e3,  |E| <= 2^e4 ---- *)
Theorem never_infinite_abs : forall e1 e2 e3 e4 e6 t t0 scale E,
  (emin + prec - 1 <= 2 * (1 - e1 - prec))%Z -> (2 * e2 < emax)%Z -> (emin <= 2 * e2)%Z ->
  (emin <= e3 + 2 * (e1 + prec - 1))%Z ->
  (e4 < e6)%Z -> (e3 + 2 * (e1 + prec - 1) < e6)%Z -> (e6 < emax)%Z ->
  F t -> F t0 -> bpow (- e1) <= t0 -> t <= bpow e2 ->
  0 <= scale -> scale <= bpow e3 -> Rabs E <= bpow e4 ->
  let d := rnd (t - t0) in
  0 < d ->                                            (* the kernel's guard: not (delta_tof <= 0) *)
  let D := rnd (d * d) in let q := rnd (scale / D) in
  (ulp t0 <= d /\ bpow (1 - e1 - prec) <= d /\ d <= bpow e2)                                (* (a) *)
  /\ (min_normal prec emax <= D /\ D <= bpow (2 * e2) /\ bpow (2 * e2) <= max_finite prec emax)  (* (b) *)
  /\ (0 <= q /\ q <= bpow (e3 + 2 * (e1 + prec - 1)))                                        (* (c) *)
  /\ (Rabs (rnd (E - q)) <= bpow e6 /\ Rabs (rnd (q - E)) <= bpow e6                        (* result *)
      /\ bpow e6 <= max_finite prec emax).
Proof using Hp.
  intros e1 e2 e3 e4 e6 t t0 scale E Z1 Z2 Z2' Z3 Z4 Z5 Z6 Ft Ft0 Ht0 Ht Hs0 Hs HE d Hg D q.
  pose proof prec_pos as P.
  pose proof (bpow_gt_0 radix2 (- e1)) as Pe.
  destruct (diff_ge_ulp t t0 Ft Ft0 ltac:(lra) Hg) as (Hlt & _ & Hu & Hdt).
  assert (Hm : (1 - e1 <= mag radix2 t0)%Z).
  { apply mag_ge_bpow. replace (1 - e1 - 1)%Z with (- e1)%Z by lia. rewrite Rabs_pos_eq; lra. }
  assert (Hdg : bpow (1 - e1 - prec) <= d).
  { apply Rle_trans with (2 := Hu). apply Rle_trans with (2 := ulp_ge_mag t0 ltac:(lra)). apply bpow_le. lia. }
  assert (Hd2 : d <= bpow e2) by (unfold d; lra).
  destruct (core (1 - e1 - prec) e2 e3 e4 e6 d scale E ltac:(lia) ltac:(lia) ltac:(lia) ltac:(lia) ltac:(lia) ltac:(lia)
              Hdg Hd2 Hs0 Hs HE) as (A & B & C & C' & R1 & R2).
  fold D in A, B. fold q in C, C', R1, R2.
  replace (e3 - 2 * (1 - e1 - prec))%Z with (e3 + 2 * (e1 + prec - 1))%Z in C' by lia.
  repeat split; try assumption; try lra.
  - apply Rle_trans with (2 := A). unfold min_normal. apply bpow_le. lia.
  - apply bpow_le_max_finite. exact Z2.
  - apply bpow_le_max_finite. exact Z6.
Qed.

(* ---- the statement with a RELATIVE bound on scale:  scale <= 2^k * t0^2.
   Over the reals scale = E_fixed * (L_free / L_fixed)^2 * t0^2, so k bounds the numerical
   value of E_fixed * (L_free/L_fixed)^2; this form does not mix the worst cases of
   different unit choices and is the one that also holds in binary32. ---- *)
Theorem never_infinite_rel : forall e1 e2 k e4 e6 t t0 scale E,
  (emin + prec - 1 <= 2 * (1 - e1 - prec))%Z -> (2 * e2 < emax)%Z -> (emin <= 2 * e2)%Z ->
  (emin <= k + 2 * prec)%Z ->
  (e4 < e6)%Z -> (k + 2 * prec < e6)%Z -> (e6 < emax)%Z ->
  F t -> F t0 -> bpow (- e1) <= t0 -> t <= bpow e2 ->
  0 <= scale -> scale <= bpow k * (t0 * t0) -> Rabs E <= bpow e4 ->
  let d := rnd (t - t0) in
  0 < d ->
  let D := rnd (d * d) in let q := rnd (scale / D) in
  (ulp t0 <= d /\ t0 * bpow (- prec) < d /\ d <= bpow e2)
  /\ (min_normal prec emax <= D /\ D <= bpow (2 * e2) /\ bpow (2 * e2) <= max_finite prec emax)
  /\ (0 <= q /\ q <= bpow (k + 2 * prec))
  /\ (Rabs (rnd (E - q)) <= bpow e6 /\ Rabs (rnd (q - E)) <= bpow e6
      /\ bpow e6 <= max_finite prec emax).
Proof using Hp.
  intros e1 e2 k e4 e6 t t0 scale E Z1 Z2 Z2' Z3 Z4 Z5 Z6 Ft Ft0 Ht0 Ht Hs0 Hs HE d Hg D q.
  pose proof prec_pos as P.
  pose proof (bpow_gt_0 radix2 (- e1)) as Pe.
  assert (T0 : 0 < t0) by lra.
  destruct (diff_ge_ulp t t0 Ft Ft0 ltac:(lra) Hg) as (Hlt & _ & Hu & Hdt).
  set (m := mag radix2 t0).
  assert (Hm : (1 - e1 <= m)%Z).
  { apply mag_ge_bpow. replace (1 - e1 - 1)%Z with (- e1)%Z by lia. rewrite Rabs_pos_eq; lra. }
  assert (Hdg : bpow (m - prec) <= d).
  { apply Rle_trans with (2 := Hu). apply ulp_ge_mag. exact T0. }
  assert (Hm2 : t0 < bpow m).
  { pose proof (bpow_mag_gt radix2 t0) as H. rewrite Rabs_pos_eq in H by lra. exact H. }
  assert (Hsc : scale <= bpow (k + 2 * m)).
  { apply Rle_trans with (1 := Hs). rewrite bpow_plus, bpow_double.
    pose proof (bpow_gt_0 radix2 k). apply Rmult_le_compat_l; [lra|].
    apply Rmult_le_compat; lra. }
  assert (Hd2 : d <= bpow e2) by (unfold d; lra).
  destruct (core (m - prec) e2 (k + 2 * m) e4 e6 d scale E ltac:(lia) ltac:(lia) ltac:(lia) ltac:(lia) ltac:(lia) ltac:(lia)
              Hdg Hd2 Hs0 Hsc HE) as (A & B & C & C' & R1 & R2).
  fold D in A, B. fold q in C, C', R1, R2.
  replace (k + 2 * m - 2 * (m - prec))%Z with (k + 2 * prec)%Z in C' by lia.
  repeat split; try assumption; try lra.
  - apply Rlt_le_trans with (2 := Hdg). unfold Z.sub. rewrite bpow_plus.
    apply Rmult_lt_compat_r; [apply bpow_gt_0 | exact Hm2].
  - apply Rle_trans with (2 := A). unfold min_normal. apply bpow_le. lia.
  - apply bpow_le_max_finite. exact Z2.
  - apply bpow_le_max_finite. exact Z6.
Qed.

End Generic.

(* ---------------------------------------------------------------------------------------
   The same chain on Flocq's IEEE-754 data type (finite numbers, signed zeros, infinities,
   NaN): every operation of the value branch returns a FINITE number.
   --------------------------------------------------------------------------------------- *)
Section IEEE.
Variables prec emax : Z.
Context (Hp : Prec_gt_0 prec) (Hpe : Prec_lt_emax prec emax).
Notation bf := (binary_float prec emax).
Notation fexp := (FLT_exp (3 - emax - prec) prec).
Notation rnd := (round radix2 fexp ZnearestE).
Notation bpow := (bpow radix2).

Lemma Bminus_fin : forall x y : bf, is_finite x = true -> is_finite y = true ->
  Rabs (rnd (B2R x - B2R y)) < bpow emax ->
  B2R (Bminus mode_NE x y) = rnd (B2R x - B2R y) /\ is_finite (Bminus mode_NE x y) = true.
Proof using Hp Hpe.
  intros x y Fx Fy H. generalize (Bminus_correct prec emax Hp Hpe mode_NE x y Fx Fy).
  change (round_mode mode_NE) with ZnearestE. change (SpecFloat.fexp prec emax) with fexp.
  rewrite Rlt_bool_true by exact H. intros (A & B & _). split; assumption.
Qed.

(* the guard alone already excludes an overflow of the subtraction (an infinity has B2R = 0) *)
Lemma Bminus_pos : forall x y : bf, is_finite x = true -> is_finite y = true ->
  0 < B2R (Bminus mode_NE x y) ->
  B2R (Bminus mode_NE x y) = rnd (B2R x - B2R y) /\ is_finite (Bminus mode_NE x y) = true.
Proof using Hp Hpe.
  intros x y Fx Fy H. generalize (Bminus_correct prec emax Hp Hpe mode_NE x y Fx Fy).
  change (round_mode mode_NE) with ZnearestE. change (SpecFloat.fexp prec emax) with fexp.
  case Rlt_bool.
  - intros (A & B & _). split; assumption.
  - intros (A & _). exfalso. rewrite <- SF2R_B2SF in H. rewrite A in H.
    unfold binary_overflow in H. simpl in H. lra.
Qed.

(* the indirect kernel writes  delta_tof = -t0 + tof *)
Lemma Bplus_opp_pos : forall x y : bf, is_finite x = true -> is_finite y = true ->
  0 < B2R (Bplus mode_NE (Bopp y) x) ->
  B2R (Bplus mode_NE (Bopp y) x) = rnd (B2R x - B2R y) /\ is_finite (Bplus mode_NE (Bopp y) x) = true.
Proof using Hp Hpe.
  intros x y Fx Fy H.
  assert (Fy' : is_finite (Bopp y) = true) by (rewrite is_finite_Bopp; exact Fy).
  generalize (Bplus_correct prec emax Hp Hpe mode_NE (Bopp y) x Fy' Fx).
  change (round_mode mode_NE) with ZnearestE. change (SpecFloat.fexp prec emax) with fexp.
  rewrite B2R_Bopp. replace (- B2R y + B2R x) with (B2R x - B2R y) by ring.
  case Rlt_bool.
  - intros (A & B & _). split; assumption.
  - intros (A & _). exfalso. rewrite <- SF2R_B2SF in H. rewrite A in H.
    unfold binary_overflow in H. simpl in H. lra.
Qed.

Lemma Bmult_fin : forall x y : bf, is_finite x = true -> is_finite y = true ->
  Rabs (rnd (B2R x * B2R y)) < bpow emax ->
  B2R (Bmult mode_NE x y) = rnd (B2R x * B2R y) /\ is_finite (Bmult mode_NE x y) = true.
Proof using Hp Hpe.
  intros x y Fx Fy H. generalize (Bmult_correct prec emax Hp Hpe mode_NE x y).
  change (round_mode mode_NE) with ZnearestE. change (SpecFloat.fexp prec emax) with fexp.
  rewrite Rlt_bool_true by exact H. rewrite Fx, Fy. intros (A & B & _). split; assumption.
Qed.

Lemma Bdiv_fin : forall x y : bf, is_finite x = true -> B2R y <> 0 ->
  Rabs (rnd (B2R x / B2R y)) < bpow emax ->
  B2R (Bdiv mode_NE x y) = rnd (B2R x / B2R y) /\ is_finite (Bdiv mode_NE x y) = true.
Proof using Hp Hpe.
  intros x y Fx Hy H. generalize (Bdiv_correct prec emax Hp Hpe mode_NE x y Hy).
  change (round_mode mode_NE) with ZnearestE. change (SpecFloat.fexp prec emax) with fexp.
  rewrite Rlt_bool_true by exact H. rewrite Fx. intros (A & B & _). split; assumption.
Qed.

Lemma ieee_chain : forall t t0 scale E d : bf,
  is_finite scale = true -> is_finite E = true ->
  let dr := rnd (B2R t - B2R t0) in let Dr := rnd (dr * dr) in let qr := rnd (B2R scale / Dr) in
  (0 < B2R d -> B2R d = dr /\ is_finite d = true) ->
  0 < B2R d ->
  (0 < dr -> 0 < Dr /\ Dr < bpow emax /\ Rabs qr < bpow emax
             /\ Rabs (rnd (B2R E - qr)) < bpow emax /\ Rabs (rnd (qr - B2R E)) < bpow emax) ->
  let D := Bmult mode_NE d d in let q := Bdiv mode_NE scale D in
  is_finite d = true /\ is_finite D = true /\ 0 < B2R D /\ is_finite q = true
  /\ is_finite (Bminus mode_NE E q) = true /\ is_finite (Bminus mode_NE q E) = true.
Proof using Hp Hpe.
  intros t t0 scale E d Fs FE dr Dr qr Hdd Hg H D q.
  destruct (Hdd Hg) as (Hd & Fd).
  rewrite Hd in Hg. destruct (H Hg) as (HD0 & HD1 & Hq & R1 & R2).
  destruct (Bmult_fin d d Fd Fd) as (HD & FD).
  { rewrite Hd. fold Dr. rewrite Rabs_pos_eq; lra. }
  fold D in HD, FD. rewrite Hd in HD. fold Dr in HD.
  destruct (Bdiv_fin scale D Fs) as (Hqq & Fq).
  { rewrite HD. lra. }
  { rewrite HD. exact Hq. }
  fold q in Hqq, Fq. rewrite HD in Hqq. fold qr in Hqq.
  destruct (Bminus_fin E q FE Fq) as (_ & F1). { rewrite Hqq. exact R1. }
  destruct (Bminus_fin q E Fq FE) as (_ & F2). { rewrite Hqq. exact R2. }
  rewrite HD. repeat split; assumption.
Qed.

End IEEE.

(* =======================================================================================
   binary64 and binary32 instances.

   Magnitudes (numerical values in the kernel's internal units, for the property's range
   Ei, Ef in 1e-3..1e4 meV, L1, L2 in 0.1..1e3 m, energies written in micro-eV..J,
   lengths in mm..km, times in ns..s):
     t0    = L_fixed * sqrt(m_n / (2 E_fixed))  is between 2.286e-6 s and 72.3 s, i.e. its
             numerical value is between 2.286e-6 (unit s) and 7.23e10 (unit ns):
             2^-20 < 2^-19 < 2.286e-6 <= t0;
     t     : arrival times up to 1e6 times the longest flight time: t <= 2^60 (1.15e18);
     scale = (m_n/2) L_free^2 in [energy unit]*[time unit]^2 is between 8.4e-30 (J s^2)
             and 5.23e21 (micro-eV ns^2): scale <= 2^73;
     E     : at most 1e7 (1e4 meV written in micro-eV): |E| <= 2^30;
     scale / t0^2 = E_fixed * (L_free/L_fixed)^2 (exactly, over the reals) <= 1e7 * 1e8
             = 1e15 < 2^50; measured maximum on the implementation (float32 and float64,
             all unit combinations, corner values): 1.0000002e15; we assume 2^52.
   ======================================================================================= *)
Definition fexp64 := FLT_exp (-1074) 53.
Definition F64 (x : R) : Prop := generic_format radix2 fexp64 x.
Definition rnd64 (x : R) : R := round radix2 fexp64 ZnearestE x.
Definition fexp32 := FLT_exp (-149) 24.
Definition F32 (x : R) : Prop := generic_format radix2 fexp32 x.
Definition rnd32 (x : R) : R := round radix2 fexp32 ZnearestE x.
Definition b64 := binary_float 53 1024.
Definition b32 := binary_float 24 128.

#[export] Instance prec53 : Prec_gt_0 53. Proof. red. lia. Qed.
#[export] Instance prec24 : Prec_gt_0 24. Proof. red. lia. Qed.
#[export] Instance pe64 : Prec_lt_emax 53 1024. Proof. red. lia. Qed.
#[export] Instance pe32 : Prec_lt_emax 24 128. Proof. red. lia. Qed.

(* --- binary64, absolute bounds --- *)
Theorem never_infinite_binary64 : forall t t0 scale E : R,
  F64 t -> F64 t0 ->
  bpow radix2 (-20) <= t0 -> t <= bpow radix2 60 ->
  0 <= scale -> scale <= bpow radix2 73 -> Rabs E <= bpow radix2 30 ->
  let d := rnd64 (t - t0) in
  0 < d ->
  let D := rnd64 (d * d) in let q := rnd64 (scale / D) in
  (ulp radix2 fexp64 t0 <= d /\ bpow radix2 (-72) <= d /\ d <= bpow radix2 60)
  /\ (min_normal 53 1024 <= D /\ D <= bpow radix2 120 /\ bpow radix2 120 <= max_finite 53 1024)
  /\ (0 <= q /\ q <= bpow radix2 217)
  /\ (Rabs (rnd64 (E - q)) <= bpow radix2 218 /\ Rabs (rnd64 (q - E)) <= bpow radix2 218
      /\ bpow radix2 218 <= max_finite 53 1024).
Proof.
  intros t t0 scale E Ft Ft0 H0 Ht Hs0 Hs HE.
  exact (never_infinite_abs 53 1024 prec53 20 60 73 30 218 t t0 scale E
           ltac:(lia) ltac:(lia) ltac:(lia) ltac:(lia) ltac:(lia) ltac:(lia) ltac:(lia) Ft Ft0 H0 Ht Hs0 Hs HE).
Qed.

(* --- binary64 / binary32, relative bound on scale --- *)
Theorem never_infinite_binary64_rel : forall t t0 scale E : R,
  F64 t -> F64 t0 ->
  bpow radix2 (-20) <= t0 -> t <= bpow radix2 60 ->
  0 <= scale -> scale <= bpow radix2 52 * (t0 * t0) -> Rabs E <= bpow radix2 30 ->
  let d := rnd64 (t - t0) in
  0 < d ->
  let D := rnd64 (d * d) in let q := rnd64 (scale / D) in
  (ulp radix2 fexp64 t0 <= d /\ t0 * bpow radix2 (-53) < d /\ d <= bpow radix2 60)
  /\ (min_normal 53 1024 <= D /\ D <= bpow radix2 120 /\ bpow radix2 120 <= max_finite 53 1024)
  /\ (0 <= q /\ q <= bpow radix2 158)
  /\ (Rabs (rnd64 (E - q)) <= bpow radix2 159 /\ Rabs (rnd64 (q - E)) <= bpow radix2 159
      /\ bpow radix2 159 <= max_finite 53 1024).
Proof.
  intros t t0 scale E Ft Ft0 H0 Ht Hs0 Hs HE.
  exact (never_infinite_rel 53 1024 prec53 20 60 52 30 159 t t0 scale E
           ltac:(lia) ltac:(lia) ltac:(lia) ltac:(lia) ltac:(lia) ltac:(lia) ltac:(lia) Ft Ft0 H0 Ht Hs0 Hs HE).
Qed.

Theorem never_infinite_binary32 : forall t t0 scale E : R,
  F32 t -> F32 t0 ->
  bpow radix2 (-20) <= t0 -> t <= bpow radix2 60 ->
  0 <= scale -> scale <= bpow radix2 52 * (t0 * t0) -> Rabs E <= bpow radix2 30 ->
  let d := rnd32 (t - t0) in
  0 < d ->
  let D := rnd32 (d * d) in let q := rnd32 (scale / D) in
  (ulp radix2 fexp32 t0 <= d /\ t0 * bpow radix2 (-24) < d /\ d <= bpow radix2 60)
  /\ (min_normal 24 128 <= D /\ D <= bpow radix2 120 /\ bpow radix2 120 <= max_finite 24 128)
  /\ (0 <= q /\ q <= bpow radix2 100)
  /\ (Rabs (rnd32 (E - q)) <= bpow radix2 101 /\ Rabs (rnd32 (q - E)) <= bpow radix2 101
      /\ bpow radix2 101 <= max_finite 24 128).
Proof.
  intros t t0 scale E Ft Ft0 H0 Ht Hs0 Hs HE.
  exact (never_infinite_rel 24 128 prec24 20 60 52 30 101 t t0 scale E
           ltac:(lia) ltac:(lia) ltac:(lia) ltac:(lia) ltac:(lia) ltac:(lia) ltac:(lia) Ft Ft0 H0 Ht Hs0 Hs HE).
Qed.

(* --- the same on the IEEE-754 data types --- *)
Lemma min_normal_pos : forall prec emax, 0 < min_normal prec emax.
Proof. intros. apply bpow_gt_0. Qed.

Theorem never_infinite_binary64_ieee : forall t t0 scale E : b64,
  is_finite t = true -> is_finite t0 = true -> is_finite scale = true -> is_finite E = true ->
  bpow radix2 (-20) <= B2R t0 -> B2R t <= bpow radix2 60 ->
  0 <= B2R scale -> B2R scale <= bpow radix2 73 -> Rabs (B2R E) <= bpow radix2 30 ->
  (* direct kernel:  delta_tof = tof - t0;  incident_energy - scale / delta_tof**2 *)
  (let d := Bminus mode_NE t t0 in
   0 < B2R d ->
   let D := Bmult mode_NE d d in let q := Bdiv mode_NE scale D in
   is_finite d = true /\ is_finite D = true /\ 0 < B2R D /\ is_finite q = true
   /\ is_finite (Bminus mode_NE E q) = true)
  /\
  (* indirect kernel:  delta_tof = -t0 + tof;  scale / delta_tof**2 - final_energy *)
  (let d := Bplus mode_NE (Bopp t0) t in
   0 < B2R d ->
   let D := Bmult mode_NE d d in let q := Bdiv mode_NE scale D in
   is_finite d = true /\ is_finite D = true /\ 0 < B2R D /\ is_finite q = true
   /\ is_finite (Bminus mode_NE q E) = true).
Proof.
  intros t t0 scale E Ft Ft0 Fs FE H0 Ht Hs0 Hs HE.
  assert (K : forall d : b64, (0 < B2R d -> B2R d = rnd64 (B2R t - B2R t0) /\ is_finite d = true) -> 0 < B2R d ->
    let D := Bmult mode_NE d d in let q := Bdiv mode_NE scale D in
    is_finite d = true /\ is_finite D = true /\ 0 < B2R D /\ is_finite q = true
    /\ is_finite (Bminus mode_NE E q) = true /\ is_finite (Bminus mode_NE q E) = true).
  { intros d Hdd Hg.
    apply (ieee_chain 53 1024 prec53 pe64 t t0 scale E d Fs FE Hdd Hg).
    intros Hdr.
    destruct (never_infinite_binary64 (B2R t) (B2R t0) (B2R scale) (B2R E)
                (generic_format_B2R 53 1024 t) (generic_format_B2R 53 1024 t0) H0 Ht Hs0 Hs HE Hdr)
      as (_ & (B1 & B2 & B3) & (C1 & C2) & (R1 & R2 & R3)).
    pose proof (min_normal_pos 53 1024). pose proof (max_finite_lt 53 1024).
    assert (bpow radix2 217 <= bpow radix2 218) by (apply bpow_le; lia).
    unfold rnd64, fexp64 in *.
    change (3 - 1024 - 53)%Z with (-1074)%Z.
    repeat split; try lra. rewrite Rabs_pos_eq; lra. }
  split.
  - intros d Hg. destruct (K d (Bminus_pos 53 1024 prec53 pe64 t t0 Ft Ft0) Hg) as (A & B & C & D' & R1 & _).
    repeat split; assumption.
  - intros d Hg. destruct (K d (Bplus_opp_pos 53 1024 prec53 pe64 t t0 Ft Ft0) Hg) as (A & B & C & D' & _ & R2).
    repeat split; assumption.
Qed.

Theorem never_infinite_binary32_ieee : forall t t0 scale E : b32,
  is_finite t = true -> is_finite t0 = true -> is_finite scale = true -> is_finite E = true ->
  bpow radix2 (-20) <= B2R t0 -> B2R t <= bpow radix2 60 ->
  0 <= B2R scale -> B2R scale <= bpow radix2 52 * (B2R t0 * B2R t0) -> Rabs (B2R E) <= bpow radix2 30 ->
  (* direct kernel:  delta_tof = tof - t0;  incident_energy - scale / delta_tof**2 *)
  (let d := Bminus mode_NE t t0 in
   0 < B2R d ->
   let D := Bmult mode_NE d d in let q := Bdiv mode_NE scale D in
   is_finite d = true /\ is_finite D = true /\ 0 < B2R D /\ is_finite q = true
   /\ is_finite (Bminus mode_NE E q) = true)
  /\
  (* indirect kernel:  delta_tof = -t0 + tof;  scale / delta_tof**2 - final_energy *)
  (let d := Bplus mode_NE (Bopp t0) t in
   0 < B2R d ->
   let D := Bmult mode_NE d d in let q := Bdiv mode_NE scale D in
   is_finite d = true /\ is_finite D = true /\ 0 < B2R D /\ is_finite q = true
   /\ is_finite (Bminus mode_NE q E) = true).
Proof.
  intros t t0 scale E Ft Ft0 Fs FE H0 Ht Hs0 Hs HE.
  assert (K : forall d : b32, (0 < B2R d -> B2R d = rnd32 (B2R t - B2R t0) /\ is_finite d = true) -> 0 < B2R d ->
    let D := Bmult mode_NE d d in let q := Bdiv mode_NE scale D in
    is_finite d = true /\ is_finite D = true /\ 0 < B2R D /\ is_finite q = true
    /\ is_finite (Bminus mode_NE E q) = true /\ is_finite (Bminus mode_NE q E) = true).
  { intros d Hdd Hg.
    apply (ieee_chain 24 128 prec24 pe32 t t0 scale E d Fs FE Hdd Hg).
    intros Hdr.
    destruct (never_infinite_binary32 (B2R t) (B2R t0) (B2R scale) (B2R E)
                (generic_format_B2R 24 128 t) (generic_format_B2R 24 128 t0) H0 Ht Hs0 Hs HE Hdr)
      as (_ & (B1 & B2 & B3) & (C1 & C2) & (R1 & R2 & R3)).
    pose proof (min_normal_pos 24 128). pose proof (max_finite_lt 24 128).
    assert (bpow radix2 100 <= bpow radix2 101) by (apply bpow_le; lia).
    unfold rnd32, fexp32 in *.
    change (3 - 128 - 24)%Z with (-149)%Z.
    repeat split; try lra. rewrite Rabs_pos_eq; lra. }
  split.
  - intros d Hg. destruct (K d (Bminus_pos 24 128 prec24 pe32 t t0 Ft Ft0) Hg) as (A & B & C & D' & R1 & _).
    repeat split; assumption.
  - intros d Hg. destruct (K d (Bplus_opp_pos 24 128 prec24 pe32 t t0 Ft Ft0) Hg) as (A & B & C & D' & _ & R2).
    repeat split; assumption.
Qed.

(* --- with ABSOLUTE bounds (worst cases of different unit choices combined) binary32 is not enough:
   t0 = 2^-20, t = t0 + 2^-43 (its successor), scale = 2^73 satisfy the hypotheses of
   never_infinite_binary64 but scale/d^2 = 2^159 >= 2^128.  These numbers are NOT in the property's
   range (t0 = 2^-20 needs the unit s, scale = 2^73 the units micro-eV and ns); this only shows why the
   binary32 theorem carries the relative hypothesis scale <= 2^52 * t0^2. --- *)
Lemma binary32_absolute_bounds_insufficient : exists t t0 scale E : R,
  F32 t /\ F32 t0 /\ bpow radix2 (-20) <= t0 /\ t <= bpow radix2 60 /\
  0 <= scale /\ scale <= bpow radix2 73 /\ Rabs E <= bpow radix2 30 /\
  0 < rnd32 (t - t0) /\
  bpow radix2 128 <= rnd32 (scale / rnd32 (rnd32 (t - t0) * rnd32 (t - t0))).
Proof.
  exists (bpow radix2 (-20) + bpow radix2 (-43)), (bpow radix2 (-20)), (bpow radix2 73), 0.
  assert (Fb : forall e, (-149 <= e)%Z -> F32 (bpow radix2 e)).
  { intros e He. apply generic_format_FLT_bpow; [exact prec24 | exact He]. }
  assert (Rb : forall e, (-149 <= e)%Z -> rnd32 (bpow radix2 e) = bpow radix2 e).
  { intros e He. apply round_generic; [apply valid_rnd_N | apply Fb; exact He]. }
  assert (Hd : bpow radix2 (-20) + bpow radix2 (-43) - bpow radix2 (-20) = bpow radix2 (-43)) by ring.
  rewrite Hd, Rb by lia. rewrite <- bpow_plus, Rb by lia.
  unfold Rdiv. rewrite <- bpow_opp, <- bpow_plus, Rb by lia.
  pose proof (bpow_gt_0 radix2 (-43)). pose proof (bpow_gt_0 radix2 (-20)). pose proof (bpow_gt_0 radix2 73).
  repeat split; try lra.
  - apply generic_format_FLT. exists (Float radix2 8388609 (-43)).
    + unfold F2R. cbn [Fnum Fexp].
      replace (bpow radix2 (-20)) with (bpow radix2 23 * bpow radix2 (-43)) by (rewrite <- bpow_plus; f_equal).
      change (bpow radix2 23) with 8388608. lra.
    + vm_compute. reflexivity.
    + cbn [Fexp]. lia.
  - apply Fb. lia.
  - assert (bpow radix2 (-43) <= bpow radix2 (-20)) by (apply bpow_le; lia).
    assert (bpow radix2 (-20) <= bpow radix2 59) by (apply bpow_le; lia).
    assert (bpow radix2 60 = 2 * bpow radix2 59) by (replace 60%Z with (1 + 59)%Z by lia; rewrite bpow_plus; reflexivity).
    lra.
  - rewrite Rabs_R0. apply Rlt_le, bpow_gt_0.
  - apply bpow_le. lia.
Qed.

(* --- non-vacuity: t0 = 4096, t = 4096.5, scale = 2^40, E = 16 (e.g. micro-seconds, meV) satisfy
   all hypotheses (absolute and relative) in both formats; the guard holds: rnd (t - t0) = 1/2 --- *)
Lemma example_generic : forall prec emin, Prec_gt_0 prec -> (14 <= prec)%Z -> (emin <= -1)%Z ->
  let F := generic_format radix2 (FLT_exp emin prec) in
  let rnd := round radix2 (FLT_exp emin prec) ZnearestE in
  let t := bpow radix2 12 + bpow radix2 (-1) in let t0 := bpow radix2 12 in
  let scale := bpow radix2 40 in let E := bpow radix2 4 in
  F t /\ F t0 /\ bpow radix2 (-20) <= t0 /\ t <= bpow radix2 60 /\
  0 <= scale /\ scale <= bpow radix2 73 /\ scale <= bpow radix2 52 * (t0 * t0) /\
  Rabs E <= bpow radix2 30 /\ 0 < rnd (t - t0).
Proof.
  intros prec emin Hp H14 Hemin F rnd t t0 scale E.
  assert (Fb : forall e, (emin <= e)%Z -> F (bpow radix2 e)).
  { intros e He. apply generic_format_FLT_bpow; [exact Hp | exact He]. }
  assert (L : forall a b, (a <= b)%Z -> bpow radix2 a <= bpow radix2 b) by (intros; apply bpow_le; assumption).
  repeat split.
  - apply generic_format_FLT. exists (Float radix2 8193 (-1)).
    + unfold F2R, t. cbn [Fnum Fexp].
      replace (bpow radix2 12) with (bpow radix2 13 * bpow radix2 (-1)) by (rewrite <- bpow_plus; f_equal).
      change (bpow radix2 13) with 8192. lra.
    + cbn [Fnum]. apply Z.lt_le_trans with (2 ^ 14)%Z; [reflexivity |].
      change (2 ^ 14 <= 2 ^ prec)%Z. apply Z.pow_le_mono_r; lia.
    + cbn [Fexp]. exact Hemin.
  - apply Fb. lia.
  - apply L. lia.
  - unfold t. pose proof (L (-1)%Z 12%Z ltac:(lia)). pose proof (L 12%Z 59%Z ltac:(lia)).
    assert (bpow radix2 60 = 2 * bpow radix2 59) by (replace 60%Z with (1 + 59)%Z by lia; rewrite bpow_plus; reflexivity).
    lra.
  - apply Rlt_le, bpow_gt_0.
  - apply L. lia.
  - unfold scale, t0. rewrite <- !bpow_plus. apply L. lia.
  - unfold E. rewrite Rabs_pos_eq by (apply Rlt_le, bpow_gt_0). apply L. lia.
  - unfold t, t0. replace (bpow radix2 12 + bpow radix2 (-1) - bpow radix2 12) with (bpow radix2 (-1)) by ring.
    unfold rnd. rewrite round_generic; [apply bpow_gt_0 | apply valid_rnd_N | apply Fb; exact Hemin].
Qed.

Example never_infinite_binary64_nonvacuous : exists t t0 scale E : R,
  F64 t /\ F64 t0 /\ bpow radix2 (-20) <= t0 /\ t <= bpow radix2 60 /\
  0 <= scale /\ scale <= bpow radix2 73 /\ scale <= bpow radix2 52 * (t0 * t0) /\
  Rabs E <= bpow radix2 30 /\ 0 < rnd64 (t - t0).
Proof.
  exists (bpow radix2 12 + bpow radix2 (-1)), (bpow radix2 12), (bpow radix2 40), (bpow radix2 4).
  exact (example_generic 53 (-1074) prec53 ltac:(lia) ltac:(lia)).
Qed.

Example never_infinite_binary32_nonvacuous : exists t t0 scale E : R,
  F32 t /\ F32 t0 /\ bpow radix2 (-20) <= t0 /\ t <= bpow radix2 60 /\
  0 <= scale /\ scale <= bpow radix2 52 * (t0 * t0) /\
  Rabs E <= bpow radix2 30 /\ 0 < rnd32 (t - t0).
Proof.
  exists (bpow radix2 12 + bpow radix2 (-1)), (bpow radix2 12), (bpow radix2 40), (bpow radix2 4).
  destruct (example_generic 24 (-149) prec24 ltac:(lia) ltac:(lia)) as (A & B & C & D & E & _ & G & H & I).
  repeat split; assumption.
Qed.

(* the same numbers as IEEE-754 values *)
Definition ex64_t0 : b64 := @B754_finite 53 1024 false 4503599627370496 (-40) eq_refl.   (* 4096   *)
Definition ex64_t : b64 := @B754_finite 53 1024 false 4504149383184384 (-40) eq_refl.    (* 4096.5 *)
Definition ex64_scale : b64 := @B754_finite 53 1024 false 4503599627370496 (-12) eq_refl. (* 2^40  *)
Definition ex64_E : b64 := @B754_finite 53 1024 false 4503599627370496 (-48) eq_refl.    (* 16     *)
Definition ex32_t0 : b32 := @B754_finite 24 128 false 8388608 (-11) eq_refl.
Definition ex32_t : b32 := @B754_finite 24 128 false 8389632 (-11) eq_refl.
Definition ex32_scale : b32 := @B754_finite 24 128 false 8388608 17 eq_refl.
Definition ex32_E : b32 := @B754_finite 24 128 false 8388608 (-19) eq_refl.

Lemma F2R_pow2 : forall p e, F2R (Float radix2 (Z.pow_pos 2 p) e) = bpow radix2 (Zpos p + e).
Proof. intros p e. unfold F2R. cbn [Fnum Fexp]. rewrite bpow_plus. reflexivity. Qed.

Example never_infinite_binary64_ieee_nonvacuous :
  is_finite ex64_t = true /\ is_finite ex64_t0 = true /\ is_finite ex64_scale = true /\ is_finite ex64_E = true /\
  bpow radix2 (-20) <= B2R ex64_t0 /\ B2R ex64_t <= bpow radix2 60 /\
  0 <= B2R ex64_scale /\ B2R ex64_scale <= bpow radix2 73 /\ Rabs (B2R ex64_E) <= bpow radix2 30 /\
  0 < B2R (Bminus mode_NE ex64_t ex64_t0).
Proof.
  assert (L : forall a b, (a <= b)%Z -> bpow radix2 a <= bpow radix2 b) by (intros; apply bpow_le; assumption).
  assert (T0 : B2R ex64_t0 = bpow radix2 12) by (exact (F2R_pow2 52 (-40))).
  assert (S : B2R ex64_scale = bpow radix2 40) by (exact (F2R_pow2 52 (-12))).
  assert (E : B2R ex64_E = bpow radix2 4) by (exact (F2R_pow2 52 (-48))).
  assert (T : B2R ex64_t = bpow radix2 12 + bpow radix2 (-1)).
  { change (B2R ex64_t) with (F2R (Float radix2 (Z.pow_pos 2 52 + Z.pow_pos 2 39) (-40))).
    unfold F2R. cbn [Fnum Fexp]. rewrite plus_IZR, Rmult_plus_distr_r.
    change (IZR (Z.pow_pos 2 52)) with (bpow radix2 52). change (IZR (Z.pow_pos 2 39)) with (bpow radix2 39).
    rewrite <- !bpow_plus. reflexivity. }
  rewrite T0, S, E, T.
  repeat split; try reflexivity.
  - apply L. lia.
  - pose proof (L (-1)%Z 12%Z ltac:(lia)). pose proof (L 12%Z 59%Z ltac:(lia)).
    assert (bpow radix2 60 = 2 * bpow radix2 59) by (replace 60%Z with (1 + 59)%Z by lia; rewrite bpow_plus; reflexivity).
    lra.
  - apply Rlt_le, bpow_gt_0.
  - apply L. lia.
  - rewrite Rabs_pos_eq by (apply Rlt_le, bpow_gt_0). apply L. lia.
  - rewrite <- SF2R_B2SF.
    replace (B2SF (Bminus mode_NE ex64_t ex64_t0)) with (SpecFloat.S754_finite false 4503599627370496 (-53)) by (vm_compute; reflexivity).
    apply F2R_gt_0. reflexivity.
Qed.

Example never_infinite_binary32_ieee_nonvacuous :
  is_finite ex32_t = true /\ is_finite ex32_t0 = true /\ is_finite ex32_scale = true /\ is_finite ex32_E = true /\
  bpow radix2 (-20) <= B2R ex32_t0 /\ B2R ex32_t <= bpow radix2 60 /\
  0 <= B2R ex32_scale /\ B2R ex32_scale <= bpow radix2 52 * (B2R ex32_t0 * B2R ex32_t0) /\
  Rabs (B2R ex32_E) <= bpow radix2 30 /\
  0 < B2R (Bminus mode_NE ex32_t ex32_t0).
Proof.
  assert (L : forall a b, (a <= b)%Z -> bpow radix2 a <= bpow radix2 b) by (intros; apply bpow_le; assumption).
  assert (T0 : B2R ex32_t0 = bpow radix2 12) by (exact (F2R_pow2 23 (-11))).
  assert (S : B2R ex32_scale = bpow radix2 40) by (exact (F2R_pow2 23 17)).
  assert (E : B2R ex32_E = bpow radix2 4) by (exact (F2R_pow2 23 (-19))).
  assert (T : B2R ex32_t = bpow radix2 12 + bpow radix2 (-1)).
  { change (B2R ex32_t) with (F2R (Float radix2 (Z.pow_pos 2 23 + Z.pow_pos 2 10) (-11))).
    unfold F2R. cbn [Fnum Fexp]. rewrite plus_IZR, Rmult_plus_distr_r.
    change (IZR (Z.pow_pos 2 23)) with (bpow radix2 23). change (IZR (Z.pow_pos 2 10)) with (bpow radix2 10).
    rewrite <- !bpow_plus. reflexivity. }
  rewrite T0, S, E, T.
  repeat split; try reflexivity.
  - apply L. lia.
  - pose proof (L (-1)%Z 12%Z ltac:(lia)). pose proof (L 12%Z 59%Z ltac:(lia)).
    assert (bpow radix2 60 = 2 * bpow radix2 59) by (replace 60%Z with (1 + 59)%Z by lia; rewrite bpow_plus; reflexivity).
    lra.
  - apply Rlt_le, bpow_gt_0.
  - rewrite <- !bpow_plus. apply L. lia.
  - rewrite Rabs_pos_eq by (apply Rlt_le, bpow_gt_0). apply L. lia.
  - rewrite <- SF2R_B2SF.
    replace (B2SF (Bminus mode_NE ex32_t ex32_t0)) with (SpecFloat.S754_finite false 8388608 (-24)) by (vm_compute; reflexivity).
    apply F2R_gt_0. reflexivity.
Qed.
