(* C05/Spec.v — energy conservation for a neutron that flies L1 with energy Ei
   and L2 with energy Ef.  SI units, over R. *)
From Coq Require Import Reals Lra.
From Verif.Sem Require Import RLemmas.
Open Scope R_scope.

Section S.
Variable mn : R.
Hypothesis Hm : mn > 0.

(* time needed to fly length L with kinetic energy E = m v^2 / 2 :  L / v = L * sqrt(m/(2E)) *)
Definition slowness (E : R) := sqrt (mn / (2 * E)).
Definition flight_time (L E : R) := L * slowness E.

Lemma slowness_pos E : E > 0 -> slowness E > 0.
Proof using Hm. intros; unfold slowness; pos. Qed.
Lemma slowness_sq E : E > 0 -> slowness E * slowness E = mn / (2 * E).
Proof using Hm. intros; unfold slowness; apply sqrt_sqrt; nonneg. Qed.
(* slowness is 1/v with v = sqrt(2E/m) *)
Lemma slowness_inv_speed E : E > 0 -> slowness E = 1 / sqrt (2 * E / mn).
Proof using Hm.
  intros HE. unfold slowness.
  assert (Hs : 0 < sqrt (2 * E / mn)) by pos.
  apply sqrt_eq_of_sq; [ apply Rlt_le; pos |].
  replace (1 / sqrt (2 * E / mn) * (1 / sqrt (2 * E / mn)))
    with (1 / (sqrt (2 * E / mn) * sqrt (2 * E / mn))) by (field; lra).
  rewrite sqrt_sqrt by nonneg. field; lra.
Qed.

(* the documented result for an arrival time t *)
Definition dE_direct (t L1 L2 Ei : R) := Ei - mn * (L2 * L2) / (2 * ((t - flight_time L1 Ei) * (t - flight_time L1 Ei))).
Definition dE_indirect (t L1 L2 Ef : R) := mn * (L1 * L1) / (2 * ((t - flight_time L2 Ef) * (t - flight_time L2 Ef))) - Ef.

Lemma direct_conservation L1 L2 Ei Ef :
  L1 > 0 -> L2 > 0 -> Ei > 0 -> Ef > 0 ->
  dE_direct (flight_time L1 Ei + flight_time L2 Ef) L1 L2 Ei = Ei - Ef.
Proof using Hm.
  intros; unfold dE_direct.
  replace (flight_time L1 Ei + flight_time L2 Ef - flight_time L1 Ei) with (L2 * slowness Ef)
    by (unfold flight_time; ring).
  pose proof (slowness_pos Ef ltac:(assumption)); pose proof (slowness_sq Ef ltac:(assumption)) as Hq.
  replace (L2 * slowness Ef * (L2 * slowness Ef)) with (L2 * L2 * (slowness Ef * slowness Ef)) by ring.
  rewrite Hq. field; lra.
Qed.
Lemma indirect_conservation L1 L2 Ei Ef :
  L1 > 0 -> L2 > 0 -> Ei > 0 -> Ef > 0 ->
  dE_indirect (flight_time L1 Ei + flight_time L2 Ef) L1 L2 Ef = Ei - Ef.
Proof using Hm.
  intros; unfold dE_indirect.
  replace (flight_time L1 Ei + flight_time L2 Ef - flight_time L2 Ef) with (L1 * slowness Ei)
    by (unfold flight_time; ring).
  pose proof (slowness_pos Ei ltac:(assumption)); pose proof (slowness_sq Ei ltac:(assumption)) as Hq.
  replace (L1 * slowness Ei * (L1 * slowness Ei)) with (L1 * L1 * (slowness Ei * slowness Ei)) by ring.
  rewrite Hq. field; lra.
Qed.

(* the square root the code computes, in tof units, is the slowness rescaled *)
Lemma model_slowness X E k : E > 0 -> k > 0 -> X * (k * k) = mn / (2 * E) -> sqrt X = slowness E / k.
Proof using Hm.
  intros HE Hk HX. pose proof (slowness_pos E HE).
  assert (sqrt X * k = slowness E) as <-.
  { apply sqrt_scale; [lra | lra |]. rewrite slowness_sq by assumption. exact HX. }
  field; lra.
Qed.
End S.
